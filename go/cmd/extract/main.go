// Command extract is the regenerated half of the tie between /repo and the Lean models.
// It parses the repository's source with go/ast and writes the facts the models and theorems
// depend on (constants, tables, check orders, lock shapes, channel capacities, handler tables) as a
// Lean file, plus the same facts as JSON. It extracts facts, not programs: behaviour is tied by
// the correspondence harnesses.
//
// usage: extract <repo dir> <Facts.lean out> <facts.json out>
package main

import (
	"bytes"
	"crypto/sha256"
	"encoding/hex"
	"encoding/json"
	"fmt"
	"go/ast"
	"go/constant"
	"go/parser"
	"go/printer"
	"go/token"
	"os"
	"path/filepath"
	"sort"
	"strconv"
	"strings"
)

type pkgInfo struct {
	fset  *token.FileSet
	files map[string]*ast.File
	funcs map[string]*ast.FuncDecl // "Recv.Name" or "Name"
}

func loadPkg(dir string) *pkgInfo {
	fset := token.NewFileSet()
	p := &pkgInfo{fset: fset, files: map[string]*ast.File{}, funcs: map[string]*ast.FuncDecl{}}
	entries, err := os.ReadDir(dir)
	if err != nil {
		fatal("read dir %s: %s", dir, err)
	}
	for _, e := range entries {
		name := e.Name()
		if e.IsDir() || !strings.HasSuffix(name, ".go") || strings.HasSuffix(name, "_test.go") {
			continue
		}
		if name == "verif_hooks.go" {
			continue // the hooks are not part of the code under verification
		}
		f, err := parser.ParseFile(fset, filepath.Join(dir, name), nil, parser.ParseComments)
		if err != nil {
			fatal("parse %s: %s", name, err)
		}
		p.files[name] = f
		for _, d := range f.Decls {
			fd, ok := d.(*ast.FuncDecl)
			if !ok {
				continue
			}
			key := fd.Name.Name
			if fd.Recv != nil && len(fd.Recv.List) == 1 {
				key = recvName(fd.Recv.List[0].Type) + "." + key
			}
			p.funcs[key] = fd
		}
	}
	return p
}

func recvName(e ast.Expr) string {
	switch t := e.(type) {
	case *ast.StarExpr:
		return recvName(t.X)
	case *ast.Ident:
		return t.Name
	}
	return "?"
}

func fatal(f string, a ...interface{}) {
	fmt.Fprintf(os.Stderr, "extract: "+f+"\n", a...)
	os.Exit(2)
}

var missing []string

func miss(what string) {
	missing = append(missing, what)
}

// evalInt evaluates a constant integer expression made of literals, unary minus, + - * /, type
// conversions like uint8(0), and package level constants supplied in env.
func evalInt(e ast.Expr, env map[string]int64) (int64, bool) {
	switch t := e.(type) {
	case *ast.BasicLit:
		if t.Kind != token.INT && t.Kind != token.FLOAT {
			return 0, false
		}
		v := constant.MakeFromLiteral(t.Value, t.Kind, 0)
		if i, ok := constant.Int64Val(constant.ToInt(v)); ok {
			return i, true
		}
		return 0, false
	case *ast.ParenExpr:
		return evalInt(t.X, env)
	case *ast.UnaryExpr:
		v, ok := evalInt(t.X, env)
		if !ok {
			return 0, false
		}
		if t.Op == token.SUB {
			return -v, true
		}
		if t.Op == token.ADD {
			return v, true
		}
		return 0, false
	case *ast.BinaryExpr:
		a, ok1 := evalInt(t.X, env)
		b, ok2 := evalInt(t.Y, env)
		if !ok1 || !ok2 {
			return 0, false
		}
		switch t.Op {
		case token.ADD:
			return a + b, true
		case token.SUB:
			return a - b, true
		case token.MUL:
			return a * b, true
		case token.QUO:
			if b == 0 {
				return 0, false
			}
			return a / b, true
		}
		return 0, false
	case *ast.CallExpr:
		if len(t.Args) == 1 {
			if id, ok := t.Fun.(*ast.Ident); ok {
				switch id.Name {
				case "uint8", "uint16", "uint32", "uint64", "int", "int32", "int64", "uint":
					return evalInt(t.Args[0], env)
				}
			}
			if sel, ok := t.Fun.(*ast.SelectorExpr); ok && sel.Sel.Name == "Duration" {
				return evalInt(t.Args[0], env)
			}
		}
		return 0, false
	case *ast.Ident:
		v, ok := env[t.Name]
		return v, ok
	case *ast.SelectorExpr:
		// time.Second etc are not needed; report failure
		return 0, false
	}
	return 0, false
}

func pkgConsts(p *pkgInfo) map[string]int64 {
	env := map[string]int64{}
	for pass := 0; pass < 3; pass++ {
		for _, f := range p.files {
			for _, d := range f.Decls {
				gd, ok := d.(*ast.GenDecl)
				if !ok || (gd.Tok != token.CONST && gd.Tok != token.VAR) {
					continue
				}
				for _, s := range gd.Specs {
					vs := s.(*ast.ValueSpec)
					for i, n := range vs.Names {
						if i < len(vs.Values) {
							if v, ok := evalInt(vs.Values[i], env); ok {
								env[n.Name] = v
							}
						}
					}
				}
			}
		}
	}
	return env
}

func src(p *pkgInfo, n ast.Node) string {
	var buf bytes.Buffer
	printer.Fprint(&buf, p.fset, n)
	return buf.String()
}

// fingerprint is a hash of the printed body of a function with comments removed. It is only used
// to notice that a modelled function changed (escalation), never to fail a check.
func fingerprint(p *pkgInfo, fd *ast.FuncDecl) string {
	if fd == nil || fd.Body == nil {
		return ""
	}
	var buf bytes.Buffer
	cfg := printer.Config{Mode: printer.RawFormat}
	cfg.Fprint(&buf, token.NewFileSet(), fd.Body) // a fresh fileset drops comments and positions
	sum := sha256.Sum256(buf.Bytes())
	return hex.EncodeToString(sum[:8])
}

// makeChanCap finds `make(chan T, N)` assigned to the field or variable called name anywhere in
// the function and returns N.
func makeChanCaps(p *pkgInfo, fd *ast.FuncDecl, env map[string]int64) map[string]int64 {
	out := map[string]int64{}
	if fd == nil {
		return out
	}
	record := func(name string, v ast.Expr) {
		call, ok := v.(*ast.CallExpr)
		if !ok {
			return
		}
		id, ok := call.Fun.(*ast.Ident)
		if !ok || id.Name != "make" || len(call.Args) < 1 {
			return
		}
		if _, ok := call.Args[0].(*ast.ChanType); !ok {
			return
		}
		if len(call.Args) == 1 {
			out[name] = 0
			return
		}
		if n, ok := evalInt(call.Args[1], env); ok {
			out[name] = n
		}
	}
	ast.Inspect(fd, func(n ast.Node) bool {
		switch t := n.(type) {
		case *ast.KeyValueExpr:
			if k, ok := t.Key.(*ast.Ident); ok {
				record(k.Name, t.Value)
			}
		case *ast.AssignStmt:
			for i, l := range t.Lhs {
				if i >= len(t.Rhs) {
					break
				}
				switch lt := l.(type) {
				case *ast.Ident:
					record(lt.Name, t.Rhs[i])
				case *ast.SelectorExpr:
					record(lt.Sel.Name, t.Rhs[i])
				}
			}
		}
		return true
	})
	return out
}

// handlerAssignments lists `x.handlers[wire.CmdFoo] = x.handleBar` statements of a function in
// order, with whether each is nested in an if statement (and the printed condition).
type handlerEntry struct {
	Cmd     string `json:"cmd"`
	Handler string `json:"handler"`
	Cond    string `json:"cond"`
}

func handlerAssignments(p *pkgInfo, fd *ast.FuncDecl) []handlerEntry {
	var out []handlerEntry
	if fd == nil {
		return out
	}
	var walk func(stmts []ast.Stmt, cond string)
	walk = func(stmts []ast.Stmt, cond string) {
		for _, s := range stmts {
			switch t := s.(type) {
			case *ast.AssignStmt:
				if len(t.Lhs) != 1 || len(t.Rhs) != 1 {
					continue
				}
				ix, ok := t.Lhs[0].(*ast.IndexExpr)
				if !ok {
					continue
				}
				sel, ok := ix.X.(*ast.SelectorExpr)
				if !ok || sel.Sel.Name != "handlers" {
					continue
				}
				cmd := src(p, ix.Index)
				cmd = strings.TrimPrefix(cmd, "wire.")
				h := src(p, t.Rhs[0])
				if i := strings.LastIndex(h, "."); i >= 0 {
					h = h[i+1:]
				}
				out = append(out, handlerEntry{Cmd: cmd, Handler: h, Cond: cond})
			case *ast.IfStmt:
				c := src(p, t.Cond)
				if cond != "" {
					c = cond + " && " + c
				}
				walk(t.Body.List, c)
				if eb, ok := t.Else.(*ast.BlockStmt); ok {
					walk(eb.List, "!("+c+")")
				}
			case *ast.BlockStmt:
				walk(t.List, cond)
			}
		}
	}
	walk(fd.Body.List, "")
	return out
}

// sentinelOrder lists, in source order, the package level Err* identifiers that appear in
// return statements of the function.
func sentinelOrder(fd *ast.FuncDecl) []string {
	var out []string
	if fd == nil {
		return out
	}
	ast.Inspect(fd.Body, func(n ast.Node) bool {
		rs, ok := n.(*ast.ReturnStmt)
		if !ok {
			return true
		}
		for _, r := range rs.Results {
			ast.Inspect(r, func(m ast.Node) bool {
				if id, ok := m.(*ast.Ident); ok && strings.HasPrefix(id.Name, "Err") {
					out = append(out, id.Name)
				}
				return true
			})
		}
		return true
	})
	return out
}

// callOrder lists the method/function names called in the function body, in source order,
// restricted to the names in keep.
func callOrder(fd *ast.FuncDecl, keep map[string]bool) []string {
	var out []string
	if fd == nil {
		return out
	}
	ast.Inspect(fd.Body, func(n ast.Node) bool {
		call, ok := n.(*ast.CallExpr)
		if !ok {
			return true
		}
		name := ""
		switch f := call.Fun.(type) {
		case *ast.Ident:
			name = f.Name
		case *ast.SelectorExpr:
			name = f.Sel.Name
		}
		if keep[name] {
			out = append(out, name)
		}
		return true
	})
	return out
}

// stmtSkeleton lists the top-level statements of a small function in a normal form: logging calls, lock /
// unlock and defer statements are left out; an `if` whose body ends in a return is written
// "if <cond> return"; everything else is its source text on one line. Used for guards that decide
// interleavings the call-granularity harness cannot reach (e.g. the once-only close of a channel).
func stmtSkeleton(p *pkgInfo, fd *ast.FuncDecl) []string {
	var out []string
	if fd == nil {
		return out
	}
	oneLine := func(n ast.Node) string { return strings.Join(strings.Fields(src(p, n)), " ") }
	for _, st := range fd.Body.List {
		switch x := st.(type) {
		case *ast.DeferStmt:
			continue
		case *ast.ExprStmt:
			t := oneLine(x)
			if strings.HasPrefix(t, "logger.") || strings.HasSuffix(t, ".Lock()") || strings.HasSuffix(t, ".Unlock()") {
				continue
			}
			out = append(out, t)
		case *ast.IfStmt:
			t := "if " + oneLine(x.Cond)
			if n := len(x.Body.List); n > 0 {
				if _, ok := x.Body.List[n-1].(*ast.ReturnStmt); ok {
					t += " return"
				}
			}
			out = append(out, t)
		default:
			out = append(out, oneLine(st))
		}
	}
	return out
}

var syncTraceFuncs = []string{
	"BlockDownloader.Run", "BlockDownloader.cancelAndWaitForComplete", "BlockDownloader.Stop", "BlockDownloader.Cancel",
	"BlockDownloader.wasCancelled", "BlockDownloader.HandleBlock", "BlockDownloader.handleBlock",
	"BlockManager.AddRequest", "BlockManager.Stop", "BlockManager.shutdown", "BlockManager.processRequest",
	"BlockManager.cancelDownloaders", "BlockManager.requestBlock", "BlockManager.removeDownloader",
	"BlockManager.markBlockRequestComplete",
	"BitcoinNode.RequestBlock", "BitcoinNode.CancelBlockRequest", "BitcoinNode.handleBlock", "BitcoinNode.completeBlock",
	"BitcoinNode.IsBusy", "BitcoinNode.Stop", "BitcoinNode.closeConnection", "BitcoinNode.run",
}

// the connection's send / receive machinery (C15, C14): queue locking, channel operations, goroutine starts
var connTraceFuncs = []string{
	"MessageChannel.Add", "MessageChannel.Open", "MessageChannel.Close",
	"BitcoinNode.sendMessage", "BitcoinNode.sendOutgoing", "BitcoinNode.readIncoming", "BitcoinNode.handleMessage",
	"TxManager.sendTx", "TxManager.Run", "TxManager.Stop",
}

// lockTrace lists, in source order, every mutex operation of a function (receiver.Method for Lock, Unlock,
// RLock, RUnlock; "defer " prefix when deferred) together with the control structure they sit in ("if{", "else{",
// "for{", "}") and the returns: the critical sections of the function as written. Used where a model treats a
// critical section as one atomic step and the interleavings in question are below call granularity.
func lockTrace(p *pkgInfo, fd *ast.FuncDecl, withChans bool) []string {
	var out []string
	if fd == nil || fd.Body == nil {
		return out
	}
	lockCall := func(e ast.Expr) string {
		call, ok := e.(*ast.CallExpr)
		if !ok || len(call.Args) != 0 {
			return ""
		}
		sel, ok := call.Fun.(*ast.SelectorExpr)
		if !ok {
			return ""
		}
		switch sel.Sel.Name {
		case "Lock", "Unlock", "RLock", "RUnlock":
			return strings.Join(strings.Fields(src(p, sel.X)), "") + "." + sel.Sel.Name
		}
		return ""
	}
	var walk func(list []ast.Stmt)
	var walkStmt func(st ast.Stmt)
	walkStmt = func(st ast.Stmt) {
		switch x := st.(type) {
		case *ast.ExprStmt:
			if t := lockCall(x.X); t != "" {
				out = append(out, t)
			} else if withChans {
				if u, ok := x.X.(*ast.UnaryExpr); ok && u.Op == token.ARROW {
					out = append(out, "recv "+strings.Join(strings.Fields(src(p, u.X)), ""))
				}
				if call, ok := x.X.(*ast.CallExpr); ok {
					if id, ok := call.Fun.(*ast.Ident); ok && id.Name == "close" && len(call.Args) == 1 {
						out = append(out, "close "+strings.Join(strings.Fields(src(p, call.Args[0])), ""))
					}
					// calls of caller-supplied functions (on-stop, handlers): what locks are held around them matters
					fn := strings.Join(strings.Fields(src(p, call.Fun)), "")
					low := strings.ToLower(fn)
					if strings.Contains(low, "onstop") || strings.HasSuffix(low, "handler") || strings.Contains(low, "callback") {
						out = append(out, "call "+fn)
					}
				}
			}
		case *ast.SendStmt:
			if withChans {
				out = append(out, "send "+strings.Join(strings.Fields(src(p, x.Chan)), ""))
			}
		case *ast.DeferStmt:
			if t := lockCall(x.Call); t != "" {
				out = append(out, "defer "+t)
			} else if fl, ok := x.Call.Fun.(*ast.FuncLit); ok {
				n := len(out)
				out = append(out, "defer{")
				walk(fl.Body.List)
				out = append(out, "}")
				if len(out) == n+2 {
					out = out[:n]
				}
			}
		case *ast.GoStmt:
			if fl, ok := x.Call.Fun.(*ast.FuncLit); ok {
				out = append(out, "go{")
				walk(fl.Body.List)
				out = append(out, "}")
			} else {
				out = append(out, "go "+strings.Join(strings.Fields(src(p, x.Call.Fun)), ""))
			}
		case *ast.ReturnStmt:
			out = append(out, "return")
		case *ast.BlockStmt:
			walk(x.List)
		case *ast.IfStmt:
			n := len(out)
			out = append(out, "if{")
			walk(x.Body.List)
			out = append(out, "}")
			if x.Else != nil {
				out = append(out, "else{")
				walkStmt(x.Else)
				out = append(out, "}")
			}
			// an if without any lock operation or return inside is left out
			plain := true
			for _, t := range out[n:] {
				if t != "if{" && t != "}" && t != "else{" {
					plain = false
				}
			}
			if plain {
				out = out[:n]
			}
		case *ast.ForStmt:
			n := len(out)
			out = append(out, "for{")
			walk(x.Body.List)
			out = append(out, "}")
			if len(out) == n+2 {
				out = out[:n]
			}
		case *ast.RangeStmt:
			n := len(out)
			if withChans {
				// ranging over a channel is a receive loop (the flush loops of sendOutgoing, the tx stream): kept
				// even when its body is empty
				out = append(out, "range "+strings.Join(strings.Fields(src(p, x.X)), "")+"{")
				walk(x.Body.List)
				out = append(out, "}")
				low := strings.ToLower(out[n])
				if len(out) == n+2 && !strings.Contains(low, "chan") {
					out = out[:n]
				}
				break
			}
			out = append(out, "for{")
			walk(x.Body.List)
			out = append(out, "}")
			if len(out) == n+2 {
				out = out[:n]
			}
		case *ast.SwitchStmt:
			for _, c := range x.Body.List {
				if cc, ok := c.(*ast.CaseClause); ok {
					out = append(out, "case{")
					walk(cc.Body)
					out = append(out, "}")
				}
			}
		case *ast.SelectStmt:
			for _, c := range x.Body.List {
				if cc, ok := c.(*ast.CommClause); ok {
					out = append(out, "case{")
					if withChans && cc.Comm != nil {
						out = append(out, "comm "+strings.Join(strings.Fields(src(p, cc.Comm)), " "))
					}
					walk(cc.Body)
					out = append(out, "}")
				}
			}
		}
	}
	walk = func(list []ast.Stmt) {
		for _, st := range list {
			walkStmt(st)
		}
	}
	walk(fd.Body.List)
	return out
}

// lockShape reports whether the function's first statement locks the receiver's mutex (directly
// embedded: recv.Lock(); or a field: recv.<field>.Lock()) and the second defers the unlock.
func lockShape(fd *ast.FuncDecl) string {
	if fd == nil || fd.Body == nil || len(fd.Body.List) < 1 {
		return "none"
	}
	isCall := func(s ast.Stmt, method string) bool {
		var call *ast.CallExpr
		switch t := s.(type) {
		case *ast.ExprStmt:
			call, _ = t.X.(*ast.CallExpr)
		case *ast.DeferStmt:
			call = t.Call
		}
		if call == nil {
			return false
		}
		sel, ok := call.Fun.(*ast.SelectorExpr)
		return ok && sel.Sel.Name == method
	}
	// allow leading statements that do not touch the receiver state (e.g. hash := header.BlockHash())
	for i, s := range fd.Body.List {
		if isCall(s, "Lock") {
			if i+1 < len(fd.Body.List) {
				if _, ok := fd.Body.List[i+1].(*ast.DeferStmt); ok && isCall(fd.Body.List[i+1], "Unlock") {
					if i == 0 {
						return "lock-defer"
					}
					return "late-lock-defer"
				}
			}
			return "lock-manual"
		}
	}
	return "none"
}

func findIntCompare(p *pkgInfo, fd *ast.FuncDecl, lhsName string, env map[string]int64) (string, int64, bool) {
	var op string
	var val int64
	found := false
	if fd == nil {
		return "", 0, false
	}
	ast.Inspect(fd.Body, func(n ast.Node) bool {
		if found {
			return false
		}
		be, ok := n.(*ast.BinaryExpr)
		if !ok {
			return true
		}
		if id, ok := be.X.(*ast.Ident); ok && id.Name == lhsName {
			if v, ok := evalInt(be.Y, env); ok {
				switch be.Op {
				case token.GEQ, token.GTR, token.LSS, token.LEQ, token.EQL:
					op, val, found = be.Op.String(), v, true
				}
			}
		}
		return true
	})
	return op, val, found
}

// allIntCompares returns every "<ident> <op> <const>" in source order for the identifier.
type cmp struct {
	Op  string
	Val int64
}

func allIntCompares(fd *ast.FuncDecl, lhsName string, env map[string]int64) []cmp {
	var out []cmp
	if fd == nil {
		return out
	}
	ast.Inspect(fd.Body, func(n ast.Node) bool {
		be, ok := n.(*ast.BinaryExpr)
		if !ok {
			return true
		}
		if id, ok := be.X.(*ast.Ident); ok && id.Name == lhsName {
			if v, ok := evalInt(be.Y, env); ok {
				out = append(out, cmp{be.Op.String(), v})
			}
		}
		return true
	})
	return out
}

type splitFact struct {
	Name   string `json:"name"`
	Before string `json:"before"`
	After  string `json:"after"`
	Height int64  `json:"height"`
}

func splitLits(p *pkgInfo, varName string) []splitFact {
	var out []splitFact
	for _, f := range p.files {
		for _, d := range f.Decls {
			gd, ok := d.(*ast.GenDecl)
			if !ok || gd.Tok != token.VAR {
				continue
			}
			for _, s := range gd.Specs {
				vs := s.(*ast.ValueSpec)
				for i, n := range vs.Names {
					if n.Name != varName || i >= len(vs.Values) {
						continue
					}
					ast.Inspect(vs.Values[i], func(m ast.Node) bool {
						cl, ok := m.(*ast.CompositeLit)
						if !ok {
							return true
						}
						id, ok := cl.Type.(*ast.Ident)
						if !ok || id.Name != "splitHex" {
							return true
						}
						sf := splitFact{}
						for _, el := range cl.Elts {
							kv, ok := el.(*ast.KeyValueExpr)
							if !ok {
								continue
							}
							k := kv.Key.(*ast.Ident).Name
							switch k {
							case "name":
								sf.Name = src(p, kv.Value)
							case "before":
								sf.Before, _ = strconv.Unquote(src(p, kv.Value))
							case "after":
								sf.After, _ = strconv.Unquote(src(p, kv.Value))
							case "height":
								sf.Height, _ = evalInt(kv.Value, nil)
							}
						}
						out = append(out, sf)
						return false
					})
				}
			}
		}
	}
	return out
}

type facts struct {
	Ints         map[string]int64          `json:"ints"`
	Strs         map[string]string         `json:"strs"`
	Splits       []splitFact               `json:"splits"`
	Required     []splitFact               `json:"required_split"`
	PreAccept    []handlerEntry            `json:"pre_accept_handlers"`
	Accept       []handlerEntry            `json:"accept_handlers"`
	CheckOrder   []string                  `json:"process_header_check_order"`
	CallOrders   map[string][]string       `json:"call_orders"`
	SyncTraces   map[string][]string       `json:"sync_traces"`
	LockShapes   map[string]string         `json:"lock_shapes"`
	Fingerprints map[string]string         `json:"fingerprints"`
	Missing      []string                  `json:"missing"`
	extra        map[string]map[string]int `json:"-"`
}

func main() {
	if len(os.Args) != 4 {
		fatal("usage: extract <repo> <Facts.lean> <facts.json>")
	}
	repo := os.Args[1]
	root := loadPkg(repo)
	hdrs := loadPkg(filepath.Join(repo, "headers"))
	renv := pkgConsts(root)
	henv := pkgConsts(hdrs)

	fx := &facts{Ints: map[string]int64{}, Strs: map[string]string{}, CallOrders: map[string][]string{}, SyncTraces: map[string][]string{},
		LockShapes: map[string]string{}, Fingerprints: map[string]string{}}

	geti := func(env map[string]int64, name, as string) {
		if v, ok := env[name]; ok {
			fx.Ints[as] = v
		} else {
			miss("const " + name)
		}
	}
	geti(henv, "headersPerFile", "headersPerFile")
	geti(henv, "pruneDepth", "pruneDepth")
	geti(henv, "headerDataSerializeSize", "headerDataSerializeSize")
	geti(henv, "headersVersion", "headersVersion")
	geti(henv, "branchVersion", "branchVersion")
	geti(renv, "peersVersion", "peersVersion")

	// DAA activation height literal in ProcessHeader: `height >= N`
	ph := hdrs.funcs["Repository.ProcessHeader"]
	if op, v, ok := findIntCompare(hdrs, ph, "height", henv); ok {
		fx.Ints["daaHeight"] = v
		fx.Strs["daaHeightOp"] = op
	} else {
		miss("ProcessHeader height compare")
	}
	// depth test `depth > repo.config.MaxBranchDepth`
	if ph != nil {
		ast.Inspect(ph.Body, func(n ast.Node) bool {
			be, ok := n.(*ast.BinaryExpr)
			if !ok {
				return true
			}
			if id, ok := be.X.(*ast.Ident); ok && id.Name == "depth" {
				fx.Strs["depthOp"] = be.Op.String()
				fx.Strs["depthRhs"] = src(hdrs, be.Y)
			}
			return true
		})
		// auto clean modulus: previousBranch.Height()%N == 0 followed by clean
		ast.Inspect(ph.Body, func(n ast.Node) bool {
			is, ok := n.(*ast.IfStmt)
			if !ok {
				return true
			}
			txt := src(hdrs, is.Body)
			if !strings.Contains(txt, "repo.clean(") {
				return true
			}
			if be, ok := is.Cond.(*ast.BinaryExpr); ok {
				if mod, ok := be.X.(*ast.BinaryExpr); ok && mod.Op == token.REM {
					if v, ok := evalInt(mod.Y, henv); ok {
						fx.Ints["autoCleanModulus"] = v
					}
				}
			}
			return true
		})
	}
	if _, ok := fx.Strs["depthOp"]; !ok {
		miss("depth compare")
	}
	if _, ok := fx.Ints["autoCleanModulus"]; !ok {
		miss("auto clean modulus")
	}
	fx.CheckOrder = sentinelOrder(ph)

	// LoadBranch: where the rebuilt hash->height map starts (`height := <expr>`) and how it advances
	if lb := hdrs.funcs["LoadBranch"]; lb != nil {
		ast.Inspect(lb.Body, func(n ast.Node) bool {
			if as, ok := n.(*ast.AssignStmt); ok && as.Tok == token.DEFINE && len(as.Lhs) == 1 && len(as.Rhs) == 1 {
				if id, ok := as.Lhs[0].(*ast.Ident); ok && id.Name == "height" {
					fx.Strs["loadBranchHeightStart"] = src(hdrs, as.Rhs[0])
				}
			}
			return true
		})
	}
	if _, ok := fx.Strs["loadBranchHeightStart"]; !ok {
		miss("LoadBranch height start")
	}

	// main-file addressing of the height queries and of the range query: `file := <expr>` / `wantFile := <expr>` and
	// `offset := <expr>` (every definition in the function, joined with `|`), and the range loop's stop test
	for _, fa := range []struct{ fn, as, fileVar string }{
		{"Repository.header", "header", "file"}, {"Repository.Hash", "hash", "file"}, {"Repository.GetHeaders", "getHeaders", "wantFile"}} {
		fd := hdrs.funcs[fa.fn]
		if fd == nil {
			miss(fa.fn)
			continue
		}
		var files, offs, stops []string
		ast.Inspect(fd.Body, func(n ast.Node) bool {
			switch x := n.(type) {
			case *ast.AssignStmt:
				if len(x.Lhs) == 1 && len(x.Rhs) == 1 {
					if id, ok := x.Lhs[0].(*ast.Ident); ok {
						if id.Name == fa.fileVar {
							files = append(files, src(hdrs, x.Rhs[0]))
						}
						if id.Name == "offset" {
							offs = append(offs, src(hdrs, x.Rhs[0]))
						}
					}
				}
			case *ast.IfStmt:
				if be, ok := x.Cond.(*ast.BinaryExpr); ok && strings.Contains(src(hdrs, be), "maxCount") {
					stops = append(stops, src(hdrs, be))
				}
			case *ast.ForStmt:
				if x.Cond != nil && fa.as == "getHeaders" {
					fx.Strs["getHeadersLoop"] = src(hdrs, x.Init) + "; " + src(hdrs, x.Cond) + "; " + src(hdrs, x.Post)
				}
			}
			return true
		})
		if len(files) == 0 || len(offs) == 0 {
			miss(fa.fn + " file/offset expressions")
		}
		fx.Strs[fa.as+"FileExpr"] = strings.Join(files, "|")
		fx.Strs[fa.as+"OffsetExpr"] = strings.Join(offs, "|")
		if fa.as == "getHeaders" {
			fx.Strs["getHeadersStopTests"] = strings.Join(stops, "|")
		}
	}

	// Target: literals
	tg := hdrs.funcs["Branch.Target"]
	if tg != nil {
		cs := allIntCompares(tg, "timeSpan", henv)
		for _, c := range cs {
			if c.Op == "<" {
				fx.Ints["daaMinSpan"] = c.Val
			}
			if c.Op == ">" {
				fx.Ints["daaMaxSpan"] = c.Val
			}
		}
		// MedianTimeAndWork(ctx, height-1, 3) and (ctx, height-144-1, 3)
		var offs []int64
		var counts []int64
		ast.Inspect(tg.Body, func(n ast.Node) bool {
			call, ok := n.(*ast.CallExpr)
			if !ok {
				return true
			}
			sel, ok := call.Fun.(*ast.SelectorExpr)
			if !ok || sel.Sel.Name != "MedianTimeAndWork" || len(call.Args) != 3 {
				return true
			}
			if v, ok := evalInt(call.Args[1], map[string]int64{"height": 0}); ok {
				offs = append(offs, -v)
			}
			if v, ok := evalInt(call.Args[2], henv); ok {
				counts = append(counts, v)
			}
			return true
		})
		if len(offs) == 2 && len(counts) == 2 {
			fx.Ints["daaLastOffset"] = offs[0]
			fx.Ints["daaFirstOffset"] = offs[1]
			fx.Ints["daaMedianCountLast"] = counts[0]
			fx.Ints["daaMedianCountFirst"] = counts[1]
		} else {
			miss("Target MedianTimeAndWork calls")
		}
		// big.NewInt(600) multiplier
		ast.Inspect(tg.Body, func(n ast.Node) bool {
			call, ok := n.(*ast.CallExpr)
			if !ok {
				return true
			}
			sel, ok := call.Fun.(*ast.SelectorExpr)
			if !ok || sel.Sel.Name != "Mul" || len(call.Args) != 2 {
				return true
			}
			if inner, ok := call.Args[1].(*ast.CallExpr); ok && len(inner.Args) == 1 {
				if v, ok := evalInt(inner.Args[0], henv); ok {
					fx.Ints["daaTargetSpacing"] = v
				}
			}
			return true
		})
		// is the time span computed on the unsigned results directly?
		ast.Inspect(tg.Body, func(n ast.Node) bool {
			as, ok := n.(*ast.AssignStmt)
			if !ok || len(as.Lhs) != 1 {
				return true
			}
			if id, ok := as.Lhs[0].(*ast.Ident); ok && id.Name == "timeSpan" && as.Tok == token.DEFINE {
				fx.Strs["daaTimeSpanExpr"] = src(hdrs, as.Rhs[0])
			}
			return true
		})
	} else {
		miss("Branch.Target")
	}
	for _, k := range []string{"daaMinSpan", "daaMaxSpan", "daaTargetSpacing"} {
		if _, ok := fx.Ints[k]; !ok {
			miss(k)
		}
	}
	if mt := hdrs.funcs["Branch.MedianTimeAndWork"]; mt != nil && mt.Type.Results != nil &&
		len(mt.Type.Results.List) > 0 {
		fx.Strs["medianTimeType"] = src(hdrs, mt.Type.Results.List[0].Type)
	} else {
		miss("MedianTimeAndWork result type")
	}

	// locator: repo.longest.GetLocatorHashes(repo.splits, 5, max)
	if gl := hdrs.funcs["Repository.GetLocatorHashes"]; gl != nil {
		ast.Inspect(gl.Body, func(n ast.Node) bool {
			call, ok := n.(*ast.CallExpr)
			if !ok {
				return true
			}
			sel, ok := call.Fun.(*ast.SelectorExpr)
			if ok && sel.Sel.Name == "GetLocatorHashes" && len(call.Args) == 3 {
				if v, ok := evalInt(call.Args[1], henv); ok {
					fx.Ints["locatorDelta"] = v
				}
			}
			return true
		})
	}
	if _, ok := fx.Ints["locatorDelta"]; !ok {
		miss("locator delta")
	}
	for _, fn := range []struct{ f, as string }{{"BitcoinNode.sendInitialHeaderRequest", "locatorMaxInitial"},
		{"BitcoinNode.sendHeaderRequest", "locatorMaxFollow"}} {
		fd := root.funcs[fn.f]
		okk := false
		if fd != nil {
			ast.Inspect(fd.Body, func(n ast.Node) bool {
				call, ok := n.(*ast.CallExpr)
				if !ok {
					return true
				}
				sel, ok := call.Fun.(*ast.SelectorExpr)
				if ok && sel.Sel.Name == "GetLocatorHashes" && len(call.Args) == 2 {
					if v, ok := evalInt(call.Args[1], renv); ok {
						fx.Ints[fn.as] = v
						okk = true
					}
				}
				return true
			})
		}
		if !okk {
			miss(fn.as)
		}
	}

	// default MaxBranchDepth
	if dc := hdrs.funcs["DefaultConfig"]; dc != nil {
		ast.Inspect(dc.Body, func(n ast.Node) bool {
			kv, ok := n.(*ast.KeyValueExpr)
			if !ok {
				return true
			}
			if k, ok := kv.Key.(*ast.Ident); ok && k.Name == "MaxBranchDepth" {
				if v, ok := evalInt(kv.Value, henv); ok {
					fx.Ints["defaultMaxBranchDepth"] = v
				}
			}
			return true
		})
	}

	// splits
	fx.Splits = splitLits(hdrs, "mainNetSplits")
	fx.Required = splitLits(hdrs, "mainNetRequiredSplit")
	if len(fx.Splits) == 0 || len(fx.Required) != 1 {
		miss("split tables")
	}

	// channel capacities
	caps := makeChanCaps(root, root.funcs["NewBlockDownloader"], renv)
	for k, as := range map[string]string{"Started": "startedCap", "Complete": "completeCap"} {
		if v, ok := caps[k]; ok {
			fx.Ints[as] = v
		} else {
			miss(as)
		}
	}
	caps = makeChanCaps(root, root.funcs["NewBitcoinNode"], renv)
	if v, ok := caps["handshakeChannel"]; ok {
		fx.Ints["handshakeCap"] = v
	} else {
		miss("handshakeCap")
	}
	caps = makeChanCaps(root, root.funcs["NewBlockManager"], renv)
	if v, ok := caps["requests"]; ok {
		fx.Ints["requestsCap"] = v
	} else {
		miss("requestsCap")
	}
	caps = makeChanCaps(root, root.funcs["NewTxManager"], renv)
	if v, ok := caps["txChannel"]; ok {
		fx.Ints["txChannelCap"] = v
	} else {
		miss("txChannelCap")
	}
	caps = makeChanCaps(hdrs, hdrs.funcs["Repository.GetNewHeadersAvailableChannel"], henv)
	if v, ok := caps["result"]; ok {
		fx.Ints["newHeadersCap"] = v
	} else {
		miss("newHeadersCap")
	}
	caps = makeChanCaps(root, root.funcs["BlockManager.AddRequest"], renv)
	if v, ok := caps["complete"]; ok {
		fx.Ints["requestCompleteCap"] = v
	}
	// tx map bucket count: make([]*txMap, 256)
	if fd := root.funcs["NewTxManager"]; fd != nil {
		ast.Inspect(fd.Body, func(n ast.Node) bool {
			call, ok := n.(*ast.CallExpr)
			if !ok {
				return true
			}
			if id, ok := call.Fun.(*ast.Ident); ok && id.Name == "make" && len(call.Args) == 2 {
				if _, ok := call.Args[0].(*ast.ArrayType); ok {
					if v, ok := evalInt(call.Args[1], renv); ok {
						fx.Ints["txBuckets"] = v
					}
				}
			}
			return true
		})
	}
	if _, ok := fx.Ints["txBuckets"]; !ok {
		miss("txBuckets")
	}
	// processRequest: countWithoutActiveDownload > 20
	if op, v, ok := findIntCompare(root, root.funcs["BlockManager.processRequest"],
		"countWithoutActiveDownload", renv); ok {
		fx.Ints["noDownloadLimit"] = v
		fx.Strs["noDownloadOp"] = op
	} else {
		miss("countWithoutActiveDownload compare")
	}
	// cancelAndWaitForComplete: count >= 60 (number of 10 s waits before giving up)
	if op, v, ok := findIntCompare(root, root.funcs["BlockDownloader.cancelAndWaitForComplete"],
		"count", renv); ok {
		fx.Ints["cancelWaitLimit"] = v
		fx.Strs["cancelWaitOp"] = op
	} else {
		miss("cancelAndWaitForComplete count compare")
	}
	// synchronizeBlocks (C05): the two comparisons against config.StartBlockHeight, the order of
	// the statements of the walk-back loop, and the poll period `time.After(time.Second * N)`.
	syncFacts(root, fx)
	// peers Get: maxScore == -1
	if op, v, ok := findIntCompare(root, root.funcs["StoragePeerRepository.Get"], "maxScore", renv); ok {
		fx.Ints["peersUnboundedSentinel"] = v
		fx.Strs["peersUnboundedOp"] = op
	} else {
		miss("peers Get sentinel")
	}
	// DiscardInput chunk
	if fd := root.funcs["DiscardInput"]; fd != nil {
		ast.Inspect(fd.Body, func(n ast.Node) bool {
			as, ok := n.(*ast.AssignStmt)
			if !ok || len(as.Lhs) != 1 || len(as.Rhs) != 1 {
				return true
			}
			if id, ok := as.Lhs[0].(*ast.Ident); ok && id.Name == "maxSize" {
				if v, ok := evalInt(as.Rhs[0], renv); ok {
					fx.Ints["discardChunk"] = v
				}
			}
			return true
		})
	}

	// handler tables
	fx.PreAccept = handlerAssignments(root, root.funcs["NewBitcoinNode"])
	fx.Accept = handlerAssignments(root, root.funcs["BitcoinNode.accept"])
	if len(fx.PreAccept) == 0 || len(fx.Accept) == 0 {
		miss("handler tables")
	}

	// call orders
	keepClean := map[string]bool{"consolidate": true, "saveMainBranch": true, "prune": true,
		"saveInvalidHashes": true, "saveBranches": true}
	fx.CallOrders["clean"] = callOrder(hdrs.funcs["Repository.clean"], keepClean)
	fx.CallOrders["Save"] = callOrder(hdrs.funcs["Repository.Save"], keepClean)
	fx.CallOrders["saveBranches"] = callOrder(hdrs.funcs["Repository.saveBranches"],
		map[string]bool{"Save": true, "Write": true})
	fx.CallOrders["prune"] = callOrder(hdrs.funcs["Repository.prune"],
		map[string]bool{"Save": true, "Prune": true})
	// C16: the once-only guard of the "block complete" channel (two downloaders finishing the same block
	// at the same moment is an interleaving below call granularity)
	fx.CallOrders["guard_markBlockRequestComplete"] = stmtSkeleton(root, root.funcs["BlockManager.markBlockRequestComplete"])
	// C06: the critical sections of the transaction manager's three entry points (the model takes each as one
	// atomic step; races between them are below the call granularity of the correspondence)
	for _, fn := range []string{"AddTxID", "AddTx", "GetTxRequests", "Clean"} {
		if fd := root.funcs["TxManager."+fn]; fd != nil {
			fx.CallOrders["locks_"+fn] = lockTrace(root, fd, false)
		} else {
			miss("TxManager." + fn)
		}
	}
	// C16 / C04 / C05: the mutex and channel operations of the block download machinery, in source order
	for _, fn := range syncTraceFuncs {
		if fd := root.funcs[fn]; fd != nil {
			fx.SyncTraces[fn] = lockTrace(root, fd, true)
		} else {
			miss(fn)
		}
	}
	for _, fn := range connTraceFuncs {
		if fd := root.funcs[fn]; fd != nil {
			fx.SyncTraces[fn] = lockTrace(root, fd, true)
		} else {
			miss(fn)
		}
	}
	// C04: the order of the merkle / processor / store calls in BlockDownloader.handleBlock, and the
	// `prune` argument of NewMerkleTree there (1 = true).
	if hb := root.funcs["BlockDownloader.handleBlock"]; hb != nil {
		fx.CallOrders["handleBlock"] = callOrder(hb, map[string]bool{"ProcessTx": true, "AddMerkleProof": true,
			"AddHash": true, "FinalizeMerkleProofs": true, "Verify": true, "ProcessCoinbaseTx": true,
			"ConfirmTx": true, "AppendBlockTxIDs": true, "wasCancelled": true})
		found := false
		ast.Inspect(hb.Body, func(n ast.Node) bool {
			call, ok := n.(*ast.CallExpr)
			if !ok {
				return true
			}
			if sel, ok := call.Fun.(*ast.SelectorExpr); ok && sel.Sel.Name == "NewMerkleTree" && len(call.Args) == 1 {
				if id, ok := call.Args[0].(*ast.Ident); ok && (id.Name == "true" || id.Name == "false") {
					found = true
					fx.Ints["merkleTreePrune"] = 0
					if id.Name == "true" {
						fx.Ints["merkleTreePrune"] = 1
					}
				}
			}
			return true
		})
		if !found {
			miss("NewMerkleTree(prune) in handleBlock")
		}
	} else {
		miss("BlockDownloader.handleBlock")
	}

	// lock shapes of the exported methods of the two single-mutex components
	for key, fd := range hdrs.funcs {
		if strings.HasPrefix(key, "Repository.") && ast.IsExported(fd.Name.Name) {
			fx.LockShapes["headers."+key] = lockShape(fd)
		}
	}
	for key, fd := range root.funcs {
		if strings.HasPrefix(key, "StoragePeerRepository.") && ast.IsExported(fd.Name.Name) {
			fx.LockShapes[key] = lockShape(fd)
		}
	}

	// the four routing calls of the node manager: the mgr model replays each of them under one constant view of the
	// nodes because the call holds the manager's mutex from its first statement to its return
	for _, fn := range []string{"RequestBlock", "RequestHeaders", "RequestTxs", "SendTx"} {
		if fd := root.funcs["NodeManager."+fn]; fd != nil {
			fx.LockShapes["NodeManager."+fn] = lockShape(fd)
		} else {
			miss("NodeManager." + fn)
		}
	}

	// fingerprints of every function of both packages (modelled or not; the runner picks)
	for key, fd := range hdrs.funcs {
		fx.Fingerprints["headers."+key] = fingerprint(hdrs, fd)
	}
	for key, fd := range root.funcs {
		fx.Fingerprints[key] = fingerprint(root, fd)
	}

	fx.Missing = missing
	writeJSON(os.Args[3], fx)
	writeLean(os.Args[2], fx)
	if len(missing) > 0 {
		fmt.Fprintf(os.Stderr, "extract: facts not found: %s\n", strings.Join(missing, "; "))
	}
}

func writeJSON(path string, fx *facts) {
	b, _ := json.MarshalIndent(fx, "", " ")
	writeIfChanged(path, b)
}

func writeIfChanged(path string, b []byte) {
	old, err := os.ReadFile(path)
	if err == nil && bytes.Equal(old, b) {
		return
	}
	if err := os.MkdirAll(filepath.Dir(path), 0o755); err != nil {
		fatal("%s", err)
	}
	if err := os.WriteFile(path, b, 0o644); err != nil {
		fatal("%s", err)
	}
}

func leanStr(s string) string {
	return strconv.Quote(s)
}

func hexToNatLit(h string) string {
	if h == "" {
		return "0"
	}
	return "0x" + h
}

func writeLean(path string, fx *facts) {
	var b bytes.Buffer
	b.WriteString("/- GENERATED by /verif/go/cmd/extract from /repo's current source. Do not edit.\n")
	b.WriteString("   Constants, tables and shapes the models and theorems depend on. -/\n")
	b.WriteString("namespace BRV.Facts\n\n")
	keys := make([]string, 0, len(fx.Ints))
	for k := range fx.Ints {
		keys = append(keys, k)
	}
	sort.Strings(keys)
	for _, k := range keys {
		v := fx.Ints[k]
		if v < 0 {
			fmt.Fprintf(&b, "def %s : Int := %d\n", k, v)
		} else {
			fmt.Fprintf(&b, "def %s : Nat := %d\n", k, v)
		}
	}
	b.WriteString("\n")
	keys = keys[:0]
	for k := range fx.Strs {
		keys = append(keys, k)
	}
	sort.Strings(keys)
	for _, k := range keys {
		fmt.Fprintf(&b, "def %s : String := %s\n", k, leanStr(fx.Strs[k]))
	}
	b.WriteString("\n/-- (name, before hash, after hash, height) of the main-net split table, source order. -/\n")
	b.WriteString("def splits : List (String × Nat × Nat × Nat) := [\n")
	for i, s := range fx.Splits {
		sep := ","
		if i == len(fx.Splits)-1 {
			sep = ""
		}
		fmt.Fprintf(&b, "  (%s, %s, %s, %d)%s\n", leanStr(s.Name), hexToNatLit(s.Before), hexToNatLit(s.After), s.Height, sep)
	}
	b.WriteString("]\n")
	b.WriteString("def requiredSplit : List (String × Nat × Nat × Nat) := [\n")
	for i, s := range fx.Required {
		sep := ","
		if i == len(fx.Required)-1 {
			sep = ""
		}
		fmt.Fprintf(&b, "  (%s, %s, %s, %d)%s\n", leanStr(s.Name), hexToNatLit(s.Before), hexToNatLit(s.After), s.Height, sep)
	}
	b.WriteString("]\n\n")
	wrTable := func(name string, es []handlerEntry) {
		fmt.Fprintf(&b, "/-- (command constant, handler, guarding condition) in source order. -/\ndef %s : List (String × String × String) := [\n", name)
		for i, e := range es {
			sep := ","
			if i == len(es)-1 {
				sep = ""
			}
			fmt.Fprintf(&b, "  (%s, %s, %s)%s\n", leanStr(e.Cmd), leanStr(e.Handler), leanStr(e.Cond), sep)
		}
		b.WriteString("]\n")
	}
	wrTable("preAcceptHandlers", fx.PreAccept)
	wrTable("acceptHandlers", fx.Accept)
	wrList := func(name string, xs []string) {
		fmt.Fprintf(&b, "def %s : List String := [", name)
		for i, x := range xs {
			if i > 0 {
				b.WriteString(", ")
			}
			b.WriteString(leanStr(x))
		}
		b.WriteString("]\n")
	}
	b.WriteString("\n")
	wrList("processHeaderCheckOrder", fx.CheckOrder)
	for _, k := range []string{"clean", "Save", "saveBranches", "prune", "handleBlock"} {
		wrList("callOrder_"+k, fx.CallOrders[k])
	}
	wrList("guard_markBlockRequestComplete", fx.CallOrders["guard_markBlockRequestComplete"])
	for _, k := range []string{"AddTxID", "AddTx", "GetTxRequests", "Clean"} {
		wrList("locks_"+k, fx.CallOrders["locks_"+k])
	}
	b.WriteString("\n/-- mutex and channel operations of a connection's send / receive machinery, in source order. -/\n")
	b.WriteString("def connTraces : List (String × List String) := [\n")
	for i, k := range connTraceFuncs {
		b.WriteString("  (" + leanStr(k) + ", [")
		for j, x := range fx.SyncTraces[k] {
			if j > 0 {
				b.WriteString(", ")
			}
			b.WriteString(leanStr(x))
		}
		b.WriteString("])")
		if i+1 < len(connTraceFuncs) {
			b.WriteString(",")
		}
		b.WriteString("\n")
	}
	b.WriteString("]\n")
	b.WriteString("\n/-- mutex and channel operations (with the control structure and returns around them) of the block download machinery, in source order. -/\n")
	b.WriteString("def syncTraces : List (String × List String) := [\n")
	for i, k := range syncTraceFuncs {
		b.WriteString("  (" + leanStr(k) + ", [")
		for j, x := range fx.SyncTraces[k] {
			if j > 0 {
				b.WriteString(", ")
			}
			b.WriteString(leanStr(x))
		}
		b.WriteString("])")
		if i+1 < len(syncTraceFuncs) {
			b.WriteString(",")
		}
		b.WriteString("\n")
	}
	b.WriteString("]\n")
	b.WriteString("\n/-- exported methods of the single-mutex components and their lock shape. -/\n")
	b.WriteString("def lockShapes : List (String × String) := [\n")
	keys = keys[:0]
	for k := range fx.LockShapes {
		keys = append(keys, k)
	}
	sort.Strings(keys)
	for i, k := range keys {
		sep := ","
		if i == len(keys)-1 {
			sep = ""
		}
		fmt.Fprintf(&b, "  (%s, %s)%s\n", leanStr(k), leanStr(fx.LockShapes[k]), sep)
	}
	b.WriteString("]\n\nend BRV.Facts\n")
	writeIfChanged(path, b.Bytes())
}

// syncFacts extracts the shape facts of NodeManager.synchronizeBlocks used by the C05 model.
func syncFacts(root *pkgInfo, fx *facts) {
	fd := root.funcs["NodeManager.synchronizeBlocks"]
	if fd == nil {
		miss("NodeManager.synchronizeBlocks")
		return
	}
	// comparisons against m.config.StartBlockHeight
	ast.Inspect(fd.Body, func(n ast.Node) bool {
		be, ok := n.(*ast.BinaryExpr)
		if !ok {
			return true
		}
		if src(root, be.Y) != "m.config.StartBlockHeight" {
			return true
		}
		if id, ok := be.X.(*ast.Ident); ok {
			switch id.Name {
			case "lastHeight":
				fx.Strs["syncStartGuardOp"] = be.Op.String()
			case "height":
				fx.Strs["syncWalkStopOp"] = be.Op.String()
			}
		}
		return true
	})
	for _, k := range []string{"syncStartGuardOp", "syncWalkStopOp"} {
		if _, ok := fx.Strs[k]; !ok {
			miss(k)
		}
	}
	// how the height of the tip hash is obtained: `lastHeight := <expr>` (must be a lookup OF THE
	// HASH read by LastHash; the repository's current height is a different read)
	ast.Inspect(fd.Body, func(n ast.Node) bool {
		as, ok := n.(*ast.AssignStmt)
		if !ok || as.Tok != token.DEFINE || len(as.Lhs) != 1 || len(as.Rhs) != 1 {
			return true
		}
		if id, ok := as.Lhs[0].(*ast.Ident); ok {
			switch id.Name {
			case "lastHeight":
				fx.Strs["syncLastHeightExpr"] = src(root, as.Rhs[0])
			case "lashHash":
				fx.Strs["syncLastHashExpr"] = src(root, as.Rhs[0])
			}
		}
		return true
	})
	for _, k := range []string{"syncLastHeightExpr", "syncLastHashExpr"} {
		if _, ok := fx.Strs[k]; !ok {
			miss(k)
		}
	}
	// the walk-back loop: first `for {` whose body calls PreviousHash
	var loop *ast.ForStmt
	ast.Inspect(fd.Body, func(n ast.Node) bool {
		fs, ok := n.(*ast.ForStmt)
		if ok && loop == nil && fs.Cond == nil && strings.Contains(src(root, fs.Body), ".PreviousHash(") {
			loop = fs
			return false
		}
		return true
	})
	if loop == nil {
		miss("synchronizeBlocks walk-back loop")
	} else {
		var order []string
		for _, st := range loop.Body.List {
			txt := src(root, st)
			switch s := st.(type) {
			case *ast.AssignStmt:
				switch {
				case strings.Contains(txt, ".PreviousHash("):
					order = append(order, "PreviousHash")
				case strings.HasPrefix(txt, "hashes = append([]bitcoin.Hash32{"):
					order = append(order, "prepend")
				case strings.HasPrefix(txt, "hashes = append("):
					order = append(order, "append")
				case strings.HasPrefix(txt, "hash = "):
					order = append(order, "hash=prev")
				}
			case *ast.IncDecStmt:
				if s.Tok == token.DEC {
					order = append(order, "height--")
				} else {
					order = append(order, "height++")
				}
			case *ast.IfStmt:
				switch {
				case strings.Contains(txt, "FetchBlockTxIDs"):
					order = append(order, "processed-test")
				case strings.Contains(src(root, s.Cond), "StartBlockHeight"):
					order = append(order, "start-test")
				case strings.Contains(src(root, s.Cond), "previousHash == nil"):
					// with the by-height fallback for headers pruned from memory, or a plain return
					if strings.Contains(txt, "m.headers.Hash(ctx, height-1)") && strings.Contains(txt, "currentHash.Equal(&hash)") {
						order = append(order, "nil-fallback")
					} else {
						order = append(order, "nil-test")
					}
				}
			}
		}
		fx.Strs["syncWalkOrder"] = strings.Join(order, ",")
	}
	// close(abort): the condition of the innermost `if` around it; and the nil check after AddRequest
	var guard string
	var walkIf func(n ast.Node, cond string)
	walkIf = func(n ast.Node, cond string) {
		ast.Inspect(n, func(c ast.Node) bool {
			if c == n {
				return true
			}
			if is, ok := c.(*ast.IfStmt); ok {
				walkIf(is.Body, src(root, is.Cond))
				if is.Else != nil {
					walkIf(is.Else, "else:"+src(root, is.Cond))
				}
				return false
			}
			if call, ok := c.(*ast.CallExpr); ok && src(root, call) == "close(abort)" {
				guard = cond
			}
			return true
		})
	}
	walkIf(fd.Body, "")
	if guard == "" {
		miss("synchronizeBlocks close(abort)")
	} else {
		fx.Strs["syncAbortGuard"] = guard
	}
	fx.Ints["syncNilCompleteCheck"] = 0
	ast.Inspect(fd.Body, func(n ast.Node) bool {
		if is, ok := n.(*ast.IfStmt); ok && src(root, is.Cond) == "complete == nil" &&
			strings.Contains(src(root, is.Body), "return") {
			fx.Ints["syncNilCompleteCheck"] = 1
		}
		return true
	})
	// poll period
	found := false
	ast.Inspect(fd.Body, func(n ast.Node) bool {
		call, ok := n.(*ast.CallExpr)
		if !ok || len(call.Args) != 1 || src(root, call.Fun) != "time.After" {
			return true
		}
		if be, ok := call.Args[0].(*ast.BinaryExpr); ok && be.Op == token.MUL {
			for _, pair := range [][2]ast.Expr{{be.X, be.Y}, {be.Y, be.X}} {
				if src(root, pair[0]) == "time.Second" {
					if v, ok := evalInt(pair[1], map[string]int64{}); ok {
						fx.Ints["syncPollSeconds"] = v
						found = true
					}
				}
			}
		}
		return true
	})
	if !found {
		miss("synchronizeBlocks poll period")
	}
}
