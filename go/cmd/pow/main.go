// Command pow is the correspondence harness for C02 (proof of work / difficulty adjustment).
// It drives the real code of /repo and of the pinned bitcoin package:
//
//	(i)   headers.NewBranch / Branch.Add / Branch.Target / Branch.MedianTimeAndWork on generated
//	      branches (main branch and forks) with adversarial timestamps and mixed bits,
//	(ii)  bitcoin.ConvertToDifficulty / ConvertToWork / ConvertToBits on all exponent bytes and
//	      boundary mantissas, each call under recover (a panic is an observation),
//	(iii) headers.Repository.ProcessHeader with difficulty enabled on the two fixture files of real
//	      main-net headers and on single-field mutations of them. The header hash (double SHA-256,
//	      not modelled) is written into the op text (hash=...) so the model replays the decision.
//
//	pow run   < script > observations
//	pow gen <seed> <scripts> <tier>   > script
package main

import (
	"encoding/json"
	"fmt"
	"math/big"
	"os"
	"strconv"
	"strings"

	"brvharness/internal/hx"

	"github.com/pkg/errors"
	"github.com/tokenized/bitcoin_reader/headers"
	"github.com/tokenized/pkg/bitcoin"
	"github.com/tokenized/pkg/storage"
	"github.com/tokenized/pkg/wire"
)

type state struct {
	branches map[string]*headers.Branch
	counter  uint32
	repo     *headers.Repository
}

func newState() *state {
	return &state{branches: map[string]*headers.Branch{}, repo: newRepo()}
}

func newRepo() *headers.Repository {
	return headers.NewRepository(headers.DefaultConfig(), storage.NewMockStorage())
}

func hexBig(b *big.Int) string { return b.Text(16) }

func parseBig(s string) (*big.Int, bool) {
	b := &big.Int{}
	_, ok := b.SetString(s, 16)
	return b, ok
}

// synthetic header of the free branches: unique by counter
func (s *state) mkHeader(prev bitcoin.Hash32, t, bits uint32) *wire.BlockHeader {
	s.counter++
	h := &wire.BlockHeader{Version: 1, PrevBlock: prev, Timestamp: t, Bits: bits, Nonce: s.counter}
	h.MerkleRoot[0] = byte(s.counter)
	h.MerkleRoot[1] = byte(s.counter >> 8)
	h.MerkleRoot[2] = byte(s.counter >> 16)
	h.MerkleRoot[3] = byte(s.counter >> 24)
	h.MerkleRoot[31] = 0x5a
	return h
}

func badHash() bitcoin.Hash32 {
	var h bitcoin.Hash32
	for i := range h {
		h[i] = 0xee
	}
	return h
}

func showBranch(b *headers.Branch) string {
	return fmt.Sprintf("ok h=%d acc=%s", b.Height(), hexBig(b.Last().AccumulatedWork))
}

func targetClass(err error) string {
	msg := err.Error()
	switch {
	case errors.Cause(err) == headers.ErrHeaderDataNotFound && strings.HasPrefix(msg, "last header stats"):
		return "err:last"
	case errors.Cause(err) == headers.ErrHeaderDataNotFound && strings.HasPrefix(msg, "first header stats"):
		return "err:first"
	}
	return "err:other:" + strings.ReplaceAll(msg, " ", "_")
}

func verdictClass(err error) string {
	if err == nil {
		return "ok"
	}
	msg := err.Error()
	switch errors.Cause(err) {
	case headers.ErrNotEnoughWork:
		return "err:not-enough-work"
	case headers.ErrWrongChain:
		return "err:wrong-chain"
	case headers.ErrUnknownHeader:
		return "err:unknown-header"
	case headers.ErrInvalidTarget:
		return "err:invalid-target"
	case headers.ErrBeyondMaxBranchDepth:
		return "err:beyond-depth"
	case headers.ErrHeaderDataNotFound:
		if strings.HasPrefix(msg, "calculate target") {
			return "err:calculate-target"
		}
		if strings.HasPrefix(msg, "new branch") {
			return "err:new-branch"
		}
	case headers.ErrWrongPreviousHash:
		if strings.HasPrefix(msg, "new branch") {
			return "err:new-branch"
		}
	}
	if strings.HasPrefix(msg, "send branch update: Intersect not found") {
		return "err:intersect"
	}
	if strings.HasPrefix(msg, "Failed to add header to branch") {
		return "err:new-branch"
	}
	return "err:other:" + strings.ReplaceAll(msg, " ", "_")
}

func guard(f func() string) string {
	out, ptxt := hx.Guard(f)
	if out == "panic" {
		return "panic #" + strings.ReplaceAll(ptxt, " ", "_")
	}
	return out
}

// header fields of the repository ops: ver= prev= mr= t= bits= nonce=
func headerFromArgs(a hx.Args) (*wire.BlockHeader, bool) {
	ver, ok1 := a.Int("ver")
	t, ok2 := a.Uint("t")
	bits, ok3 := a.Uint("bits")
	nonce, ok4 := a.Uint("nonce")
	prev, err1 := bitcoin.NewHash32FromStr(a["prev"])
	mr, err2 := bitcoin.NewHash32FromStr(a["mr"])
	if !ok1 || !ok2 || !ok3 || !ok4 || err1 != nil || err2 != nil {
		return nil, false
	}
	return &wire.BlockHeader{Version: int32(ver), PrevBlock: *prev, MerkleRoot: *mr,
		Timestamp: uint32(t), Bits: uint32(bits), Nonce: uint32(nonce)}, true
}

// rewrite (or append) key=value in an op text
func setArg(op, key, val string) string {
	ws := strings.Fields(op)
	for i, w := range ws {
		if strings.HasPrefix(w, key+"=") {
			ws[i] = key + "=" + val
			return strings.Join(ws, " ")
		}
	}
	return op + " " + key + "=" + val
}

func (s *state) step(line string) string {
	ctx := hx.Ctx()
	op := hx.OpPart(line)
	verb, a := hx.Parse(op)
	switch verb {
	case "init":
		*s = *newState()
		return "init => ok"
	case "consts":
		return fmt.Sprintf("%s => maxbits=%d maxwork=%s all=%s", op, bitcoin.MaxBits, hexBig(bitcoin.MaxWork), hexBig(bitcoin.All256Bits))
	case "cvt":
		bits, ok := a.Uint("bits")
		if !ok {
			break
		}
		return op + " => " + guard(func() string {
			var d *big.Int
			if out, _ := hx.Guard(func() string { d = bitcoin.ConvertToDifficulty(uint32(bits)); return "" }); out == "panic" {
				return "d=panic"
			}
			w := bitcoin.ConvertToWork(d)
			return fmt.Sprintf("d=%s w=%s rb=%d", hexBig(d), hexBig(w), bitcoin.ConvertToBits(d, bitcoin.MaxBits))
		})
	case "tobits":
		t, ok := parseBig(a["t"])
		mx, ok2 := a.Uint("max")
		if !ok || !ok2 {
			break
		}
		return op + " => " + guard(func() string { return fmt.Sprintf("bits=%d", bitcoin.ConvertToBits(t, uint32(mx))) })
	case "towork":
		d, ok := parseBig(a["d"])
		if !ok {
			break
		}
		return op + " => " + guard(func() string { return "w=" + hexBig(bitcoin.ConvertToWork(d)) })
	case "branch":
		name := a["name"]
		ph, ok1 := a.Int("ph")
		t, ok2 := a.Uint("t")
		bits, ok3 := a.Uint("bits")
		if name == "" || !ok1 || !ok2 || !ok3 {
			break
		}
		var parent *headers.Branch
		var prev bitcoin.Hash32
		if a["parent"] != "-" {
			p, ok := s.branches[a["parent"]]
			if !ok {
				return op + " => err:nobranch"
			}
			parent = p
			if a["badprev"] == "1" {
				prev = badHash()
			} else if d := p.AtHeight(int(ph)); d != nil {
				prev = d.Hash
			}
		}
		hdr := s.mkHeader(prev, uint32(t), uint32(bits))
		return op + " => " + guard(func() string {
			b, err := headers.NewBranch(parent, int(ph), hdr)
			if err != nil {
				switch errors.Cause(err) {
				case headers.ErrHeaderDataNotFound:
					return "err:notfound"
				case headers.ErrWrongPreviousHash:
					return "err:wrongprev"
				}
				return "err:other:" + strings.ReplaceAll(err.Error(), " ", "_")
			}
			s.branches[name] = b
			return showBranch(b)
		})
	case "add", "addt":
		b, ok := s.branches[a["name"]]
		if !ok {
			return op + " => err:nobranch"
		}
		t, ok2 := a.Uint("t")
		bits, ok3 := a.Uint("bits")
		if !ok2 || !ok3 {
			break
		}
		tb := ""
		if verb == "addt" {
			// bits the implementation itself requires at this position (self-consistent chain)
			tb = guard(func() string {
				tg, err := b.Target(ctx, b.Height()+1)
				if err != nil {
					return targetClass(err)
				}
				bits = uint64(bitcoin.ConvertToBits(tg, bitcoin.MaxBits))
				return strconv.FormatUint(bits, 10)
			})
			op = setArg(op, "bits", strconv.FormatUint(bits, 10))
		}
		prev := b.Last().Hash
		if a["badprev"] == "1" {
			prev = badHash()
		}
		hdr := s.mkHeader(prev, uint32(t), uint32(bits))
		res := guard(func() string {
			if !b.Add(hdr) {
				return "err:wrongprev"
			}
			return showBranch(b)
		})
		if verb == "addt" {
			if strings.HasPrefix(res, "panic") {
				// keep the note last
				return op + " => " + strings.Replace(res, "panic", "panic tb="+strings.Fields(tb)[0], 1)
			}
			return op + " => " + res + " tb=" + strings.Fields(tb)[0]
		}
		return op + " => " + res
	case "run":
		b, ok := s.branches[a["name"]]
		if !ok {
			return op + " => err:nobranch"
		}
		n, ok1 := a.Int("n")
		t, ok2 := a.Int("t")
		dt, ok3 := a.Int("dt")
		bits, ok4 := a.Uint("bits")
		if !ok1 || !ok2 || !ok3 || !ok4 {
			break
		}
		return op + " => " + guard(func() string {
			for i := int64(0); i < n; i++ {
				hdr := s.mkHeader(b.Last().Hash, uint32(t+i*dt), uint32(bits))
				if !b.Add(hdr) {
					return "err:wrongprev"
				}
			}
			return showBranch(b)
		})
	case "target":
		b, ok := s.branches[a["name"]]
		if !ok {
			return op + " => err:nobranch"
		}
		h, ok2 := a.Int("h")
		if !ok2 {
			break
		}
		return op + " => " + guard(func() string {
			tg, err := b.Target(ctx, int(h))
			if err != nil {
				return targetClass(err)
			}
			return fmt.Sprintf("bits=%d t=%s", bitcoin.ConvertToBits(tg, bitcoin.MaxBits), hexBig(tg))
		})
	case "median":
		b, ok := s.branches[a["name"]]
		if !ok {
			return op + " => err:nobranch"
		}
		h, ok2 := a.Int("h")
		if !ok2 {
			break
		}
		return op + " => " + guard(func() string {
			t, w, err := b.MedianTimeAndWork(ctx, int(h), 3)
			if err != nil {
				return "err:notfound"
			}
			return fmt.Sprintf("t=%d w=%s", t, hexBig(w))
		})
	case "repo":
		s.repo = newRepo()
		return op + " => ok"
	case "diff":
		on, ok := a.Uint("on")
		if !ok {
			break
		}
		if on != 0 {
			s.repo.EnableDifficulty()
		} else {
			s.repo.DisableDifficulty()
		}
		return op + " => ok"
	case "mock":
		hdr, ok := headerFromArgs(a)
		h, ok2 := a.Int("h")
		work, ok3 := parseBig(a["work"])
		if !ok || !ok2 || !ok3 {
			break
		}
		op = setArg(op, "hash", hdr.BlockHash().String())
		return op + " => " + guard(func() string {
			if err := s.repo.MockLatest(ctx, hdr, int(h), work); err != nil {
				return "err:" + strings.ReplaceAll(err.Error(), " ", "_")
			}
			return "ok"
		})
	case "ph":
		hdr, ok := headerFromArgs(a)
		if !ok {
			break
		}
		op = setArg(op, "hash", hdr.BlockHash().String())
		return op + " => " + guard(func() string { return verdictClass(s.repo.ProcessHeader(ctx, hdr)) })
	}
	return op + " => bad-op"
}

// ---- generator ----

type fixture struct {
	height  int
	work    string // chain work of the header before the first
	headers []*wire.BlockHeader
}

func loadFixture(name string, height int, work string) *fixture {
	root := os.Getenv("BRV_REPO")
	if root == "" {
		root = "/repo"
	}
	f, err := os.Open(root + "/headers/test_fixtures/" + name)
	if err != nil {
		fmt.Fprintln(os.Stderr, "fixture:", err)
		os.Exit(1)
	}
	defer f.Close()
	fx := &fixture{height: height, work: work}
	if err := json.NewDecoder(f).Decode(&fx.headers); err != nil {
		fmt.Fprintln(os.Stderr, "fixture:", err)
		os.Exit(1)
	}
	return fx
}

func hdrArgs(h *wire.BlockHeader) string {
	return fmt.Sprintf("ver=%d prev=%s mr=%s t=%d bits=%d nonce=%d", h.Version, h.PrevBlock.String(),
		h.MerkleRoot.String(), h.Timestamp, h.Bits, h.Nonce)
}

var boundaryMantissas = []uint32{0x000000, 0x000001, 0x0000ff, 0x000100, 0x00ffff, 0x010000, 0x7fffff,
	0x800000, 0x800001, 0xff0000, 0xffffff, 0x00ff00, 0x008000, 0x123456}

var panicBits = []uint32{0x01010000, 0x01800000, 0x017fffff, 0x01ffffff, 0x02000000, 0x0200ffff, 0x02000001}

var weirdBits = []uint32{0x00000000, 0x0000ffff, 0x00ffffff, 0x1d80ffff, 0x20800000, 0x2100ffff, 0x2200ffff,
	0xff00ffff, 0xffffffff, 0x03000000, 0x04000000, 0x1d000000, 0x207fffff, 0x0300ffff, 0x02800000, 0x027fffff}

var normalBits = []uint32{0x1d00ffff, 0x1d00ffff, 0x1c7fffff, 0x1c0fffff, 0x1c00ffff, 0x1b0404cb, 0x1a05db8b,
	0x1903a30c, 0x180f0dc7, 0x1802f6a3, 0x1d008000, 0x1c008000, 0x1c010000}

func genConversions(r *hx.Rng, exhaustive bool) {
	fmt.Println("init")
	fmt.Println("consts")
	if exhaustive {
		for e := uint32(0); e < 256; e++ {
			for _, m := range boundaryMantissas {
				fmt.Printf("cvt bits=%d\n", e<<24|m)
			}
		}
		for _, b := range panicBits {
			fmt.Printf("cvt bits=%d\n", b)
		}
	}
	n := 150
	for i := 0; i < n; i++ {
		switch r.Pick(40, 25, 15, 20) {
		case 0:
			fmt.Printf("cvt bits=%d\n", uint32(r.Next()))
		case 1: // small exponents, where the byte-slice indexing matters
			fmt.Printf("cvt bits=%d\n", uint32(r.Intn(6))<<24|uint32(r.Next())&0xffffff)
		case 2:
			fmt.Printf("cvt bits=%d\n", uint32(r.Intn(6))<<24|uint32(r.Next())&0xffff)
		case 3:
			fmt.Printf("cvt bits=%d\n", normalBits[r.Intn(len(normalBits))]+uint32(r.Intn(5)))
		}
	}
	for i := 0; i < n; i++ {
		// tobits: numbers of every byte length with interesting leading bytes
		nbytes := r.Intn(40)
		if r.Chance(10) {
			nbytes = 250 + r.Intn(10)
		}
		b := make([]byte, nbytes)
		for j := range b {
			b[j] = byte(r.Next())
		}
		if nbytes > 0 {
			switch r.Pick(30, 20, 20, 30) {
			case 0:
				b[0] = byte(0x80 + r.Intn(0x80))
			case 1:
				b[0] = byte(1 + r.Intn(0x7f))
			case 2:
				b[0] = 0xff
				if nbytes > 2 {
					b[1], b[2] = 0xff, 0xff
				}
			}
		}
		t := (&big.Int{}).SetBytes(b)
		if r.Chance(5) {
			t.Neg(t)
		}
		mx := bitcoin.MaxBits
		if r.Chance(25) {
			mx = uint32(r.Next())
		}
		fmt.Printf("tobits t=%s max=%d\n", t.Text(16), mx)
	}
	for _, t := range []string{"0", "1", "7f", "80", "ff", "100", "7fff", "8000", "ffff", "10000", "7fffff", "800000", "ffffff", "1000000",
		"ffffffffffffffffffffffffffffffffffffffffffffffffffffffff", "100000000000000000000000000000000000000000000000000000000",
		"ffff0000000000000000000000000000000000000000000000000000", "ffff0100000000000000000000000000000000000000000000000000"} {
		fmt.Printf("tobits t=%s max=%d\n", t, bitcoin.MaxBits)
	}
	for i := 0; i < n/2; i++ {
		nbytes := r.Intn(36)
		b := make([]byte, nbytes)
		for j := range b {
			b[j] = byte(r.Next())
		}
		d := (&big.Int{}).SetBytes(b)
		if r.Chance(15) {
			d.Neg(d)
		}
		fmt.Printf("towork d=%s\n", d.Text(16))
	}
	for _, d := range []string{"0", "1", "-1", "-2", "ffffffffffffffffffffffffffffffffffffffffffffffffffffffffffffffff",
		"10000000000000000000000000000000000000000000000000000000000000000", "-ffffffffffffffffffffffffffffffffffffffffffffffffffffffffffffffff"} {
		fmt.Printf("towork d=%s\n", d)
	}
}

// one timestamp pattern segment: returns the timestamps (as int64, wrapped by the consumer)
func genTimes(r *hx.Rng, t int64, n int) []int64 {
	out := make([]int64, 0, n)
	kind := r.Pick(22, 10, 10, 8, 14, 10, 8, 8, 10)
	for i := 0; i < n; i++ {
		switch kind {
		case 0: // regular with jitter
			t += 600 + int64(r.Intn(601)) - 300
		case 1: // fast
			t += int64(1 + r.Intn(60))
		case 2: // slow
			t += int64(1200 + r.Intn(3000))
		case 3: // all equal
		case 4: // many ties and small steps back: exercises the median tie order
			t += []int64{0, 0, 0, 1, -1, 600, -600, 2}[r.Intn(8)]
		case 5: // runs backwards
			t -= int64(300 + r.Intn(600))
		case 6: // zig-zag
			if i%2 == 0 {
				t += 7200
			} else {
				t -= 7100
			}
		case 7: // far future / wrap of uint32
			if i == n/2 {
				t = 4294967295 - int64(r.Intn(2000))
			} else {
				t += int64(r.Intn(1200))
			}
		case 8: // tie triples: (a,a,c) with a>c and (a,b,b) with a>b
			switch i % 3 {
			case 0:
				t += 600
			case 1:
				if r.Chance(50) {
					// same as previous
				} else {
					t -= int64(1 + r.Intn(900))
				}
			case 2:
				if r.Chance(50) {
					t -= int64(1 + r.Intn(900))
				}
			}
		}
		if t < 0 {
			t += 4294967296
		}
		out = append(out, t)
	}
	return out
}

func wrap32(t int64) uint32 { return uint32(t) }

func pickBits(r *hx.Rng, base uint32) uint32 {
	switch r.Pick(70, 20, 7, 3) {
	case 0:
		return base
	case 1:
		return normalBits[r.Intn(len(normalBits))]
	case 2:
		return weirdBits[r.Intn(len(weirdBits))]
	}
	return panicBits[r.Intn(len(panicBits))]
}

func genBranches(r *hx.Rng, tier string) {
	fmt.Println("init")
	total := 150 + r.Intn(251)
	base := normalBits[r.Intn(len(normalBits))]
	startHeight := []int{-1, -1, 99, 556600, 724999}[r.Intn(5)]
	t := int64(1500000000 + r.Intn(100000000))
	if r.Chance(8) {
		t = int64(r.Intn(5000))
	}
	mixed := r.Chance(25) // explicit, not self-consistent bits
	fmt.Printf("branch name=m parent=- ph=%d t=%d bits=%d\n", startHeight, wrap32(t), base)
	height := startHeight + 1
	count := 1
	emit := func(name string, tt int64, selfc bool) {
		if selfc && !mixed {
			fmt.Printf("addt name=%s t=%d bits=%d\n", name, wrap32(tt), base)
		} else {
			fmt.Printf("add name=%s t=%d bits=%d\n", name, wrap32(tt), pickBits(r, base))
		}
	}
	for count < total {
		seg := 3 + r.Intn(150)
		if seg > total-count {
			seg = total - count
		}
		if r.Chance(15) && seg > 10 {
			dt := []int64{600, 0, -600, 1, 300, 1200, -1}[r.Intn(7)]
			b := base
			fmt.Printf("run name=m n=%d t=%d dt=%d bits=%d\n", seg, wrap32(t), dt, b)
			t += int64(seg) * dt
			if t < 0 {
				t += 4294967296
			}
		} else {
			for _, tt := range genTimes(r, t, seg) {
				emit("m", tt, count >= 147)
				t = tt
				count++
				height++
				if count >= 148 && r.Chance(12) {
					fmt.Printf("target name=m h=%d\n", height)
				}
				if r.Chance(4) {
					fmt.Printf("median name=m h=%d\n", height-1-r.Intn(3))
				}
			}
			continue
		}
		count += seg
		height += seg
		fmt.Printf("target name=m h=%d\n", height)
	}
	tip := height - 1
	fmt.Printf("target name=m h=%d\n", tip+1)
	for i := 0; i < 6; i++ {
		fmt.Printf("target name=m h=%d\n", startHeight+1+r.Intn(total+3))
		fmt.Printf("median name=m h=%d\n", startHeight+r.Intn(total+3))
	}
	fmt.Printf("target name=m h=%d\n", tip+2)
	fmt.Printf("target name=m h=%d\n", startHeight+148)
	fmt.Printf("target name=m h=%d\n", startHeight+147)
	fmt.Printf("target name=m h=%d\n", -5)
	// forks: windows that straddle the fork point, fork of a fork, errors of NewBranch
	nforks := 1 + r.Intn(3)
	names := []string{"m"}
	tips := map[string]int{"m": tip}
	for f := 0; f < nforks; f++ {
		parent := names[r.Intn(len(names))]
		ptip := tips[parent]
		back := r.Intn(160)
		if r.Chance(30) {
			back = r.Intn(4)
		}
		ph := ptip - back
		if ph < startHeight+1 {
			ph = startHeight + 1
		}
		name := fmt.Sprintf("f%d", f)
		ft := t - int64(back)*600 + int64(r.Intn(2000)) - 1000
		if ft < 0 {
			ft = int64(r.Intn(100000))
		}
		switch r.Pick(6, 6, 88) {
		case 0:
			fmt.Printf("branch name=x%d parent=%s ph=%d t=%d bits=%d\n", f, parent, ptip+1+r.Intn(3), wrap32(ft), base)
		case 1:
			fmt.Printf("branch name=x%d parent=%s ph=%d t=%d bits=%d badprev=1\n", f, parent, ph, wrap32(ft), base)
		}
		// the first header of a fork at a DAA position gets the implementation's own bits too:
		// target of the parent at ph+1
		fmt.Printf("target name=%s h=%d\n", parent, ph+1)
		fmt.Printf("branch name=%s parent=%s ph=%d t=%d bits=%d\n", name, parent, ph, wrap32(ft), pickBits(r, base))
		fh := ph + 1
		flen := 1 + r.Intn(160)
		if tier == "quick" && flen > 60 {
			flen = 1 + r.Intn(60)
		}
		for _, tt := range genTimes(r, ft, flen) {
			emit(name, tt, true)
			fh++
			if r.Chance(15) {
				fmt.Printf("target name=%s h=%d\n", name, fh+1)
			}
			if r.Chance(5) {
				fmt.Printf("median name=%s h=%d\n", name, fh-r.Intn(4))
			}
		}
		fmt.Printf("target name=%s h=%d\n", name, fh+1)
		fmt.Printf("target name=%s h=%d\n", name, ph+2)
		fmt.Printf("median name=%s h=%d\n", name, ph+1)
		fmt.Printf("median name=%s h=%d\n", name, ph+2)
		fmt.Printf("target name=%s h=%d\n", name, ph)
		names = append(names, name)
		tips[name] = fh
		if r.Chance(40) {
			// the parent keeps growing after the fork
			for _, tt := range genTimes(r, t, 1+r.Intn(10)) {
				emit(parent, tt, true)
				tips[parent]++
				t = tt
			}
			fmt.Printf("target name=%s h=%d\n", parent, tips[parent]+1)
			fmt.Printf("target name=%s h=%d\n", name, fh+1)
		}
	}
}

func mutate(r *hx.Rng, h *wire.BlockHeader) (*wire.BlockHeader, string) {
	m := h.Copy()
	switch r.Pick(34, 14, 12, 14, 13, 13) {
	case 0:
		switch r.Pick(25, 35, 25, 15) {
		case 0:
			m.Bits ^= 1 << uint(r.Intn(32))
		case 1:
			m.Bits = weirdBits[r.Intn(len(weirdBits))]
		case 2:
			m.Bits = panicBits[r.Intn(len(panicBits))]
		case 3:
			m.Bits += uint32(r.Intn(3)) - 1
			if m.Bits == h.Bits {
				m.Bits++
			}
		}
		return &m, "bits"
	case 1:
		switch r.Pick(50, 50) {
		case 0:
			m.Timestamp += uint32(1 + r.Intn(3))
		case 1:
			m.Timestamp = uint32(r.Next())
		}
		return &m, "time"
	case 2:
		m.Nonce += uint32(1 + r.Intn(1000))
		return &m, "nonce"
	case 3:
		m.PrevBlock[r.Intn(32)] ^= byte(1 << uint(r.Intn(8)))
		return &m, "prev"
	case 4:
		m.MerkleRoot[r.Intn(32)] ^= byte(1 << uint(r.Intn(8)))
		return &m, "merkle"
	}
	m.Version ^= int32(1 << uint(r.Intn(31)))
	return &m, "version"
}

const genesisStr = "000000000019d6689c085ae165831e934ff763ae46a2a6c172b3f1b60a8ce26f"

// a window of real headers through ProcessHeader with difficulty enabled wherever the code can
// compute the target, a mirror branch for Target, and mutants around sampled positions.
func genFixture(r *hx.Rng, fx *fixture, start, length int, mutants int) {
	fmt.Println("init")
	fmt.Println("repo")
	work := &big.Int{}
	work.SetString(fx.work, 16)
	for i := 0; i <= start; i++ {
		work.Add(work, bitcoin.ConvertToWork(bitcoin.ConvertToDifficulty(fx.headers[i].Bits)))
	}
	first := fx.headers[start]
	h0 := fx.height + start
	fmt.Printf("mock h=%d work=%s %s real=1\n", h0, work.Text(16), hdrArgs(first))
	fmt.Printf("branch name=r parent=- ph=%d t=%d bits=%d\n", h0-1, first.Timestamp, first.Bits)
	end := start + length
	if end > len(fx.headers) {
		end = len(fx.headers)
	}
	diffOn := true
	setDiff := func(on bool) {
		if on != diffOn {
			diffOn = on
			v := 0
			if on {
				v = 1
			}
			fmt.Printf("diff on=%d\n", v)
		}
	}
	mutAt := map[int]bool{}
	for i := 0; i < mutants; i++ {
		mutAt[start+1+r.Intn(end-start-1)] = true
	}
	for i := start + 1; i < end; i++ {
		hdr := fx.headers[i]
		height := fx.height + i
		// Target needs 147 earlier headers; before that the repo's own tests switch the check off
		computable := height < 556767 || i-start >= 147
		setDiff(computable)
		if mutAt[i] && diffOn {
			k := 2 + r.Intn(5)
			for j := 0; j < k; j++ {
				var m *wire.BlockHeader
				var what string
				switch r.Pick(70, 10, 6, 6, 8) {
				case 0: // single-field mutation of the next real header
					m, what = mutate(r, hdr)
				case 1: // single-field mutation of a header already held
					back := 1 + r.Intn(i-start)
					m, what = mutate(r, fx.headers[i-back])
					what = "held-" + what
				case 2: // easy bits and an unknown previous hash
					c := hdr.Copy()
					c.Bits = 0x2100ffff
					c.PrevBlock[5] ^= 0x40
					m, what = &c, "easy-unknown"
				case 3: // easy bits on top of the genesis hash
					c := hdr.Copy()
					c.Bits = 0x2100ffff
					g, _ := bitcoin.NewHash32FromStr(genesisStr)
					c.PrevBlock = *g
					m, what = &c, "easy-genesis"
				case 4: // a header already held, unchanged
					back := 1 + r.Intn(i-start)
					c := fx.headers[i-back].Copy()
					m, what = &c, "resubmit"
				}
				fmt.Printf("ph %s mut=%s\n", hdrArgs(m), what)
			}
		}
		if i-start >= 147 {
			fmt.Printf("target name=r h=%d want=%d\n", height, hdr.Bits)
		}
		fmt.Printf("ph %s real=1\n", hdrArgs(hdr))
		fmt.Printf("add name=r t=%d bits=%d\n", hdr.Timestamp, hdr.Bits)
	}
}

func gen(seed uint64, scripts int, tier string) {
	r := hx.NewRng(seed)
	f556 := loadFixture("headers_556000.txt", 556000, "d167cf38dd7a9c078a40d5")
	f725 := loadFixture("headers_725000.txt", 725000, "134b2eb2b14bbedbad9a14b")
	genConversions(r, true)
	if tier == "thorough" {
		// both fixture files end to end
		genFixture(r, f556, 0, len(f556.headers), 120)
		genFixture(r, f725, 0, len(f725.headers), 60)
	}
	for s := 0; s < scripts; s++ {
		switch r.Pick(68, 12, 20) {
		case 0:
			genBranches(r, tier)
		case 1:
			genConversions(r, false)
		case 2:
			fx := f556
			if r.Chance(40) {
				fx = f725
			}
			length := 150 + r.Intn(120)
			if tier == "thorough" {
				length = 150 + r.Intn(400)
			}
			start := r.Intn(len(fx.headers) - length)
			if fx == f556 && r.Chance(40) {
				// windows around the activation height 556767
				start = 767 - 150 - r.Intn(100)
			}
			genFixture(r, fx, start, length, 6)
		}
	}
}

func main() {
	if len(os.Args) < 2 {
		fmt.Fprintln(os.Stderr, "usage: pow run | gen <seed> <scripts> <tier>")
		os.Exit(2)
	}
	switch os.Args[1] {
	case "run":
		s := newState()
		hx.Lines(s.step)
	case "gen":
		seed, _ := strconv.ParseUint(os.Args[2], 10, 64)
		n, _ := strconv.Atoi(os.Args[3])
		gen(seed, n, os.Args[4])
	}
}
