// Command merkle is the correspondence harness for C04: it drives the real
// BlockDownloader.HandleBlock (and through it merkle_proof.MerkleTree / MerkleProof) with a block
// fed from a channel, recording TxProcessor and BlockTxManager spies.
//
//	merkle run   < script > observations
//	merkle gen <seed> <scripts> <tier>   > script
//
// op:  block n=<N> height=<h> count=<C> recv=[ids] rel=[call indices] hdr=ok|wrong perr=<k|->
//
//	cancel=<k|-> pre=0|1 cend=0|1 cberr=0|1 cferr=<k|-> sterr=0|1
//
// The TRUE block is the transactions 0..N-1: the header (whose hash is the requested one) commits
// to their merkle root, computed here by a plain level-by-level implementation. `recv` is what is
// put on the channel (tx ids; the same id is the same transaction), `count` the announced count,
// `rel` the ProcessTx calls (by call number) that report "relevant". perr/cferr = the call that
// fails, cancel = Cancel is called from inside that ProcessTx call, pre = Cancel before HandleBlock,
// cend = Cancel after the last tx was handled and before the channel is closed.
//
// obs: ret=<class> complete=<class> calls=<call>;<call>;...
//
//	p<id> | cb<id> | c<id>@<height>#<index>[path digests][duplicate layers]=<native Verify()> | ap[ids]
//
// Real hashes are mapped back to tx ids / to a 64-bit digest of the hash TERM (leaf id, node(l,r))
// through the tree the harness knows, so the free-algebra model can print the same text.
package main

import (
	"context"
	"crypto/sha256"
	"encoding/binary"
	"errors"
	"fmt"
	"os"
	"runtime"
	"strconv"
	"strings"
	"sync"
	"sync/atomic"
	"time"

	"brvharness/internal/hx"

	"github.com/google/uuid"
	"github.com/tokenized/bitcoin_reader"
	"github.com/tokenized/pkg/bitcoin"
	"github.com/tokenized/pkg/merkle_proof"
	"github.com/tokenized/pkg/wire"

	perrors "github.com/pkg/errors"
)

// ---- transactions and the independent merkle implementation ----

var (
	txCache   = map[int]*wire.MsgTx{}
	txidCache = map[int]bitcoin.Hash32{}
	idOfTxid  = map[bitcoin.Hash32]int{}
)

func mkTx(id int) *wire.MsgTx {
	if tx, ok := txCache[id]; ok {
		return tx
	}
	tx := wire.NewMsgTx(1)
	var prev bitcoin.Hash32
	binary.LittleEndian.PutUint64(prev[:], uint64(id)+1)
	prev[31] = 0x5a
	tx.AddTxIn(wire.NewTxIn(wire.NewOutPoint(&prev, uint32(id%7)), bitcoin.Script{0x51}))
	script := bitcoin.Script{0x6a, 0x08}
	var b [8]byte
	binary.LittleEndian.PutUint64(b[:], uint64(id)*2654435761+17)
	script = append(script, b[:]...)
	tx.AddTxOut(wire.NewTxOut(uint64(1000+id), script))
	tx.LockTime = uint32(id)
	txCache[id] = tx
	h := *tx.TxHash()
	txidCache[id] = h
	idOfTxid[h] = id
	return tx
}

func txidOf(id int) bitcoin.Hash32 {
	mkTx(id)
	return txidCache[id]
}

func dsha(l, r bitcoin.Hash32) bitcoin.Hash32 {
	var buf [64]byte
	copy(buf[:32], l[:])
	copy(buf[32:], r[:])
	a := sha256.Sum256(buf[:])
	return bitcoin.Hash32(sha256.Sum256(a[:]))
}

func leafDigest(n int) uint64 {
	x := uint64(n+1) * 0x9E3779B97F4A7C15
	return x ^ (x >> 31)
}

func nodeDigest(a, b uint64) uint64 {
	x := a*0xBF58476D1CE4E5B9 + (b^(b>>29))*0x94D049BB133111EB + 0x632BE59BD9B4E019
	x ^= x >> 32
	x *= 0xD6E8FEB86659FD93
	return x ^ (x >> 32)
}

// plainRoot is the textbook root (pair up, duplicate the last of an odd level); it also records
// the digest of the term of every node it forms. The empty list has the zero hash.
func plainRoot(ids []int, digests map[bitcoin.Hash32]uint64) bitcoin.Hash32 {
	if len(ids) == 0 {
		return bitcoin.Hash32{}
	}
	level := make([]bitcoin.Hash32, len(ids))
	dg := make([]uint64, len(ids))
	for i, id := range ids {
		level[i] = txidOf(id)
		dg[i] = leafDigest(id)
		if digests != nil {
			digests[level[i]] = dg[i]
		}
	}
	for len(level) > 1 {
		var up []bitcoin.Hash32
		var upd []uint64
		for i := 0; i < len(level); i += 2 {
			j := i + 1
			if j == len(level) {
				j = i
			}
			h := dsha(level[i], level[j])
			d := nodeDigest(dg[i], dg[j])
			up = append(up, h)
			upd = append(upd, d)
			if digests != nil {
				digests[h] = d
			}
		}
		level, dg = up, upd
	}
	return level[0]
}

// ---- spies ----

type spy struct {
	mu        sync.Mutex
	calls     []string
	ptxCalls  int
	cfCalls   int
	rel       map[int]bool
	perr      int
	cancelAt  int
	cberr     bool
	cferr     int
	sterr     bool
	nrecv     int
	bd        *bitcoin_reader.BlockDownloader
	requested bitcoin.Hash32
	header    *wire.BlockHeader
	digests   map[bitcoin.Hash32]uint64
	lastSeen  chan struct{}
	lastOnce  sync.Once
	slow        *slowCanceller
	handlerDone atomic.Bool
}

var errScripted = errors.New("scripted failure")

func (s *spy) add(c string) {
	s.mu.Lock()
	s.calls = append(s.calls, c)
	s.mu.Unlock()
}

func showID(h bitcoin.Hash32) string {
	if id, ok := idOfTxid[h]; ok {
		return strconv.Itoa(id)
	}
	return "?"
}

func (s *spy) signalLast() { s.lastOnce.Do(func() { close(s.lastSeen) }) }

// slowCanceller is a block requestor whose CancelBlockRequest is still under way while the rest of the block
// arrives: it reports "already started" only after the handler has come to the end of its stream, or after a
// patient 100 ms when the handler (rightly) waits for the cancel to finish.
type slowCanceller struct {
	id      uuid.UUID
	entered chan struct{}
	s       *spy
}

func (c *slowCanceller) ID() uuid.UUID { return c.id }

func (c *slowCanceller) CancelBlockRequest(ctx context.Context, hash bitcoin.Hash32) bool {
	close(c.entered)
	hx.Until(100*time.Millisecond, func() bool { return c.s.handlerDone.Load() })
	return true
}

func (s *spy) ProcessTx(ctx context.Context, tx *wire.MsgTx) (bool, error) {
	k := s.ptxCalls
	s.ptxCalls++
	s.add("p" + showID(*tx.TxHash()))
	if k == s.cancelAt {
		if s.slow != nil {
			// the cancel runs in another goroutine and is still inside the requestor when this call returns
			go s.bd.Cancel(ctx)
			<-s.slow.entered
		} else {
			s.bd.Cancel(ctx)
		}
		s.signalLast()
	}
	if k == s.perr {
		s.signalLast()
		return false, errScripted
	}
	if k == s.nrecv-1 {
		defer s.signalLast()
	}
	return s.rel[k], nil
}

func (s *spy) CancelTx(ctx context.Context, txid bitcoin.Hash32) error {
	s.add("canceltx" + showID(txid))
	return nil
}

func (s *spy) AddTxConflict(ctx context.Context, txid, conflictTxID bitcoin.Hash32) error {
	s.add("conflict" + showID(txid))
	return nil
}

func verifyClass(err error) string {
	if err == nil {
		return "ok"
	}
	switch perrors.Cause(err) {
	case merkle_proof.ErrBadIndex:
		return "badindex"
	case merkle_proof.ErrWrongMerkleRoot:
		return "wrongroot"
	}
	return "other:" + strings.ReplaceAll(err.Error(), " ", "_")
}

func (s *spy) ConfirmTx(ctx context.Context, txid bitcoin.Hash32, blockHeight int,
	mp *merkle_proof.MerkleProof) error {
	k := s.cfCalls
	s.cfCalls++
	var sb strings.Builder
	fmt.Fprintf(&sb, "c%s@%d#", showID(txid), blockHeight)
	if mp == nil {
		sb.WriteString("nil")
	} else {
		path := make([]string, len(mp.Path))
		for i, h := range mp.Path {
			if d, ok := s.digests[h]; ok {
				path[i] = strconv.FormatUint(d, 10)
			} else {
				path[i] = "?"
			}
		}
		fmt.Fprintf(&sb, "%d[%s][%s]=%s", mp.Index, strings.Join(path, ","),
			strings.Trim(hx.IntList(mp.DuplicatedIndexes), "[]"), verifyClass(mp.Verify()))
		if mp.TxID == nil || !mp.TxID.Equal(&txid) || mp.BlockHeader == nil || *mp.BlockHeader != *s.header ||
			mp.BlockHash == nil || !mp.BlockHash.Equal(&s.requested) {
			sb.WriteString("!")
		}
	}
	s.add(sb.String())
	if k == s.cferr {
		return errScripted
	}
	return nil
}

func (s *spy) UpdateTxChainDepth(ctx context.Context, txid bitcoin.Hash32, chainDepth uint32) error {
	s.add("depth" + showID(txid))
	return nil
}

func (s *spy) ProcessCoinbaseTx(ctx context.Context, blockHash bitcoin.Hash32, tx *wire.MsgTx) error {
	c := "cb-"
	if tx != nil {
		c = "cb" + showID(*tx.TxHash())
	}
	if !blockHash.Equal(&s.requested) {
		c += "!"
	}
	s.add(c)
	if s.cberr {
		return errScripted
	}
	return nil
}

func (s *spy) FetchBlockTxIDs(ctx context.Context, blockHash bitcoin.Hash32) ([]bitcoin.Hash32, bool, error) {
	s.add("fetch")
	return nil, false, nil
}

func (s *spy) AppendBlockTxIDs(ctx context.Context, blockHash bitcoin.Hash32, txids []bitcoin.Hash32) error {
	ids := make([]string, len(txids))
	for i, t := range txids {
		ids[i] = showID(t)
	}
	c := "ap" + hx.List(ids)
	if !blockHash.Equal(&s.requested) {
		c += "!"
	}
	s.add(c)
	if s.sterr {
		return errScripted
	}
	return nil
}

func errClass(err error) string {
	if err == nil {
		return "ok"
	}
	cause := perrors.Cause(err)
	msg := err.Error()
	switch {
	case strings.HasPrefix(msg, "merkle proof"):
		return "proof-err"
	case cause == bitcoin_reader.ErrWrongBlock:
		return "wrongblock"
	case cause == merkle_proof.ErrWrongMerkleRoot:
		return "wrongroot"
	case cause.Error() == "Block Download Cancelled":
		return "cancelled"
	case strings.HasPrefix(msg, "Wrong merkle proof count"):
		return "proofcount"
	case strings.HasPrefix(msg, "process tx"):
		return "ptx-err"
	case strings.HasPrefix(msg, "process coinbase tx"):
		return "cb-err"
	case strings.HasPrefix(msg, "confirm tx"):
		return "confirm-err"
	case strings.HasPrefix(msg, "save block txids"):
		return "store-err"
	}
	return "other:" + strings.ReplaceAll(msg, " ", "_")
}

// handlerParkedInReceive reports whether the goroutine running BlockDownloader.handleBlock is blocked
// receiving from the tx channel (goroutine dump: state "chan receive").
func handlerParkedInReceive() bool {
	buf := make([]byte, 1<<17)
	n := runtime.Stack(buf, true)
	for _, g := range strings.Split(string(buf[:n]), "\n\n") {
		if strings.Contains(g, "(*BlockDownloader).handleBlock") {
			head := g
			if i := strings.IndexByte(g, '\n'); i >= 0 {
				head = g[:i]
			}
			return strings.Contains(head, "[chan receive")
		}
	}
	return false
}

func optInt(a hx.Args, k string) (int, bool) {
	v, ok := a[k]
	if !ok {
		return 0, false
	}
	if v == "-" {
		return -1, true
	}
	n, err := strconv.Atoi(v)
	return n, err == nil && n >= 0
}

func runBlock(a hx.Args) (string, bool) {
	n, ok1 := a.Int("n")
	height, ok2 := a.Int("height")
	count, ok3 := a.Uint("count")
	recv, ok4 := a.NatList("recv")
	rel, ok5 := a.NatList("rel")
	hdr, ok6 := a["hdr"]
	perr, ok7 := optInt(a, "perr")
	cancel, ok8 := optInt(a, "cancel")
	cferr, ok9 := optInt(a, "cferr")
	if !(ok1 && ok2 && ok3 && ok4 && ok5 && ok6 && ok7 && ok8 && ok9) || n < 0 {
		return "", false
	}
	flag := func(k string) (bool, bool) {
		switch a[k] {
		case "0":
			return false, true
		case "1":
			return true, true
		}
		return false, false
	}
	pre, okA := flag("pre")
	cend, okB := flag("cend")
	cberr, okC := flag("cberr")
	sterr, okD := flag("sterr")
	if !(okA && okB && okC && okD) {
		return "", false
	}

	ctx := hx.Ctx()
	trueIDs := make([]int, n)
	for i := range trueIDs {
		trueIDs[i] = i
	}
	digests := map[bitcoin.Hash32]uint64{}
	root := plainRoot(trueIDs, nil)
	plainRoot(recv, digests)
	reqHeader := &wire.BlockHeader{Version: 1, MerkleRoot: root, Timestamp: 1600000000, Bits: 0x207fffff, Nonce: 0}
	requested := *reqHeader.BlockHash()
	header := reqHeader
	if hdr != "ok" {
		h := *reqHeader
		h.Nonce = 1
		header = &h
	}

	s := &spy{rel: map[int]bool{}, perr: perr, cancelAt: cancel, cberr: cberr, cferr: cferr, sterr: sterr,
		nrecv: len(recv), requested: requested, header: header, digests: digests, lastSeen: make(chan struct{})}
	for _, k := range rel {
		s.rel[k] = true
	}
	bd := bitcoin_reader.NewBlockDownloader(s, s, requested, int(height))
	s.bd = bd
	if a["slowc"] == "1" {
		s.slow = &slowCanceller{id: uuid.New(), entered: make(chan struct{}), s: s}
		bd.SetCanceller(s.slow.id, s.slow)
	}
	if pre {
		bd.Cancel(ctx)
	}

	txs := make([]*wire.MsgTx, len(recv))
	for i, id := range recv {
		txs[i] = mkTx(id)
	}
	ch := make(chan *wire.MsgTx)
	done := make(chan struct{})
	var wg sync.WaitGroup
	wg.Add(1)
	go func() {
		defer wg.Done()
		defer close(ch)
		for _, tx := range txs {
			select {
			case ch <- tx:
			case <-done:
				return
			}
		}
		if cend && len(txs) > 0 {
			// Cancel strictly after the last transaction's iteration (incl. its wasCancelled check) and
			// before the channel is closed: wait until the handler is parked in the channel receive again.
			select {
			case <-s.lastSeen:
			case <-done:
				return
			case <-hx.After(5 * time.Second):
				return
			}
			stop := false
			hx.Until(5*time.Second, func() bool {
				select {
				case <-done:
					stop = true
					return true
				default:
				}
				return handlerParkedInReceive()
			})
			if stop {
				return
			}
			bd.Cancel(ctx)
		} else if cend {
			bd.Cancel(ctx)
		}
	}()

	ret, ptxt := hx.Guard(func() string {
		return errClass(bd.HandleBlock(ctx, header, count, ch))
	})
	s.handlerDone.Store(true)
	close(done)
	wg.Wait()
	note := ""
	if ret == "panic" {
		note = " #" + strings.ReplaceAll(ptxt, " ", "_")
	}
	complete := "none"
	select {
	case err := <-bd.Complete:
		complete = errClass(err)
	default:
	}
	if ret == "panic" {
		complete = "panic"
	}
	calls := "-"
	if len(s.calls) > 0 {
		calls = strings.Join(s.calls, ";")
	}
	return fmt.Sprintf("ret=%s complete=%s calls=%s%s", ret, complete, calls, note), true
}

func step(line string) string {
	op := hx.OpPart(line)
	verb, a := hx.Parse(op)
	switch verb {
	case "init":
		return "init => ok"
	case "block":
		if obs, ok := runBlock(a); ok {
			return op + " => " + obs
		}
	}
	return op + " => bad-op"
}

// ---- generator ----

type blk struct {
	n      int
	height int
	count  int
	recv   []int
	rel    []int
	hdr    string
	perr   int
	cancel int
	pre    bool
	cend   bool
	cberr  bool
	cferr  int
	sterr  bool
	slowc  bool
}

func clean(n int) *blk {
	b := &blk{n: n, height: 100 + n, count: n, hdr: "ok", perr: -1, cancel: -1, cferr: -1}
	for i := 0; i < n; i++ {
		b.recv = append(b.recv, i)
	}
	return b
}

func (b *blk) relAll() *blk {
	b.rel = nil
	for i := range b.recv {
		b.rel = append(b.rel, i)
	}
	return b
}

func (b *blk) relMask(mask uint64) *blk {
	b.rel = nil
	for i := range b.recv {
		if mask>>uint(i)&1 == 1 {
			b.rel = append(b.rel, i)
		}
	}
	return b
}

func (b *blk) relRandom(r *hx.Rng, pct int) *blk {
	b.rel = nil
	for i := range b.recv {
		if r.Chance(pct) {
			b.rel = append(b.rel, i)
		}
	}
	return b
}

func opt(k int) string {
	if k < 0 {
		return "-"
	}
	return strconv.Itoa(k)
}

func b2i(v bool) int {
	if v {
		return 1
	}
	return 0
}

func (b *blk) emit() {
	extra := ""
	if b.slowc {
		extra = " slowc=1"
	}
	fmt.Printf("block n=%d height=%d count=%d recv=%s rel=%s hdr=%s perr=%s cancel=%s pre=%d cend=%d cberr=%d cferr=%s sterr=%d%s\n",
		b.n, b.height, b.count, hx.IntList(b.recv), hx.IntList(b.rel), b.hdr, opt(b.perr), opt(b.cancel),
		b2i(b.pre), b2i(b.cend), b2i(b.cberr), opt(b.cferr), b2i(b.sterr), extra)
}

func without(xs []int, i int) []int {
	out := append([]int{}, xs[:i]...)
	return append(out, xs[i+1:]...)
}

func insertAt(xs []int, i, v int) []int {
	out := append([]int{}, xs[:i]...)
	out = append(out, v)
	return append(out, xs[i:]...)
}

// corruptions of the block of width n, exhaustive over positions; relevant set from relOf.
func corruptions(n int, relOf func(*blk) *blk, dupTail bool) {
	e := func(f func(b *blk)) {
		b := clean(n)
		f(b)
		relOf(b).emit()
	}
	for i := 0; i < n; i++ {
		i := i
		e(func(b *blk) { b.recv = without(b.recv, i) })                        // dropped, count unchanged
		e(func(b *blk) { b.recv = without(b.recv, i); b.count = n - 1 })       // dropped, count adjusted
		e(func(b *blk) { b.recv[i] = n + 5 })                                  // altered
		e(func(b *blk) { b.recv = b.recv[:i] })                                // stream cut before tx i
		e(func(b *blk) { b.perr = i })                                         // processor error at call i
		e(func(b *blk) { b.cancel = i })                                       // cancelled during tx i
		if i%2 == 0 || i == n-1 {
			e(func(b *blk) { b.cancel = i; b.slowc = true }) // the cancel is still inside the requestor while the rest arrives
		}
		e(func(b *blk) { b.cferr = i })                                        // ConfirmTx error at call i
		if i+1 < n {
			e(func(b *blk) { b.recv[i], b.recv[i+1] = b.recv[i+1], b.recv[i] }) // neighbours reordered
			e(func(b *blk) { b.recv[i], b.recv[n-1] = b.recv[n-1], b.recv[i] }) // reordered with the last
		}
	}
	for i := 0; i <= n; i++ {
		i := i
		e(func(b *blk) { b.recv = insertAt(b.recv, i, n+7) })                    // added, count unchanged
		e(func(b *blk) { b.recv = insertAt(b.recv, i, n+7); b.count = n + 1 })   // added, count adjusted
	}
	e(func(b *blk) { b.count = n + 1 })
	if n > 0 {
		e(func(b *blk) { b.count = n - 1 })
	}
	e(func(b *blk) { b.hdr = "wrong" })
	e(func(b *blk) { b.pre = true })
	e(func(b *blk) { b.cend = true })
	e(func(b *blk) { b.cberr = true })
	e(func(b *blk) { b.sterr = true })
	e(func(b *blk) { b.hdr = "wrong"; b.recv[0] = n + 5 })
	if dupTail {
		dupTails(n, relOf)
	}
}

// dupTails: the classical merkle ambiguity. A level of odd length duplicates its last node, so
// repeating the last 2^k transactions of a block whose level k is odd gives the same root.
func dupTails(n int, relOf func(*blk) *blk) {
	w := n
	for k := 0; w > 1; k++ {
		if w%2 == 1 {
			b := clean(n)
			size := 1 << uint(k)
			start := (w - 1) * size
			b.recv = append(b.recv, b.recv[start:]...)
			b.count = len(b.recv)
			relOf(b).emit()
		}
		w = (w + 1) / 2
	}
}

func gen(seed uint64, scripts int, tier string) {
	r := hx.NewRng(seed)
	all := func(b *blk) *blk { return b.relAll() }
	// 1. every width 1..33 (thorough: ..130), every leaf's proof, plus typical subsets
	maxW := 33
	if tier == "thorough" {
		maxW = 130
	}
	for n := 0; n <= maxW; n++ {
		fmt.Println("init")
		clean(n).relAll().emit()
		clean(n).relMask(0).emit()
		clean(n).relMask(0x5555555555555555).emit()
		clean(n).relMask(0xAAAAAAAAAAAAAAAA).emit()
		if n > 0 {
			clean(n).relMask(1 << uint((n-1)%64)).emit()
		}
		clean(n).relRandom(r, 30).emit()
	}
	// 2. every relevant subset up to width 6 (thorough: 9)
	maxS := 6
	if tier == "thorough" {
		maxS = 9
	}
	for n := 1; n <= maxS; n++ {
		fmt.Println("init")
		for m := uint64(0); m < 1<<uint(n); m++ {
			clean(n).relMask(m).emit()
		}
	}
	// 3. every corruption at every position for small widths
	maxC := 9
	if tier == "thorough" {
		maxC = 20
	}
	for n := 1; n <= maxC; n++ {
		fmt.Println("init")
		corruptions(n, all, true)
		fmt.Println("init")
		corruptions(n, func(b *blk) *blk { return b.relRandom(r, 50) }, true)
	}
	// 4. random blocks, random corruption
	maxN := 70
	if tier == "thorough" {
		maxN = 400
	}
	for sidx := 0; sidx < scripts; sidx++ {
		fmt.Println("init")
		lines := 4 + r.Intn(5)
		for j := 0; j < lines; j++ {
			n := 1 + r.Intn(maxN)
			if r.Chance(30) {
				n = 1 + r.Intn(12)
			}
			b := clean(n)
			ncorr := r.Pick(35, 50, 15)
			for c := 0; c < ncorr; c++ {
				randomCorruption(r, b)
			}
			switch r.Pick(30, 40, 20, 10) {
			case 0:
				b.relAll()
			case 1:
				b.relRandom(r, 5+r.Intn(90))
			case 2:
				b.relRandom(r, 3)
			case 3:
				b.relMask(0)
			}
			if b.cferr >= 0 && len(b.rel) > 0 {
				b.cferr = r.Intn(len(b.rel))
			}
			b.emit()
		}
	}
}

func randomCorruption(r *hx.Rng, b *blk) {
	n := len(b.recv)
	if n == 0 {
		b.count++
		return
	}
	i := r.Intn(n)
	switch r.Pick(8, 8, 8, 8, 8, 8, 6, 6, 5, 5, 5, 5, 5, 5, 5, 5) {
	case 0:
		b.recv = without(b.recv, i)
	case 1:
		b.recv = without(b.recv, i)
		b.count = len(b.recv)
	case 2:
		b.recv = insertAt(b.recv, r.Intn(n+1), b.n+3+r.Intn(5))
	case 3:
		b.recv = insertAt(b.recv, r.Intn(n+1), b.n+3+r.Intn(5))
		b.count = len(b.recv)
	case 4:
		j := r.Intn(n)
		b.recv[i], b.recv[j] = b.recv[j], b.recv[i]
	case 5:
		b.recv[i] = b.n + 3 + r.Intn(5)
	case 6:
		b.count += 1 - 2*r.Intn(2)
		if b.count < 0 {
			b.count = 0
		}
	case 7:
		b.recv = b.recv[:i]
	case 8:
		b.hdr = "wrong"
	case 9:
		b.perr = i
	case 10:
		b.cancel = i
	case 11:
		b.cend = true
	case 12:
		b.pre = true
	case 13:
		b.cberr = true
	case 14:
		b.cferr = 0
	case 15:
		b.sterr = true
	}
}

func main() {
	if len(os.Args) < 2 {
		fmt.Fprintln(os.Stderr, "usage: merkle run | gen <seed> <scripts> <tier>")
		os.Exit(2)
	}
	switch os.Args[1] {
	case "run":
		hx.Lines(step)
	case "gen":
		seed, _ := strconv.ParseUint(os.Args[2], 10, 64)
		n, _ := strconv.Atoi(os.Args[3])
		gen(seed, n, os.Args[4])
	}
}
