// Command blkdl is the correspondence harness for C16 (single block downloader): it drives the
// real BlockDownloader (Run in a goroutine, HandleBlock fed from a tx channel, Cancel / Stop /
// interrupt as calls) at call granularity. After every call it waits until every goroutine of the
// process is parked (exact: goroutine dump), then prints what can be seen from outside:
// Run's return class, the residual lengths of Started and Complete, HandleBlock's state and whether
// the block's coinbase was processed. The 2 min / 1 h / 10 s timers are never waited for.
//
//	blkdl run   < script > observations
//	blkdl gen <seed> <scripts> <tier>   > script
package main

import (
	"context"
	"fmt"
	"os"
	"runtime"
	"strconv"
	"strings"
	"sync"
	"sync/atomic"
	"time"

	"brvharness/internal/hx"

	"github.com/google/uuid"
	"github.com/pkg/errors"
	"github.com/tokenized/bitcoin_reader"
	"github.com/tokenized/pkg/bitcoin"
	"github.com/tokenized/pkg/merkle_proof"
	"github.com/tokenized/pkg/wire"
	"github.com/tokenized/threads"
)

// ---- mocks ----

type canceller struct {
	id  uuid.UUID
	ans atomic.Bool
}

func (c *canceller) ID() uuid.UUID { return c.id }
func (c *canceller) CancelBlockRequest(ctx context.Context, hash bitcoin.Hash32) bool {
	return c.ans.Load()
}

type proc struct {
	sync.Mutex
	failNext  bool
	hold      bool
	release   chan bool // true: confirmations succeed
	confirmOK bool
	cb        int32
	inConfirm atomic.Bool
}

func (p *proc) ProcessTx(ctx context.Context, tx *wire.MsgTx) (bool, error) {
	p.Lock()
	defer p.Unlock()
	if p.failNext {
		p.failNext = false
		return false, errors.New("scripted process tx failure")
	}
	return true, nil
}
func (p *proc) CancelTx(ctx context.Context, txid bitcoin.Hash32) error { return nil }
func (p *proc) AddTxConflict(ctx context.Context, txid, c bitcoin.Hash32) error {
	return nil
}
func (p *proc) ConfirmTx(ctx context.Context, txid bitcoin.Hash32, h int,
	mp *merkle_proof.MerkleProof) error {
	return nil
}
func (p *proc) UpdateTxChainDepth(ctx context.Context, txid bitcoin.Hash32, d uint32) error {
	return nil
}
func (p *proc) ProcessCoinbaseTx(ctx context.Context, blockHash bitcoin.Hash32, tx *wire.MsgTx) error {
	atomic.AddInt32(&p.cb, 1)
	ok := p.confirmOK
	if p.hold {
		p.inConfirm.Store(true)
		ok = <-p.release
		p.inConfirm.Store(false)
	}
	if !ok {
		return errors.New("scripted coinbase failure")
	}
	return nil
}

// ---- one script ----

type state struct {
	bd        *bitcoin_reader.BlockDownloader
	can       *canceller
	proc      *proc
	interrupt chan interface{}
	intrDone  bool

	txs    []*wire.MsgTx
	header *wire.BlockHeader
	wrong  *wire.BlockHeader
	next   int

	runStarted bool
	runDone    atomic.Bool
	runRet     error

	txCh     chan *wire.MsgTx
	hStarted bool
	hDone    atomic.Bool
	hRet     error
	eos      bool

	calls []*atomic.Bool // Cancel/Stop calls: returned?
}

func makeTx(i int) *wire.MsgTx {
	tx := wire.NewMsgTx(1)
	tx.LockTime = uint32(1000 + i)
	return tx
}

func newState(can bool, ntx int, rootOK bool) *state {
	s := &state{interrupt: make(chan interface{})}
	tree := merkle_proof.NewMerkleTree(true)
	for i := 0; i < ntx; i++ {
		tx := makeTx(i)
		s.txs = append(s.txs, tx)
		tree.AddHash(*tx.TxHash())
	}
	var root bitcoin.Hash32
	if ntx > 0 {
		root, _ = tree.FinalizeMerkleProofs()
	} else {
		root, _ = merkle_proof.NewMerkleTree(true).FinalizeMerkleProofs()
	}
	if !rootOK {
		root[0] ^= 0x55
	}
	s.header = &wire.BlockHeader{Version: 1, MerkleRoot: root, Timestamp: 1600000000, Bits: 0x1d00ffff, Nonce: 7}
	s.wrong = &wire.BlockHeader{Version: 1, MerkleRoot: root, Timestamp: 1600000000, Bits: 0x1d00ffff, Nonce: 8}
	s.proc = &proc{release: make(chan bool, 1), confirmOK: true}
	s.bd = bitcoin_reader.NewBlockDownloader(s.proc, bitcoin_reader.NewMockBlockTxManager(), *s.header.BlockHash(), 100)
	s.can = &canceller{id: uuid.New()}
	if can {
		s.bd.SetCanceller(s.can.id, s.can)
	}
	return s
}

func errClass(err error) string {
	if err == nil {
		return "ok"
	}
	c := errors.Cause(err)
	switch {
	case c == threads.Interrupted:
		return "interrupted"
	case c == bitcoin_reader.ErrTimeout:
		return "timeout"
	case c == bitcoin_reader.ErrWrongBlock:
		return "wrong"
	case c.Error() == "Block Download Cancelled":
		return "cancelled"
	}
	return "fail"
}

// goroutine dump helpers

type gor struct {
	state string
	body  string
}

var dumpBuf = make([]byte, 1<<18)

func dump() []gor {
	n := runtime.Stack(dumpBuf, true)
	for n >= len(dumpBuf) {
		dumpBuf = make([]byte, 2*len(dumpBuf))
		n = runtime.Stack(dumpBuf, true)
	}
	var out []gor
	for _, blk := range strings.Split(string(dumpBuf[:n]), "\n\n") {
		blk = strings.TrimSpace(blk)
		if !strings.HasPrefix(blk, "goroutine ") {
			continue
		}
		i := strings.IndexByte(blk, '[')
		j := strings.IndexByte(blk, ']')
		if i < 0 || j < i {
			continue
		}
		st := blk[i+1 : j]
		if k := strings.IndexByte(st, ','); k >= 0 {
			st = st[:k]
		}
		out = append(out, gor{state: st, body: blk})
	}
	return out
}

// parked reports whether a goroutine state (as printed by runtime.Stack) is one of the three ways a
// goroutine of this harness can legitimately be at rest: waiting on a channel. Everything else counts
// as still moving - "runnable", "running", "syscall", but also "preempted", "GC assist wait",
// "GC assist marking", "copystack", "semacquire", "sync.Mutex.Lock": a goroutine delayed by the
// garbage collector or by a momentarily held mutex is NOT at rest (treating those as parked let an
// op be issued while HandleBlock was still between its Started send and its first cancel check).
func parked(state string) bool {
	switch state {
	case "chan receive", "chan send", "select":
		return true
	}
	return false
}

// quiesce waits until every goroutine but the caller is parked on a channel, seen in two
// consecutive stop-the-world dumps with a yield in between.
func quiesce() bool {
	okRuns := 0
	for i := 0; i < 400000; i++ {
		runtime.Gosched()
		moving := 0
		for _, g := range dump() {
			if !parked(g.state) {
				moving++
			}
		}
		if moving <= 1 { // the caller itself
			okRuns++
			if okRuns >= 2 {
				return true
			}
		} else {
			okRuns = 0
			if i > 1000 {
				time.Sleep(20 * time.Microsecond)
			}
		}
	}
	return false
}

func (s *state) obs() string {
	run := "idle"
	if s.runStarted {
		run = "pending"
		if s.runDone.Load() {
			run = errClass(s.runRet)
		}
	}
	h := "idle"
	if s.hStarted {
		h = "busy"
		if s.hDone.Load() {
			h = "ret:" + errClass(s.hRet)
		}
	}
	o := fmt.Sprintf("run=%s s=%d c=%d h=%s cb=%d", run, len(s.bd.Started), len(s.bd.Complete), h,
		atomic.LoadInt32(&s.proc.cb))
	for _, c := range s.calls {
		if !c.Load() {
			o += " blk=1"
			break
		}
	}
	return o
}

func (s *state) call(f func()) {
	done := &atomic.Bool{}
	s.calls = append(s.calls, done)
	go func() {
		f()
		done.Store(true)
	}()
}

func (s *state) setAns(a hx.Args) string {
	if v, ok := a["started"]; ok {
		s.can.ans.Store(v == "t")
	}
	return ""
}

func (s *state) finish() string {
	// 1. senders parked on the signalling channels are the violation
	parked := 0
	for _, g := range dump() {
		if g.state == "chan send" && strings.Contains(g.body, "block_downloader.go") {
			parked++
		}
	}
	for _, c := range s.calls {
		if !c.Load() {
			parked++
		}
	}
	// 2. release whatever is legitimately waiting for the environment or a timer, then nothing of
	// block_downloader.go may remain on any stack
	if !s.intrDone {
		close(s.interrupt)
		s.intrDone = true
	}
	if s.hStarted && !s.eos {
		close(s.txCh)
		s.eos = true
	}
	if s.proc.hold {
		select {
		case s.proc.release <- true:
		default:
		}
	}
	quiesce()
	if s.runStarted && !s.runDone.Load() {
		// Run is in the give-up loop waiting for a handler that was promised but never called
		select {
		case s.bd.Complete <- errors.New("harness cleanup"):
		default:
		}
		quiesce()
	}
	for _, g := range dump() {
		if strings.Contains(g.body, "block_downloader.go") {
			parked++
		}
	}
	return fmt.Sprintf("parked=%d", parked)
}

type runner struct{ s *state }

func (r *runner) step(line string) string {
	op := hx.OpPart(line)
	verb, a := hx.Parse(op)
	ctx := hx.Ctx()
	if verb == "init" {
		if r.s != nil {
			r.s.finish()
		}
		ntx, _ := a.Int("txs")
		r.s = newState(a["can"] != "0", int(ntx), a["root"] != "bad")
		return op + " => ok"
	}
	s := r.s
	if s == nil {
		return op + " => bad-op"
	}
	ign := ""
	switch verb {
	case "run":
		s.setAns(a)
		if s.runStarted {
			ign = " ign=1"
			break
		}
		s.runStarted = true
		go func() {
			s.runRet = s.bd.Run(ctx, s.interrupt)
			s.runDone.Store(true)
		}()
	case "intr":
		s.setAns(a)
		if !s.intrDone {
			close(s.interrupt)
			s.intrDone = true
		}
	case "cancel":
		s.setAns(a)
		s.call(func() { s.bd.Cancel(ctx) })
	case "stop":
		s.call(func() { s.bd.Stop(ctx) })
	case "hstart":
		if s.hStarted {
			ign = " ign=1"
			break
		}
		n, ok := a.Int("n")
		if !ok {
			return op + " => bad-op"
		}
		s.hStarted = true
		s.proc.hold = a["hold"] == "1"
		s.proc.confirmOK = a["confirm"] != "fail"
		s.txCh = make(chan *wire.MsgTx, 1000)
		hdr := s.header
		if a["hash"] == "wrong" {
			hdr = s.wrong
		}
		go func() {
			s.hRet = s.bd.HandleBlock(ctx, hdr, uint64(n), s.txCh)
			s.hDone.Store(true)
		}()
	case "htx":
		if !s.hStarted || s.hDone.Load() || s.eos || s.proc.inConfirm.Load() {
			ign = " ign=1"
			break
		}
		if a["proc"] == "fail" {
			s.proc.Lock()
			s.proc.failNext = true
			s.proc.Unlock()
		}
		var tx *wire.MsgTx
		if s.next < len(s.txs) {
			tx = s.txs[s.next]
		} else {
			tx = makeTx(5000 + s.next)
		}
		s.next++
		s.txCh <- tx
	case "heos":
		if !s.hStarted || s.hDone.Load() || s.eos || s.proc.inConfirm.Load() {
			ign = " ign=1"
			break
		}
		s.eos = true
		close(s.txCh)
	case "hconfirm":
		if !s.proc.inConfirm.Load() {
			ign = " ign=1"
			break
		}
		s.proc.release <- a["res"] != "fail"
	case "end":
		res := s.finish()
		r.s = nil
		return op + " => " + res
	default:
		return op + " => bad-op"
	}
	if !quiesce() {
		return op + " => " + s.obs() + " unsettled=1"
	}
	return op + " => " + s.obs() + ign
}

// ---- generator ----

// interleavings of the sequences (each keeps its own order), appended to out.
func interleave(seqs [][]string, cur []string, out *[][]string, limit int) {
	if limit > 0 && len(*out) >= limit {
		return
	}
	done := true
	for i, q := range seqs {
		if len(q) == 0 {
			continue
		}
		done = false
		seqs[i] = q[1:]
		interleave(seqs, append(cur, q[0]), out, limit)
		seqs[i] = q
	}
	if done {
		*out = append(*out, append([]string{}, cur...))
	}
}

var disturbers = []string{"cancel started=t", "cancel started=f", "stop", "intr"}

func multisets(k int, from int) [][]string {
	if k == 0 {
		return [][]string{{}}
	}
	var out [][]string
	for i := from; i < len(disturbers); i++ {
		for _, rest := range multisets(k-1, i) {
			out = append(out, append([]string{disturbers[i]}, rest...))
		}
	}
	return out
}

func emit(initLine string, ops []string) {
	fmt.Println(initLine)
	for _, o := range ops {
		fmt.Println(o)
	}
	fmt.Println("end")
}

func handlerSeq(hash string, declared, sent int, hold bool, confirm string) []string {
	h := fmt.Sprintf("hstart hash=%s n=%d", hash, declared)
	if hold {
		h += " hold=1"
	}
	if confirm == "fail" {
		h += " confirm=fail"
	}
	seq := []string{h}
	for i := 0; i < sent; i++ {
		seq = append(seq, "htx")
	}
	seq = append(seq, "heos")
	if hold {
		if confirm == "fail" {
			seq = append(seq, "hconfirm res=fail")
		} else {
			seq = append(seq, "hconfirm res=ok")
		}
	}
	return seq
}

func exhaustive(tier string) {
	maxD := 2
	if tier == "thorough" {
		maxD = 3
	}
	// the main family: Run x handler (1 tx) x every multiset of disturbers, every interleaving
	for _, hold := range []bool{false, true} {
		for d := 0; d <= maxD; d++ {
			for _, ms := range multisets(d, 0) {
				seqs := [][]string{{"run"}, handlerSeq("ok", 1, 1, hold, "ok")}
				for _, x := range ms {
					seqs = append(seqs, []string{x})
				}
				var out [][]string
				interleave(seqs, nil, &out, 0)
				for _, ops := range out {
					emit("init can=1 txs=1 root=ok", ops)
				}
			}
		}
	}
	// variants with up to one (quick) / two (thorough) disturbers
	type variant struct {
		init string
		h    []string
	}
	variants := []variant{
		{"init can=1 txs=0 root=ok", handlerSeq("ok", 0, 0, false, "ok")},
		{"init can=1 txs=1 root=ok", handlerSeq("wrong", 1, 1, false, "ok")},
		{"init can=1 txs=1 root=bad", handlerSeq("ok", 1, 1, false, "ok")},
		{"init can=1 txs=2 root=ok", handlerSeq("ok", 2, 1, false, "ok")},
		{"init can=1 txs=2 root=ok", handlerSeq("ok", 2, 2, true, "fail")},
		{"init can=1 txs=1 root=ok", []string{"hstart hash=ok n=1", "htx proc=fail", "heos"}},
		{"init can=0 txs=1 root=ok", handlerSeq("ok", 1, 1, false, "ok")},
		{"init can=0 txs=1 root=ok", handlerSeq("ok", 1, 1, true, "ok")},
		{"init can=1 txs=1 root=ok", nil}, // the handler is never called
		{"init can=0 txs=1 root=ok", nil},
	}
	for _, v := range variants {
		for d := 0; d <= maxD-1+boolInt(v.h == nil); d++ {
			for _, ms := range multisets(d, 0) {
				seqs := [][]string{{"run"}}
				if v.h != nil {
					seqs = append(seqs, v.h)
				}
				for _, x := range ms {
					seqs = append(seqs, []string{x})
				}
				var out [][]string
				interleave(seqs, nil, &out, 0)
				for _, ops := range out {
					emit(v.init, ops)
				}
			}
		}
	}
}

func boolInt(b bool) int {
	if b {
		return 1
	}
	return 0
}

func random(seed uint64, n int, tier string) {
	r := hx.NewRng(seed)
	for k := 0; k < n; k++ {
		txs := r.Intn(4)
		declared := txs
		sent := txs
		switch r.Pick(70, 10, 10, 10) {
		case 1:
			declared = txs + 1
		case 2:
			if sent > 0 {
				sent--
			}
		case 3:
			sent = txs + 1 + r.Intn(2)
		}
		hash := "ok"
		if r.Chance(10) {
			hash = "wrong"
		}
		root := "ok"
		if r.Chance(10) {
			root = "bad"
		}
		confirm := "ok"
		if r.Chance(10) {
			confirm = "fail"
		}
		hold := r.Chance(50)
		can := 1
		if r.Chance(12) {
			can = 0
		}
		h := handlerSeq(hash, declared, sent, hold, confirm)
		if r.Chance(10) && len(h) > 2 {
			h[1] = "htx proc=fail"
		}
		seqs := [][]string{{"run"}}
		if !r.Chance(8) {
			seqs = append(seqs, h)
		}
		nd := r.Intn(5)
		if tier == "thorough" {
			nd = r.Intn(8)
		}
		for i := 0; i < nd; i++ {
			seqs = append(seqs, []string{disturbers[r.Intn(len(disturbers))]})
		}
		// one random interleaving
		var ops []string
		for {
			var live []int
			for i, q := range seqs {
				if len(q) > 0 {
					live = append(live, i)
				}
			}
			if len(live) == 0 {
				break
			}
			i := live[r.Intn(len(live))]
			ops = append(ops, seqs[i][0])
			seqs[i] = seqs[i][1:]
		}
		emit(fmt.Sprintf("init can=%d txs=%d root=%s", can, txs, root), ops)
	}
}

func main() {
	if len(os.Args) < 2 {
		fmt.Fprintln(os.Stderr, "usage: blkdl run | gen <seed> <scripts> <tier>")
		os.Exit(2)
	}
	switch os.Args[1] {
	case "run":
		r := &runner{}
		hx.Lines(r.step)
	case "gen":
		seed, _ := strconv.ParseUint(os.Args[2], 10, 64)
		n, _ := strconv.Atoi(os.Args[3])
		tier := os.Args[4]
		exhaustive(tier)
		random(seed, n, tier)
	}
}
