// Command peers is the correspondence harness for C20: it drives the real
// StoragePeerRepository with a script of operations and prints one observation per operation.
// Clock readings are captured after the fact and written into the op text (now=...), so the
// model replays the same history.
//
//	peers run   < script > observations
//	peers gen <seed> <scripts> <tier>   > script
package main

import (
	"fmt"
	"os"
	"strconv"
	"strings"

	"brvharness/internal/hx"

	"github.com/tokenized/bitcoin_reader"
	"github.com/tokenized/pkg/storage"
)

const path = "peers"

type state struct {
	store *storage.MockStorage
	repo  *bitcoin_reader.StoragePeerRepository
}

func newState() *state {
	st := storage.NewMockStorage()
	return &state{store: st, repo: bitcoin_reader.NewPeerRepository(st, path)}
}

func showPeers(l bitcoin_reader.PeerList) string {
	xs := make([]string, len(l))
	for i, p := range l {
		xs[i] = fmt.Sprintf("%s:%d:%d", hx.Hex([]byte(p.Address)), p.Score, p.LastTime)
	}
	return hx.SortedList(xs)
}

func (s *state) all() bitcoin_reader.PeerList {
	l, _ := s.repo.Get(hx.Ctx(), -2147483648, -1)
	return l
}

func (s *state) lastTime(addr string) uint32 {
	for _, p := range s.all() {
		if p.Address == addr {
			return p.LastTime
		}
	}
	return 0
}

func loadClass(err error) string {
	if err == nil {
		return "ok"
	}
	msg := err.Error()
	switch {
	case strings.Contains(msg, "Failed to read peers version"):
		return "err:version-read"
	case strings.Contains(msg, "Unknown Version"):
		return "err:unknown-version"
	case strings.Contains(msg, "Failed to read peers count"):
		return "err:count-read"
	}
	return "err:other:" + strings.ReplaceAll(msg, " ", "_")
}

func (s *state) doLoad() string {
	out, ptxt := hx.Guard(func() string {
		return "r=" + loadClass(s.repo.Load(hx.Ctx()))
	})
	if out == "panic" {
		return "r=panic peers=[] #" + strings.ReplaceAll(ptxt, " ", "_")
	}
	return out + " peers=" + showPeers(s.all())
}

func (s *state) step(line string) string {
	ctx := hx.Ctx()
	op := hx.OpPart(line)
	verb, a := hx.Parse(op)
	switch verb {
	case "init":
		*s = *newState()
		return "init => ok"
	case "add":
		addr, ok := a.Hex("a")
		if !ok {
			break
		}
		added, _ := s.repo.Add(ctx, string(addr))
		return fmt.Sprintf("add a=%s => added=%d", a["a"], b2i(added))
	case "score":
		addr, ok := a.Hex("a")
		d, ok2 := a.Int("d")
		if !ok || !ok2 {
			break
		}
		found := s.repo.UpdateScore(ctx, string(addr), int32(d))
		now := uint32(0)
		if found {
			now = s.lastTime(string(addr))
		}
		return fmt.Sprintf("score a=%s d=%d now=%d => found=%d", a["a"], d, now, b2i(found))
	case "time":
		addr, ok := a.Hex("a")
		if !ok {
			break
		}
		found := s.repo.UpdateTime(ctx, string(addr))
		now := uint32(0)
		if found {
			now = s.lastTime(string(addr))
		}
		return fmt.Sprintf("time a=%s now=%d => found=%d", a["a"], now, b2i(found))
	case "get":
		lo, ok := a.Int("lo")
		hi, ok2 := a.Int("hi")
		if !ok || !ok2 {
			break
		}
		l, _ := s.repo.Get(ctx, int32(lo), int32(hi))
		return fmt.Sprintf("get lo=%d hi=%d => peers=%s", lo, hi, showPeers(l))
	case "count":
		return fmt.Sprintf("count => n=%d", s.repo.Count())
	case "save":
		if err := s.repo.Save(ctx); err != nil {
			return "save => err:" + err.Error()
		}
		b, _ := s.store.Read(ctx, path)
		return "save => file=" + hx.Hex(b)
	case "load":
		return "load => " + s.doLoad()
	case "loadraw":
		b, ok := a.Hex("hex")
		if !ok {
			break
		}
		s.store.Write(ctx, path, b, nil)
		return fmt.Sprintf("loadraw hex=%s => %s", a["hex"], s.doLoad())
	case "loadcut":
		k, ok := a.Int("k")
		if !ok {
			break
		}
		orig, err := s.store.Read(ctx, path)
		if err != nil {
			return fmt.Sprintf("loadcut k=%d => %s", k, s.doLoad())
		}
		cut := orig
		if int(k) < len(orig) {
			cut = orig[:k]
		}
		s.store.Write(ctx, path, append([]byte{}, cut...), nil)
		res := s.doLoad()
		s.store.Write(ctx, path, orig, nil)
		return fmt.Sprintf("loadcut k=%d => %s", k, res)
	case "clear":
		s.repo.Clear(ctx)
		return "clear => ok"
	}
	return op + " => bad-op"
}

func b2i(b bool) int {
	if b {
		return 1
	}
	return 0
}

// ---- generator ----

func gen(seed uint64, scripts int, tier string) {
	r := hx.NewRng(seed)
	maxOps := 40
	if tier == "thorough" {
		maxOps = 120
	}
	for sidx := 0; sidx < scripts; sidx++ {
		fmt.Println("init")
		// address pool: structured mostly-valid addresses plus adversarial ones
		pool := []string{}
		n := 2 + r.Intn(8)
		for i := 0; i < n; i++ {
			switch r.Pick(60, 10, 10, 10, 10) {
			case 0:
				pool = append(pool, hx.Hex([]byte(fmt.Sprintf("[::ffff:10.0.%d.%d]:8333", r.Intn(4), r.Intn(6)))))
			case 1:
				pool = append(pool, "-") // empty address
			case 2:
				b := make([]byte, 1+r.Intn(6)) // non-ASCII / non-UTF-8
				for j := range b {
					b[j] = byte(0x80 + r.Intn(0x80))
				}
				pool = append(pool, hx.Hex(b))
			case 3:
				b := make([]byte, 200+r.Intn(400)) // long
				for j := range b {
					b[j] = byte(r.Intn(256))
				}
				pool = append(pool, hx.Hex(b))
			case 4:
				pool = append(pool, hx.Hex([]byte{0, 0, 0, 0})) // looks like a length field
			}
		}
		saved := false
		savedLen := 0
		nops := 5 + r.Intn(maxOps)
		for i := 0; i < nops; i++ {
			a := pool[r.Intn(len(pool))]
			switch r.Pick(22, 25, 8, 14, 3, 8, 6, 6, 5, 3) {
			case 0:
				fmt.Printf("add a=%s\n", a)
			case 1:
				var d int64
				switch r.Pick(60, 15, 15, 10) {
				case 0:
					d = int64(r.Intn(21)) - 10
				case 1:
					d = 2147483647 - int64(r.Intn(3))
				case 2:
					d = -2147483648 + int64(r.Intn(3))
				case 3:
					d = int64(r.Intn(2000000000)) - 1000000000
				}
				fmt.Printf("score a=%s d=%d\n", a, d)
			case 2:
				fmt.Printf("time a=%s\n", a)
			case 3:
				lo := int64(r.Intn(31)) - 15
				hi := int64(-1)
				switch r.Pick(40, 40, 10, 10) {
				case 1:
					hi = lo + int64(r.Intn(20)) - 2
				case 2:
					hi = 2147483647
				case 3:
					lo = -2147483648
				}
				fmt.Printf("get lo=%d hi=%d\n", lo, hi)
			case 4:
				fmt.Println("count")
			case 5:
				fmt.Println("save")
				saved = true
				savedLen = 600 // unknown exactly; cuts are drawn up to this and beyond
			case 6:
				fmt.Println("load")
			case 7:
				if saved {
					k := 0
					switch r.Pick(30, 40, 30) {
					case 0:
						k = r.Intn(8)
					case 1:
						k = r.Intn(120)
					case 2:
						k = r.Intn(savedLen)
					}
					fmt.Printf("loadcut k=%d\n", k)
				} else {
					fmt.Println("load")
				}
			case 8:
				fmt.Printf("loadraw hex=%s\n", rawFile(r))
			case 9:
				fmt.Println("clear")
				saved = false
			}
		}
		fmt.Println("get lo=-2147483648 hi=-1")
		fmt.Println("save")
		fmt.Println("load")
	}
}

func le32(v uint32) []byte { return []byte{byte(v), byte(v >> 8), byte(v >> 16), byte(v >> 24)} }

// rawFile produces damaged / hostile files: wrong version, negative or huge counts and address
// lengths, duplicates, random tails. Huge positive counts are bounded to keep the unrepaired code's
// allocation (count * 8 bytes of pointers) below the worker's memory limit.
func rawFile(r *hx.Rng) string {
	var b []byte
	switch r.Pick(10, 90) {
	case 0:
		b = append(b, byte(1+r.Intn(255)))
	default:
		b = append(b, 0)
	}
	switch r.Pick(50, 15, 15, 10, 10) {
	case 0:
		b = append(b, le32(uint32(r.Intn(5)))...)
	case 1:
		b = append(b, le32(0xffffffff)...) // -1
	case 2:
		b = append(b, le32(0x80000000)...) // min int32
	case 3:
		b = append(b, le32(uint32(1000000+r.Intn(1000000)))...)
	case 4:
		b = append(b, le32(uint32(r.Next()))[:r.Intn(4)]...) // short count
	}
	n := r.Intn(4)
	for i := 0; i < n; i++ {
		addr := []byte(fmt.Sprintf("p%d", r.Intn(3)))
		switch r.Pick(70, 10, 10, 10) {
		case 0:
			b = append(b, le32(uint32(len(addr)))...)
		case 1:
			b = append(b, le32(0xffffffff)...) // -1
		case 2:
			b = append(b, le32(0x7fffffff)...)
		case 3:
			b = append(b, le32(uint32(len(addr)+1+r.Intn(40)))...)
		}
		b = append(b, addr...)
		b = append(b, le32(uint32(r.Next()))...)
		b = append(b, le32(uint32(r.Next()))...)
	}
	if r.Chance(30) {
		t := make([]byte, r.Intn(10))
		for j := range t {
			t[j] = byte(r.Intn(256))
		}
		b = append(b, t...)
	}
	if r.Chance(20) && len(b) > 0 {
		b = b[:r.Intn(len(b))]
	}
	return hx.Hex(b)
}

func main() {
	if len(os.Args) < 2 {
		fmt.Fprintln(os.Stderr, "usage: peers run | gen <seed> <scripts> <tier>")
		os.Exit(2)
	}
	switch os.Args[1] {
	case "run":
		s := newState()
		hx.Lines(s.step)
	case "gen":
		seed, _ := strconv.ParseUint(os.Args[2], 10, 64)
		n, _ := strconv.Atoi(os.Args[3])
		gen(seed, n, os.Args[4])
	}
}
