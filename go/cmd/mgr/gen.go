package main

import (
	"fmt"
	"sort"
	"strings"

	"brvharness/internal/hx"
)

// gnode is the generator's rough idea of a node (the harness and the model decide what really happens;
// an op that does not apply is answered with `skip`).
type gnode struct {
	stage byte // f h v x
	busy  bool
	hdr   bool // announced something
}

type gctx struct {
	r     *hx.Rng
	nodes []*gnode
	txid  int
	lines []string
	stats map[string]int
	c15   bool
}

func (g *gctx) emit(op string) {
	g.lines = append(g.lines, op)
	g.stats["op:"+strings.Fields(op)[0]]++
}

func (g *gctx) pick(f func(n *gnode) bool) int {
	var c []int
	for i, n := range g.nodes {
		if f(n) {
			c = append(c, i)
		}
	}
	if len(c) == 0 {
		return -1
	}
	return c[g.r.Intn(len(c))]
}

func (g *gctx) anyNode() int { return g.r.Intn(len(g.nodes)) }

func (g *gctx) blockID() int {
	switch g.r.Pick(70, 15, 15) {
	case 0:
		return g.r.Intn(10)
	case 1:
		return 10 + g.r.Intn(5)
	}
	return 20 + g.r.Intn(5)
}

func (g *gctx) toStage(i int, target string) {
	n := g.nodes[i]
	switch target {
	case "fresh":
	case "hs":
		g.emit(fmt.Sprintf("hs i=%d", i))
		n.stage = 'h'
	case "hsfail":
		g.emit(fmt.Sprintf("hs i=%d", i))
		g.emit(fmt.Sprintf("verify i=%d ok=0", i))
		n.stage = 'x'
	case "ready", "busy", "stopped", "dropped":
		g.emit(fmt.Sprintf("hs i=%d", i))
		g.emit(fmt.Sprintf("verify i=%d ok=1", i))
		n.stage = 'v'
		if g.r.Chance(75) {
			g.announce(i)
		}
		if target == "busy" {
			g.emit(fmt.Sprintf("busy i=%d b=%d", i, g.blockID()))
			n.busy = true
		}
		if target == "stopped" {
			g.emit(fmt.Sprintf("stop i=%d", i))
			n.stage = 'x'
		}
		if target == "dropped" {
			g.emit(fmt.Sprintf("drop i=%d", i))
			n.stage = 'x'
		}
	case "stoppedearly":
		if g.r.Chance(50) {
			g.emit(fmt.Sprintf("hs i=%d", i))
		}
		g.emit(fmt.Sprintf("%s i=%d", []string{"stop", "drop"}[g.r.Intn(2)], i))
		n.stage = 'x'
	}
}

func (g *gctx) announce(i int) {
	if g.r.Chance(12) {
		g.emit(fmt.Sprintf("announce i=%d b=e", i))
	} else {
		g.emit(fmt.Sprintf("announce i=%d b=%d", i, g.blockID()))
	}
	g.nodes[i].hdr = true
}

var hostileKinds = []string{"garbage", "magic", "oversize", "cut", "badheaders", "rejecthdr", "badck", "unknown"}

func (g *gctx) hostile() {
	i := g.pick(func(n *gnode) bool { return n.stage != 'x' })
	if i < 0 || g.r.Chance(5) {
		i = g.anyNode()
	}
	kind := hostileKinds[g.r.Intn(len(hostileKinds))]
	g.emit(fmt.Sprintf("hostile i=%d kind=%s", i, kind))
	g.stats["hostile:"+kind+"@"+string(g.nodes[i].stage)]++
	if kind != "unknown" {
		g.nodes[i].stage = 'x'
	}
}

func (g *gctx) request() {
	closeArg := ""
	if g.r.Chance(9) {
		ready := 0
		for _, n := range g.nodes {
			if n.stage == 'v' && !n.busy {
				ready++
			}
		}
		if k := g.pick(func(n *gnode) bool { return n.stage == 'v' && !n.busy }); k >= 0 && ready >= 2 {
			closeArg = fmt.Sprintf(" close=%d", k)
			g.nodes[k].stage = 'x'
			g.stats["closing-window"]++
		}
	}
	w := []int{30, 30, 14, 12}
	if len(g.lines) > 0 && g.txid == 0 {
		w[2] = 4
	}
	switch g.r.Pick(w...) {
	case 0:
		g.emit("reqheaders" + closeArg)
	case 1:
		g.emit(fmt.Sprintf("reqblock b=%d%s", g.blockID(), closeArg))
	case 2:
		g.emit("reqtxs" + closeArg)
	case 3:
		g.emit("sendtx" + closeArg)
	}
}

func (g *gctx) addtx() {
	g.txid++
	n := 2 + g.r.Intn(3)
	var from []string
	for j := 0; j < n; j++ {
		from = append(from, fmt.Sprint(g.anyNode()))
	}
	g.emit(fmt.Sprintf("addtx t=%d from=[%s]", g.txid, strings.Join(from, ",")))
}

func (g *gctx) stageChange() {
	switch g.r.Pick(14, 16, 10, 12, 12, 14, 10, 6, 6) {
	case 0:
		if i := g.pick(func(n *gnode) bool { return n.stage == 'f' }); i >= 0 {
			g.emit(fmt.Sprintf("hs i=%d", i))
			g.nodes[i].stage = 'h'
		}
	case 1:
		if i := g.pick(func(n *gnode) bool { return n.stage == 'h' }); i >= 0 {
			if g.r.Chance(80) {
				g.emit(fmt.Sprintf("verify i=%d ok=1", i))
				g.nodes[i].stage = 'v'
			} else {
				g.emit(fmt.Sprintf("verify i=%d ok=0", i))
				g.nodes[i].stage = 'x'
			}
		}
	case 2:
		if i := g.pick(func(n *gnode) bool { return n.stage != 'x' }); i >= 0 {
			g.emit(fmt.Sprintf("%s i=%d", []string{"stop", "drop"}[g.r.Intn(2)], i))
			g.nodes[i].stage = 'x'
		}
	case 3:
		if i := g.pick(func(n *gnode) bool { return n.stage == 'v' && !n.busy }); i >= 0 {
			g.emit(fmt.Sprintf("busy i=%d b=%d", i, g.blockID()))
			g.nodes[i].busy = true
		} else if i := g.pick(func(n *gnode) bool { return n.stage != 'x' }); i >= 0 {
			g.emit(fmt.Sprintf("busy i=%d b=%d", i, g.blockID())) // a request on a node that is not ready (flags: busy, not ready)
			g.nodes[i].busy = true
		}
	case 4:
		// routed block requests make nodes busy too: deliver to anything that is not dead
		if i := g.pick(func(n *gnode) bool { return n.stage != 'x' && n.busy }); i >= 0 {
			g.emit(fmt.Sprintf("deliver i=%d", i))
			g.nodes[i].busy = false
		} else if i := g.pick(func(n *gnode) bool { return n.stage == 'v' }); i >= 0 {
			g.emit(fmt.Sprintf("deliver i=%d", i))
		}
	case 5:
		if i := g.pick(func(n *gnode) bool { return n.stage == 'v' }); i >= 0 {
			g.announce(i)
		}
	case 6:
		if len(g.nodes) < maxNodes {
			g.emit("add")
			g.nodes = append(g.nodes, &gnode{stage: 'f'})
		}
	case 7:
		g.emit(fmt.Sprintf("hs i=%d", g.anyNode())) // possibly out of place: skip
	case 8:
		g.emit(fmt.Sprintf("verify i=%d ok=1", g.anyNode()))
	}
}

func genScript(g *gctx, tier string) {
	r := g.r
	k := 2 + r.Intn(5)
	if r.Chance(4) {
		k = 1
	}
	if r.Chance(3) {
		k = 0
	}
	tx := 1
	if r.Chance(5) {
		tx = 0
	}
	g.emit(fmt.Sprintf("init nodes=%d tx=%d", k, tx))
	g.stats[fmt.Sprintf("nodes:%d", k)]++
	for i := 0; i < k; i++ {
		g.nodes = append(g.nodes, &gnode{stage: 'f'})
	}
	scenario := r.Pick(54, 11, 13, 13, 9)
	if k < 2 && scenario == 4 {
		scenario = 0
	}
	stages := []string{"fresh", "hs", "hsfail", "ready", "busy", "stopped", "dropped", "stoppedearly"}
	weights := []int{12, 15, 7, 42, 10, 5, 4, 5}
	switch scenario {
	case 1: // nobody available
		weights = []int{20, 25, 10, 0, 25, 8, 6, 6}
		g.stats["scenario:all-unavailable"]++
	case 2: // mostly ready: round robin
		weights = []int{3, 3, 2, 80, 4, 4, 2, 2}
		g.stats["scenario:round-robin"]++
	case 3: // stopped nodes between ready ones
		weights = []int{4, 6, 10, 40, 5, 18, 10, 7}
		g.stats["scenario:stopped-in-scan"]++
	case 4: // every node ready and at the top of the chain; one node after the other is caught between Stop() and the end of its run()
		g.stats["scenario:closing-window"]++
		for i := 0; i < k; i++ {
			g.emit(fmt.Sprintf("hs i=%d", i))
			g.emit(fmt.Sprintf("verify i=%d ok=1", i))
			g.emit(fmt.Sprintf("announce i=%d b=%d", i, 8+r.Intn(2)))
			g.nodes[i].stage = 'v'
		}
		if tx == 1 {
			for j := 0; j < 3; j++ {
				g.addtx()
			}
		}
		for round := 0; round < 3+r.Intn(4); round++ {
			ready := 0
			for _, n := range g.nodes {
				if n.stage == 'v' && !n.busy {
					ready++
				}
			}
			if ready < 2 && len(g.nodes) < maxNodes {
				i := len(g.nodes)
				g.emit("add")
				g.nodes = append(g.nodes, &gnode{stage: 'v'})
				g.emit(fmt.Sprintf("hs i=%d", i))
				g.emit(fmt.Sprintf("verify i=%d ok=1", i))
				g.emit(fmt.Sprintf("announce i=%d b=9", i))
			}
			kk := g.pick(func(n *gnode) bool { return n.stage == 'v' && !n.busy })
			if kk < 0 {
				break
			}
			switch r.Pick(40, 30, 20, 10) {
			case 0:
				g.emit(fmt.Sprintf("reqblock b=%d close=%d", r.Intn(8), kk))
				if bi := g.pick(func(n *gnode) bool { return n.stage == 'v' && n.busy }); bi >= 0 && r.Chance(50) {
					g.emit(fmt.Sprintf("deliver i=%d", bi))
				}
			case 1:
				g.emit(fmt.Sprintf("reqheaders close=%d", kk))
			case 2:
				g.emit(fmt.Sprintf("reqtxs close=%d", kk))
				if tx == 1 {
					g.addtx()
				}
			case 3:
				g.emit(fmt.Sprintf("sendtx close=%d", kk))
			}
			g.nodes[kk].stage = 'x'
			g.stats["closing-window"]++
			if r.Chance(40) {
				g.emit("reqheaders")
			}
		}
		for j := 0; j < 3; j++ {
			g.emit("reqheaders")
		}
		return
	default:
		g.stats["scenario:mixed"]++
	}
	order := r.Intn(2) // set the nodes up front to back or back to front
	for j := 0; j < k; j++ {
		i := j
		if order == 1 {
			i = k - 1 - j
		}
		t := stages[r.Pick(weights...)]
		g.stats["setup:"+t]++
		g.toStage(i, t)
	}
	if tx == 1 && k > 0 {
		for j := r.Intn(4); j > 0; j-- {
			g.addtx()
		}
	}
	n := 6 + r.Intn(14)
	if tier == "thorough" {
		n = 8 + r.Intn(32)
	}
	if k == 0 {
		n = 4
	}
	if scenario == 2 && k > 0 { // many consecutive requests: the offset wraps around several times
		for j := 0; j < 2*k+3; j++ {
			if r.Chance(70) {
				g.emit("reqheaders")
			} else {
				g.request()
			}
		}
	}
	hostileW := 7
	if g.c15 {
		hostileW = 22
	}
	for j := 0; j < n; j++ {
		if k == 0 {
			g.request()
			continue
		}
		switch r.Pick(50, 22, hostileW, 6, 2) {
		case 0:
			g.request()
		case 1:
			g.stageChange()
		case 2:
			g.hostile()
			if g.c15 { // what the clause is about: routing goes on after the hostile bytes
				g.request()
			}
		case 3:
			if tx == 1 {
				g.addtx()
			}
		case 4:
			g.emit("ping")
		}
	}
	// a full round at the end: every node that is still available is asked once more
	for j := 0; j <= len(g.nodes) && j < 4; j++ {
		g.emit("reqheaders")
	}
}

func gen(seed uint64, n int, tier string, profile string) {
	stats := map[string]int{}
	for s := 0; s < n; s++ {
		g := &gctx{r: hx.NewRng(seed*1000003 + uint64(s)*7919 + 17), stats: stats, c15: profile == "c15"}
		genScript(g, tier)
		for _, l := range g.lines {
			fmt.Println(l)
		}
	}
	keys := make([]string, 0, len(stats))
	for k := range stats {
		keys = append(keys, k)
	}
	sort.Strings(keys)
	fmt.Printf("# distribution over %d scripts (profile %s, tier %s)\n", n, profile, tier)
	line := "#"
	for _, k := range keys {
		item := fmt.Sprintf(" %s=%d", k, stats[k])
		if len(line)+len(item) > 150 {
			fmt.Println(line)
			line = "#"
		}
		line += item
	}
	fmt.Println(line)
}
