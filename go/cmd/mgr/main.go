// Command mgr is the correspondence harness for the request routing of NodeManager (C13) and for
// the "other connections are unaffected" clause of C15: a REAL NodeManager whose node list holds
// REAL BitcoinNodes (hook VerifAddNode), each run over its own in-process connection
// (RunWithConn over net.Pipe) to a scripted peer that performs the handshake, answers or fails the
// chain verification, announces headers, delivers blocks, or turns hostile.
//
//	mgr run                      < scripts > observations
//	mgr gen <seed> <n> <tier> [c13|c15]
//
// Ops (one observation line per op; every observation ends with the common tail
// `got=[idx:what,..] nodes=[scan order] off=<nextNodeOffset> gt=<stage per node> sync=<per node>`):
//
//	init nodes=K tx=1|0           K fresh nodes under the manager (tx=0: no TxManager)
//	add                           one more fresh node (as FindByScore appends)
//	hs i=k                        peer k sends version+verack                => ok got=[k:ghver]
//	verify i=k ok=1|0             peer k answers the verify request with a header VerifyHeader accepts / rejects
//	announce i=k b=<id>|e         peer k sends a headers message (one header / none): lastHeaderHash
//	busy i=k b=<id>               BitcoinNode.RequestBlock directly on node k   => r=ok|busy
//	deliver i=k                   peer k delivers the block node k asked for
//	stop i=k | drop i=k           Stop() on the node / the peer hangs up; waits for Run to return
//	addtx t=<id> from=[a,b,..]    TxManager.AddTxID(node a), then b, .. (b.. are remembered for a later request)
//	reqheaders | reqtxs | reqblock b=<id> | sendtx   [close=k]    the four routing calls
//	hostile i=k kind=garbage|magic|oversize|cut|badheaders|rejecthdr|badck|unknown
//	ping                          barrier only
//
// Written INTO THE OP TEXT by `run` (inputs of the model's replay): for routing ops `fl=[..]`, per
// node 1=IsReady 2=IsBusy 4=IsStopped 8=HasBlock(b) 16=outgoing channel closed, read just before the
// call; for hostile ops `out=closed|alive` (what the node did with the bytes).
// Independent of those flags: `gt=` is the stage of every node as the harness knows it from what the
// node's PEER sent (f fresh, h handshake done, v verification header accepted, x connection ended),
// `got=` is what the scripted peers received during the op (ghver / ghinit = the node's own verify
// and initial getheaders, told apart from a routed `ghreq` by the locator the spy repository hands
// out), `sync=` says for every node whether its connection answered this op's barrier ping with the
// right pong (1), did not (0), or is closed (-).
//
// Waiting is patient (hx.Until budgets are charged at most 2 ms per 1 ms nap): a loaded machine
// makes the run slower, never different. Two clock-dependent things are guarded instead of trusted:
// the 3 s handshake timer of a fresh node (the peer repeats its version message before it can
// fire) and the TxManager request timeout (every entry is left to ripen before RequestTxs; a call
// that took longer than the timeout, like an AddTxID sequence that did, marks the script doubtful
// and it is run again).
package main

import (
	"bytes"
	"context"
	"crypto/sha256"
	"encoding/binary"
	"fmt"
	"io"
	"net"
	"os"
	"runtime"
	"sort"
	"strconv"
	"strings"
	"sync"
	"sync/atomic"
	"time"

	"brvharness/internal/hx"

	"github.com/google/uuid"
	"github.com/pkg/errors"
	"github.com/tokenized/bitcoin_reader"
	"github.com/tokenized/config"
	"github.com/tokenized/pkg/bitcoin"
	"github.com/tokenized/pkg/wire"
)

const (
	txTimeout  = 20 * time.Millisecond
	txMargin   = 6 * time.Millisecond
	longWait   = 4 * time.Second // patient budget for things that must happen
	routeWait  = 8 * time.Second // patient budget for a routing call to return
	probeWait  = 1500 * time.Millisecond
	maxNodes   = 8
	tipID      = 4
	pingBase   = uint64(0xB0B0000000)
	goodNonce  = uint32(0x6D000000)
	wrongNonce = uint32(0x11000000)
	badNonce   = uint32(0xBD000000)
)

var magic = []byte{0xe3, 0xe1, 0xf3, 0xe8}

func sha256d(b []byte) []byte {
	a := sha256.Sum256(b)
	c := sha256.Sum256(a[:])
	return c[:]
}

func le32(v uint32) []byte { b := make([]byte, 4); binary.LittleEndian.PutUint32(b, v); return b }
func le64(v uint64) []byte { b := make([]byte, 8); binary.LittleEndian.PutUint64(b, v); return b }

func varint(n uint64) []byte {
	var b bytes.Buffer
	wire.WriteVarInt(&b, wire.ProtocolVersion, n)
	return b.Bytes()
}

func frameWith(m []byte, cmd string, payload []byte, length uint32, ck []byte) []byte {
	out := append([]byte{}, m...)
	c := make([]byte, 12)
	copy(c, cmd)
	out = append(out, c...)
	out = append(out, le32(length)...)
	out = append(out, ck...)
	return append(out, payload...)
}

func frame(cmd string, payload []byte) []byte {
	return frameWith(magic, cmd, payload, uint32(len(payload)), sha256d(payload)[:4])
}

func versionPayload() []byte {
	me := wire.NewNetAddressIPPort(net.IPv4(10, 0, 0, 1), 8333, 1)
	you := wire.NewNetAddressIPPort(net.IPv4(10, 0, 0, 2), 8333, 1)
	v := wire.NewMsgVersion(me, you, 0x1122334455667788, 700000)
	v.UserAgent = "/peer:0.1/"
	var b bytes.Buffer
	v.BtcEncode(&b, wire.ProtocolVersion)
	return b.Bytes()
}

// header80 is the header of block `id` of the harness's table (nonce top byte 0x6D: the spy's
// VerifyHeader accepts it), or a header with another nonce.
func header80(id int, nonce uint32) []byte {
	h := make([]byte, 80)
	binary.LittleEndian.PutUint32(h[0:], 0x20000000)
	for i := 4; i < 68; i++ {
		h[i] = byte(id*7 + i)
	}
	binary.LittleEndian.PutUint32(h[68:], 1700000000)
	binary.LittleEndian.PutUint32(h[72:], 0x18021fdb)
	binary.LittleEndian.PutUint32(h[76:], nonce|uint32(id))
	return h
}

// heightOf is the table of the spy repository (Model/Mgr.lean `heightOf`).
func heightOf(id int) int {
	if id >= 0 && id < 10 {
		return 100 + id
	}
	if id >= 10 && id < 15 {
		return 92 + id
	}
	return -1
}

const tableSize = 30

var (
	blockHash [tableSize]bitcoin.Hash32
	hashBlock = map[bitcoin.Hash32]int{}
)

func init() {
	for id := 0; id < tableSize; id++ {
		copy(blockHash[id][:], sha256d(header80(id, goodNonce)))
		hashBlock[blockHash[id]] = id
	}
}

func txHash(t int) bitcoin.Hash32 {
	var h bitcoin.Hash32
	h[0] = byte(t)
	h[1] = byte(t >> 8)
	h[31] = 0x77
	return h
}

// ---- spies ----

type hdrSpy struct{ ch chan *wire.BlockHeader }

func (h *hdrSpy) GetNewHeadersAvailableChannel() <-chan *wire.BlockHeader { return h.ch }
func (h *hdrSpy) Height() int                                             { return 700000 }
func (h *hdrSpy) Hash(ctx context.Context, height int) (*bitcoin.Hash32, error) {
	return &bitcoin.Hash32{}, nil
}
func (h *hdrSpy) HashHeight(hash bitcoin.Hash32) int {
	if id, ok := hashBlock[hash]; ok {
		return heightOf(id)
	}
	return -1
}
func (h *hdrSpy) LastHash() bitcoin.Hash32                           { return blockHash[tipID] }
func (h *hdrSpy) LastTime() uint32                                   { return 1600000000 }
func (h *hdrSpy) PreviousHash(bitcoin.Hash32) (*bitcoin.Hash32, int) { return nil, -1 }

// the first locator hash tells the peer which of the node's three header requests it is looking at
func (h *hdrSpy) GetLocatorHashes(ctx context.Context, max int) ([]bitcoin.Hash32, error) {
	if max == 3 { // sendHeaderRequest: the request routed by NodeManager.RequestHeaders
		return []bitcoin.Hash32{{3}, blockHash[tipID]}, nil
	}
	return []bitcoin.Hash32{{0x10}, blockHash[tipID]}, nil // sendInitialHeaderRequest
}
func (h *hdrSpy) GetVerifyOnlyLocatorHashes(ctx context.Context) ([]bitcoin.Hash32, error) {
	return []bitcoin.Hash32{{2}}, nil
}
func (h *hdrSpy) VerifyHeader(ctx context.Context, header *wire.BlockHeader) error {
	if header.Nonce>>24 == 0x6D {
		return nil
	}
	return fmt.Errorf("unknown header")
}
func (h *hdrSpy) ProcessHeader(ctx context.Context, header *wire.BlockHeader) error {
	if header.Nonce>>24 == 0xBD {
		return fmt.Errorf("bad header")
	}
	return nil
}
func (h *hdrSpy) Stop(ctx context.Context) {}

type peerSpy struct{}

func (p *peerSpy) Add(ctx context.Context, address string) (bool, error) { return true, nil }
func (p *peerSpy) Get(ctx context.Context, minScore, maxScore int32) (bitcoin_reader.PeerList, error) {
	return bitcoin_reader.PeerList{}, nil
}
func (p *peerSpy) UpdateTime(ctx context.Context, address string) bool               { return true }
func (p *peerSpy) UpdateScore(ctx context.Context, address string, delta int32) bool { return true }

// ---- scripted peer ----

type rmsg struct {
	cmd     string
	payload []byte
}

var news = make(chan struct{}, 1)

func poke() {
	select {
	case news <- struct{}{}:
	default:
	}
}

// napHook runs in every round of a wait: it keeps the handshake timers of fresh nodes from firing
// however long an op takes.
var napHook func()

// until is hx.Until that also wakes on news from a reader goroutine.
// exhausted counts the long waits that ran out: an implementation that answers nothing any more (a broken
// send path, say) has shown that after a few dozen of them, and the rest of the run is then given a tenth of
// the budgets so that reporting it does not take an hour.
var exhausted int

func until(budget time.Duration, cond func() bool) bool {
	long := budget >= time.Second
	if long && exhausted > 30 {
		budget /= 10
	}
	defer func() {
		if long && !cond() {
			exhausted++
		}
	}()
	for budget > 0 {
		if cond() {
			return true
		}
		if napHook != nil {
			napHook()
		}
		t0 := time.Now()
		select {
		case <-news:
		case <-time.After(time.Millisecond):
		}
		el := time.Since(t0)
		if el > 2*time.Millisecond {
			el = 2 * time.Millisecond
		}
		if el <= 0 {
			el = time.Microsecond
		}
		budget -= el
	}
	return cond()
}

type peer struct {
	idx       int
	node      *bitcoin_reader.BitcoinNode
	conn      net.Conn
	interrupt chan interface{}
	done      chan struct{}

	mu     sync.Mutex
	recv   []rmsg
	taken  int
	closed bool // the reader saw the end of the connection, or the peer hung up itself

	stalled int32 // the peer has stopped reading (atomic)
	wedged  int32 // a write to the node timed out (atomic)
	silent  bool  // missed a barrier ping once

	stage  byte      // ground truth from what this peer sent: f h v x
	lastHs time.Time // when the node's handshake timer was last restarted
	onStop int64
}

func (p *peer) reader() {
	for {
		for atomic.LoadInt32(&p.stalled) == 1 && !p.isClosed() {
			time.Sleep(time.Millisecond)
		}
		hdr := make([]byte, 24)
		if _, err := io.ReadFull(p.conn, hdr); err != nil {
			break
		}
		n := binary.LittleEndian.Uint32(hdr[16:20])
		if n > 1<<24 {
			break
		}
		pl := make([]byte, n)
		if _, err := io.ReadFull(p.conn, pl); err != nil {
			break
		}
		cmd := string(bytes.TrimRight(hdr[4:16], "\x00"))
		p.mu.Lock()
		p.recv = append(p.recv, rmsg{cmd, pl})
		p.mu.Unlock()
		poke()
	}
	p.mu.Lock()
	p.closed = true
	p.mu.Unlock()
	poke()
}

func (p *peer) isClosed() bool {
	p.mu.Lock()
	defer p.mu.Unlock()
	return p.closed
}

func (p *peer) send(b []byte) bool {
	if p.isClosed() || atomic.LoadInt32(&p.wedged) == 1 {
		return false
	}
	// the write returns when the node has read the bytes; it is waited for with a patient budget (3 s of harness
	// running time) and then cut off
	p.conn.SetWriteDeadline(time.Time{})
	res := make(chan error, 1)
	go func() { _, err := p.conn.Write(b); res <- err }()
	var err error
	fast := false
	select {
	case err = <-res:
		fast = true
	case <-time.After(2 * time.Millisecond):
	}
	if fast {
	} else if hx.Until(3*time.Second, func() bool { return len(res) > 0 }) {
		err = <-res
	} else {
		p.conn.SetWriteDeadline(time.Now())
		err = <-res
		if err == nil {
			err = fmt.Errorf("late")
		}
	}
	if err != nil {
		// the node does not take our bytes any more (its read loop is stuck): pay for that once, not at every
		// barrier ping of the rest of the script; the connection shows as silent from here on
		atomic.StoreInt32(&p.wedged, 1)
	}
	return err == nil
}

func (p *peer) hangUp() {
	p.conn.Close()
	p.mu.Lock()
	p.closed = true
	p.mu.Unlock()
}

func (p *peer) has(f func(m rmsg) bool) bool {
	p.mu.Lock()
	defer p.mu.Unlock()
	for _, m := range p.recv[p.taken:] {
		if f(m) {
			return true
		}
	}
	return false
}

func (p *peer) hasPong(nonce uint64) bool {
	return p.has(func(m rmsg) bool {
		return m.cmd == "pong" && len(m.payload) == 8 && binary.LittleEndian.Uint64(m.payload) == nonce
	})
}

func (p *peer) runReturned() bool {
	select {
	case <-p.done:
		return true
	default:
		return false
	}
}

// classify turns a message the peer received into the token reported in `got=` ("" = session chatter).
func classify(m rmsg) []string {
	switch m.cmd {
	case "version", "verack", "protoconf", "sendheaders", "getaddr", "addr", "ping", "pong":
		return nil
	case "getheaders":
		r := bytes.NewReader(m.payload)
		var ver uint32
		binary.Read(r, binary.LittleEndian, &ver)
		cnt, err := wire.ReadVarInt(r, wire.ProtocolVersion)
		first := make([]byte, 32)
		if err != nil || cnt == 0 {
			return []string{"gh?"}
		}
		io.ReadFull(r, first)
		switch first[0] {
		case 2:
			return []string{"ghver"}
		case 0x10:
			return []string{"ghinit"}
		case 3:
			return []string{"ghreq"}
		}
		return []string{"gh?"}
	case "getdata":
		r := bytes.NewReader(m.payload)
		cnt, err := wire.ReadVarInt(r, wire.ProtocolVersion)
		if err != nil {
			return []string{"gd?"}
		}
		var out []string
		var txs []int
		for i := uint64(0); i < cnt; i++ {
			var typ uint32
			var h bitcoin.Hash32
			if binary.Read(r, binary.LittleEndian, &typ) != nil {
				return []string{"gd?"}
			}
			if _, err := io.ReadFull(r, h[:]); err != nil {
				return []string{"gd?"}
			}
			if typ == uint32(wire.InvTypeBlock) {
				if id, ok := hashBlock[h]; ok {
					out = append(out, "gdb"+strconv.Itoa(id))
				} else {
					out = append(out, "gdb?")
				}
			} else {
				txs = append(txs, int(h[0])|int(h[1])<<8)
			}
		}
		if len(txs) > 0 {
			sort.Ints(txs)
			ss := make([]string, len(txs))
			for i, t := range txs {
				ss[i] = strconv.Itoa(t)
			}
			out = append(out, "gdt"+strings.Join(ss, "."))
		}
		return out
	case "tx":
		return []string{"tx"}
	}
	return []string{"other." + m.cmd}
}

// lastBlockAsked is the block id of the last getdata(block) this peer has seen (-1: none).
func (p *peer) lastBlockAsked() int {
	p.mu.Lock()
	defer p.mu.Unlock()
	for i := len(p.recv) - 1; i >= 0; i-- {
		if p.recv[i].cmd != "getdata" {
			continue
		}
		for _, t := range classify(p.recv[i]) {
			if strings.HasPrefix(t, "gdb") && t != "gdb?" {
				id, _ := strconv.Atoi(t[3:])
				return id
			}
		}
	}
	return -1
}

// ---- world ----

type world struct {
	ctx       context.Context
	cfg       *bitcoin_reader.Config
	hdr       *hdrSpy
	mgr       *bitcoin_reader.NodeManager
	txm       *bitcoin_reader.TxManager
	peers     []*peer
	byID      map[uuid.UUID]int
	seq       uint64
	txs       map[int]bool
	stamp     time.Time // no tx entry was stamped after this instant
	doubt     bool
	hung      bool // a routing call did not return
	panicText string
}

func newWorld(withTx bool) *world {
	w := &world{ctx: hx.Ctx(), hdr: &hdrSpy{ch: make(chan *wire.BlockHeader)}, byID: map[uuid.UUID]int{}, txs: map[int]bool{}}
	w.cfg = &bitcoin_reader.Config{Network: bitcoin.MainNet, Timeout: config.NewDuration(time.Hour),
		TxRequestCount: 10000, DesiredNodeCount: 50, ScanCount: 100}
	w.mgr = bitcoin_reader.NewNodeManager("/brv:0.1/", w.cfg, w.hdr, &peerSpy{})
	napHook = w.tickle
	if withTx {
		w.txm = bitcoin_reader.NewTxManager(txTimeout)
		w.mgr.SetTxManager(w.txm)
	}
	return w
}

func (w *world) addNode() bool {
	if len(w.peers) >= maxNodes {
		return false
	}
	idx := len(w.peers)
	a, b := net.Pipe()
	p := &peer{idx: idx, conn: b, interrupt: make(chan interface{}), done: make(chan struct{}), stage: 'f', lastHs: time.Now()}
	p.node = bitcoin_reader.NewBitcoinNode(fmt.Sprintf("10.0.0.%d:8333", idx+1), "/brv:0.1/", w.cfg, w.hdr, &peerSpy{})
	if w.txm != nil {
		p.node.SetTxManager(w.txm) // as FindByScore does
	}
	w.byID[p.node.ID()] = idx
	w.peers = append(w.peers, p)
	go func() {
		p.node.RunWithConn(w.ctx, a, p.interrupt)
		close(p.done)
		poke()
	}()
	go p.reader()
	w.mgr.VerifAddNode(p.node)
	until(longWait, func() bool { return p.has(func(m rmsg) bool { return m.cmd == "version" }) })
	p.lastHs = time.Now()
	return true
}

func (w *world) finish() {
	napHook = nil
	for _, p := range w.peers {
		p.hangUp()
	}
	for _, p := range w.peers {
		until(longWait, p.runReturned)
		close(p.interrupt)
	}
}

// tickle restarts the 3 s handshake timer of nodes whose peer has not completed the handshake.
func (w *world) tickle() {
	for _, p := range w.peers {
		if p.stage == 'f' && !p.isClosed() {
			el := time.Since(p.lastHs)
			if el > 2500*time.Millisecond {
				w.doubt = true // the timer may have fired already
			}
			if el > 1200*time.Millisecond {
				p.send(frame("version", versionPayload()))
				p.lastHs = time.Now()
			}
		}
	}
}

// barrier pings every open connection and waits for the pongs: everything a node queued for its
// peer before the ping was handled has arrived then (the outgoing channel is FIFO).
func (w *world) barrier() string {
	w.seq++
	nonce := pingBase + w.seq
	for _, p := range w.peers {
		if !p.isClosed() {
			p.send(frame("ping", le64(nonce)))
		}
	}
	until(longWait, func() bool {
		for _, p := range w.peers {
			// a connection that already missed a barrier is not waited for again (it is reported silent each time;
			// waiting the whole budget for it at every op of the script would only cost time)
			if !p.isClosed() && !p.silent && !p.hasPong(nonce) {
				return false
			}
		}
		return true
	})
	var sb strings.Builder
	for _, p := range w.peers {
		switch {
		case p.hasPong(nonce):
			sb.WriteByte('1')
		case p.isClosed():
			sb.WriteByte('-')
		default:
			sb.WriteByte('0')
			p.silent = true
		}
	}
	return sb.String()
}

// tail runs the barrier and renders the common end of every observation.
func (w *world) tail() string {
	sync := w.barrier()
	var got []string
	for _, p := range w.peers {
		p.mu.Lock()
		msgs := p.recv[p.taken:]
		p.taken = len(p.recv)
		p.mu.Unlock()
		var toks []string
		for _, m := range msgs {
			toks = append(toks, classify(m)...)
		}
		sort.Strings(toks)
		for _, t := range toks {
			got = append(got, fmt.Sprintf("%d:%s", p.idx, t))
		}
	}
	ids, off := w.mgr.VerifNodes()
	order := make([]int, len(ids))
	for i, id := range ids {
		if idx, ok := w.byID[id]; ok {
			order[i] = idx
		} else {
			order[i] = 99
		}
	}
	var gt strings.Builder
	for _, p := range w.peers {
		gt.WriteByte(p.stage)
	}
	return fmt.Sprintf("got=%s nodes=%s off=%d gt=%s sync=%s", hx.List(got), hx.IntList(order), off, gt.String(), sync)
}

func (w *world) flags(b int) []int {
	out := make([]int, len(w.peers))
	for i, p := range w.peers {
		f := 0
		if p.node.IsReady() {
			f |= 1
		}
		if p.node.IsBusy() {
			f |= 2
		}
		if p.node.IsStopped() {
			f |= 4
		}
		if b >= 0 && b < tableSize && heightOf(b) >= 0 && p.node.HasBlock(w.ctx, blockHash[b], heightOf(b)) {
			f |= 8
		}
		out[i] = f
	}
	return out
}

func maskFlags(fl []int) []int {
	out := make([]int, len(fl))
	for i, f := range fl {
		out[i] = f &^ 16
	}
	return out
}

func errClass(err error) string {
	switch {
	case err == nil:
		return "nil"
	case errors.Cause(err) == bitcoin_reader.ErrNodeNotAvailable:
		return "notavail"
	case strings.HasPrefix(err.Error(), "Block not in headers"):
		return "noheader"
	}
	return "other"
}

func minInt64(a, b int64) int64 {
	if a < b {
		return a
	}
	return b
}

func (w *world) peerOf(a hx.Args) *peer {
	k, ok := a.Uint("i")
	if !ok || int(k) >= len(w.peers) {
		return nil
	}
	return w.peers[k]
}

func (w *world) waitRun(p *peer) string {
	if until(longWait, p.runReturned) {
		return "returned"
	}
	return "hung"
}

func blockHandler(ctx context.Context, header *wire.BlockHeader, txCount uint64, txChannel <-chan *wire.MsgTx) error {
	for range txChannel {
	}
	return nil
}

// ---- the closing window ----

// parkedInManager reports whether a goroutine is parked on a mutex below NodeManager.nextNode / SendTx
// (it waits in IsBusy for the node lock the harness holds).
var dumpBuf = make([]byte, 1<<18)

func parkedInManager() bool {
	n := runtime.Stack(dumpBuf, true)
	for n >= len(dumpBuf) {
		dumpBuf = make([]byte, 2*len(dumpBuf))
		n = runtime.Stack(dumpBuf, true)
	}
	for _, blk := range strings.Split(string(dumpBuf[:n]), "\n\n") {
		if !strings.HasPrefix(blk, "goroutine ") {
			continue
		}
		i := strings.IndexByte(blk, '[')
		j := strings.IndexByte(blk, ']')
		if i < 0 || j < i {
			continue
		}
		st := blk[i+1 : j]
		if k := strings.IndexByte(st, ','); k >= 0 {
			st = st[:k]
		}
		if (st == "sync.Mutex.Lock" || st == "semacquire") && strings.Contains(blk, "(*BitcoinNode).IsBusy") &&
			(strings.Contains(blk, "(*NodeManager).nextNode") || strings.Contains(blk, "(*NodeManager).SendTx")) {
			return true
		}
	}
	return false
}

// routed runs one routing call. With a closing node k (ready, idle, open connection): Stop() is
// called on it and its mutex is taken at once, which keeps its run() from clearing isReady; the
// routing call is started, and when it is parked on that mutex (in IsBusy) the mutex is released:
// the call then meets a node that passed IsReady but whose outgoing channel is closed.
func (w *world) routed(closing *peer, call func()) bool {
	done := make(chan struct{})
	go func() {
		defer close(done)
		defer func() {
			if r := recover(); r != nil {
				w.panicText = strings.ReplaceAll(fmt.Sprint(r), " ", "_")
			}
		}()
		call()
	}()
	finished := func() bool {
		select {
		case <-done:
			return true
		default:
			return false
		}
	}
	if closing != nil {
		until(longWait, func() bool { return finished() || parkedInManager() })
		closing.node.Unlock()
	}
	if !until(routeWait, finished) {
		w.hung = true // the call still holds the manager's mutex: nothing more can be observed in this process
		return false
	}
	if closing != nil {
		until(longWait, closing.runReturned)
		closing.mu.Lock()
		closing.closed = true
		closing.mu.Unlock()
		closing.stage = 'x'
	}
	return true
}

// tryClose puts node k into the closing window if that gives a deterministic outcome: k is verified,
// idle and in sync, and another node would be selectable after it (so the retry never comes back to k).
func (w *world) tryClose(a hx.Args, fl []int, needBlock bool) *peer {
	k, ok := a.Uint("close")
	if !ok || int(k) >= len(w.peers) {
		return nil
	}
	p := w.peers[k]
	want := 1
	if needBlock {
		want |= 8
	}
	if p.stage != 'v' || p.isClosed() || fl[k]&7 != 1 {
		return nil
	}
	other := false
	for i, f := range fl {
		if i != int(k) && w.peers[i].stage == 'v' && f&7 == 1 && f&want == want {
			other = true
		}
	}
	if !other {
		return nil
	}
	p.node.Stop(w.ctx)
	p.node.Lock()
	if !p.node.IsReady() { // run() was quicker: the node is simply stopping
		p.node.Unlock()
		w.doubt = true
		until(longWait, p.runReturned)
		p.mu.Lock()
		p.closed = true
		p.mu.Unlock()
		p.stage = 'x'
		return nil
	}
	fl[k] |= 16
	return p
}

// ---- ops ----

func (w *world) step(op string) string {
	verb, a := hx.Parse(op)
	w.tickle()
	res := "skip"
	switch verb {
	case "add":
		if w.addNode() {
			res = "ok"
		}
	case "ping":
		res = "ok"
	case "hs":
		p := w.peerOf(a)
		if p == nil || p.stage != 'f' || p.isClosed() {
			break
		}
		p.send(append(frame("version", versionPayload()), frame("verack", nil)...))
		p.lastHs = time.Now()
		p.stage = 'h'
		until(longWait, func() bool {
			return p.isClosed() || p.has(func(m rmsg) bool { return m.cmd == "getheaders" })
		})
		res = "ok"
	case "verify":
		p := w.peerOf(a)
		if p == nil || p.stage != 'h' || p.isClosed() {
			break
		}
		if a["ok"] == "1" {
			p.send(frame("headers", append(varint(1), append(header80(tipID, goodNonce), 0)...)))
			p.stage = 'v'
			until(longWait, func() bool { return p.isClosed() || p.has(func(m rmsg) bool { return m.cmd == "addr" }) })
			res = "ok"
		} else {
			p.send(frame("headers", append(varint(1), append(header80(tipID, wrongNonce), 0)...)))
			p.stage = 'x'
			res = "ok run=" + w.waitRun(p)
		}
	case "announce":
		p := w.peerOf(a)
		if p == nil || p.stage != 'v' || p.isClosed() {
			break
		}
		if a["b"] == "e" {
			p.send(frame("headers", varint(0)))
			res = "ok"
		} else if b, ok := a.Uint("b"); ok && b < tableSize {
			p.send(frame("headers", append(varint(1), append(header80(int(b), goodNonce), 0)...)))
			res = "ok"
		}
	case "busy":
		p := w.peerOf(a)
		b, ok := a.Uint("b")
		if p == nil || p.stage == 'x' || p.isClosed() || !ok || b >= tableSize {
			break
		}
		err := p.node.RequestBlock(w.ctx, blockHash[b], blockHandler, func(context.Context) { atomic.AddInt64(&p.onStop, 1) })
		switch {
		case err == nil:
			res = "r=ok"
		case errors.Cause(err) == bitcoin_reader.ErrBusy:
			res = "r=busy"
		default:
			res = "r=err"
		}
	case "deliver":
		p := w.peerOf(a)
		if p == nil || p.stage == 'x' || p.isClosed() || !p.node.IsBusy() {
			break
		}
		id := p.lastBlockAsked()
		if id < 0 {
			break
		}
		p.send(frame("block", append(header80(id, goodNonce), 0)))
		if until(longWait, func() bool { return p.isClosed() || !p.node.IsBusy() }) && !p.node.IsBusy() {
			res = "ok"
		} else {
			res = "stillbusy"
		}
	case "stop", "drop":
		p := w.peerOf(a)
		if p == nil || p.stage == 'x' {
			break
		}
		if verb == "stop" {
			p.node.Stop(w.ctx)
		} else {
			p.hangUp()
		}
		p.stage = 'x'
		res = "ok run=" + w.waitRun(p)
		p.mu.Lock()
		p.closed = true
		p.mu.Unlock()
	case "stallstop":
		// a peer that stops reading and floods pings: the pongs fill the node's outgoing queue (1000) and the next
		// sender parks on it — here NodeManager.SendTx, outside any recover. Then the node is stopped. A sender
		// parked on the queue must be released, not hit by the close of the queue.
		p := w.peerOf(a)
		n, _ := a.Uint("n")
		if p == nil || p.stage != 'v' || p.isClosed() || n < 1000 || n > 5000 {
			break
		}
		atomic.StoreInt32(&p.stalled, 1)
		var wrote int64
		floodDone := make(chan struct{})
		go func() {
			defer close(floodDone)
			for i := uint64(0); i < n; i++ {
				p.conn.SetWriteDeadline(time.Now().Add(30 * time.Second))
				if _, err := p.conn.Write(frame("ping", le64(900000+i))); err != nil {
					return
				}
				atomic.AddInt64(&wrote, 1)
			}
		}()
		// until the flood makes no progress any more (the node's read loop is parked behind its full queue)
		last, idle := int64(-1), time.Duration(0)
		until(20*time.Second, func() bool {
			cur := atomic.LoadInt64(&wrote)
			if cur != last {
				last, idle = cur, 0
				return false
			}
			idle += time.Millisecond
			return idle >= 60*time.Millisecond || cur == int64(n)
		})
		tx := wire.NewMsgTx(1)
		tx.AddTxOut(wire.NewTxOut(0, bitcoin.Script([]byte{0x00, 0x6a, 0x01, 0x43})))
		sendRes := make(chan string, 1)
		go func() {
			defer func() {
				if r := recover(); r != nil {
					sendRes <- "panic"
				}
			}()
			w.mgr.SendTx(w.ctx, tx)
			sendRes <- "ok"
		}()
		until(60*time.Millisecond, func() bool { return len(sendRes) > 0 })
		stopDone := make(chan struct{})
		go func() { p.node.Stop(w.ctx); close(stopDone) }()
		stop := "ok"
		if !until(routeWait, func() bool {
			select {
			case <-stopDone:
				return true
			default:
				return false
			}
		}) {
			stop = "hung" // Stop waits for ever (for the queue's lock, say): nothing more can be observed on this node
			w.hung = true
		}
		p.stage = 'x'
		st := "hung"
		if stop == "ok" && until(routeWait, func() bool { return len(sendRes) > 0 }) {
			st = <-sendRes
		} else {
			w.hung = true
		}
		p.conn.Close()
		<-floodDone
		run := "hung"
		if stop == "ok" {
			run = w.waitRun(p)
		}
		res = fmt.Sprintf("wrote=%d stop=%s sendtx=%s run=%s", minInt64(atomic.LoadInt64(&wrote), 1001), stop, st, run)
		atomic.StoreInt32(&p.stalled, 0)
		p.mu.Lock()
		p.closed = true
		p.mu.Unlock()
	case "addtx":
		t, ok := a.Uint("t")
		from, ok2 := a.NatList("from")
		if !ok || !ok2 || len(from) == 0 || w.txm == nil {
			break
		}
		bad := false
		for _, i := range from {
			if i >= len(w.peers) {
				bad = true
			}
		}
		if bad {
			break
		}
		if w.txs[int(t)] {
			res = "dup"
			break
		}
		w.txs[int(t)] = true
		for n, i := range from {
			fresh, _ := w.txm.AddTxID(w.ctx, w.peers[i].node.ID(), txHash(int(t)))
			if fresh != (n == 0) {
				w.doubt = true // the sequence straddled the request timeout
			}
		}
		w.stamp = time.Now()
		res = "ok"
	case "hostile":
		return w.hostile(op, a)
	case "reqheaders", "reqtxs", "reqblock", "sendtx":
		return w.route(verb, op, a)
	}
	if w.hung {
		// a call is stuck with the manager's mutex held (or a Stop never returned): the common tail would take that
		// mutex; the run ends here
		return op + " => " + res
	}
	return op + " => " + res + " " + w.tail()
}

func stripKeys(op string, keys ...string) string {
	ws := strings.Fields(op)
	kept := ws[:0]
	for _, x := range ws {
		drop := false
		for _, k := range keys {
			if strings.HasPrefix(x, k+"=") {
				drop = true
			}
		}
		if !drop {
			kept = append(kept, x)
		}
	}
	return strings.Join(kept, " ")
}

func (w *world) route(verb, op string, a hx.Args) string {
	b := -1
	if verb == "reqblock" {
		v, ok := a.Uint("b")
		if !ok || v >= tableSize {
			return op + " => skip " + w.tail()
		}
		b = int(v)
	}
	fl := w.flags(b)
	var closing *peer
	if verb != "reqblock" || heightOf(b) >= 0 {
		closing = w.tryClose(a, fl, verb == "reqblock")
	}
	op = stripKeys(op, "fl") + " fl=" + hx.IntList(fl)
	res := ""
	switch verb {
	case "reqheaders":
		var err error
		if !w.routed(closing, func() { err = w.mgr.RequestHeaders(w.ctx) }) {
			return op + " => err=hung"
		}
		res = "err=" + errClass(err)
	case "reqtxs":
		if w.txm != nil {
			// every entry must have timed out when GetTxRequests looks at it
			for time.Since(w.stamp) < txTimeout+txMargin {
				time.Sleep(txTimeout + txMargin - time.Since(w.stamp))
			}
		}
		var err error
		t0 := time.Now()
		if !w.routed(closing, func() { err = w.mgr.RequestTxs(w.ctx) }) {
			return op + " => err=hung"
		}
		if closing != nil && time.Since(t0) > txTimeout-txMargin {
			w.doubt = true // a retry may have met entries that had ripened again
		}
		w.stamp = time.Now()
		res = "err=" + errClass(err)
	case "reqblock":
		var err error
		var c bitcoin_reader.BlockRequestCanceller
		if !w.routed(closing, func() {
			c, err = w.mgr.RequestBlock(w.ctx, blockHash[b], blockHandler, func(context.Context) {})
		}) {
			return op + " => err=hung"
		}
		sel := "-"
		if n, ok := c.(*bitcoin_reader.BitcoinNode); ok && n != nil {
			if idx, ok := w.byID[n.ID()]; ok {
				sel = strconv.Itoa(idx)
			}
		}
		res = "sel=" + sel + " err=" + errClass(err)
	case "sendtx":
		tx := wire.NewMsgTx(1)
		tx.AddTxOut(wire.NewTxOut(0, bitcoin.Script([]byte{0x00, 0x6a, 0x01, 0x42})))
		var err error
		if !w.routed(closing, func() { err = w.mgr.SendTx(w.ctx, tx) }) {
			return op + " => err=hung"
		}
		res = "err=" + errClass(err)
	}
	if w.panicText != "" {
		res, w.panicText = "panic #"+w.panicText, ""
		return op + " => " + res
	}
	return op + " => " + res + " flm=" + hx.IntList(maskFlags(fl)) + " " + w.tail()
}

func (w *world) hostile(op string, a hx.Args) string {
	op = stripKeys(op, "out")
	p := w.peerOf(a)
	if p == nil || p.stage == 'x' || p.isClosed() {
		return op + " => skip " + w.tail()
	}
	hang := false
	var b []byte
	switch a["kind"] {
	case "garbage":
		b = []byte{0x13, 0x37, 0xc0, 0xde, 0xff, 0x00, 0x11, 0x22, 0x33, 0x44, 0x55, 0x66, 0x77, 0x88, 0x99, 0xaa,
			0xbb, 0xcc, 0xdd, 0xee, 0x01, 0x02, 0x03, 0x04, 0x05, 0x06, 0x07, 0x08, 0x09, 0x0a}
	case "magic":
		b = frameWith([]byte{0xf9, 0xbe, 0xb4, 0xd9}, "ping", le64(7), 8, sha256d(le64(7))[:4])
	case "oversize":
		pl := bytes.Repeat([]byte{7}, 3000)
		b = frame("ping", pl)
	case "cut":
		pl := append(varint(1), append(header80(1, goodNonce), 0)...)
		f := frame("headers", pl)
		b = f[:40]
		hang = true
	case "badheaders": // three headers announced, one present, with a transaction count that is not zero
		pl := append(varint(3), append(header80(2, wrongNonce), 7)...)
		b = frame("headers", pl)
	case "rejecthdr": // a header the repository rejects (ProcessHeader fails)
		pl := append(varint(1), append(header80(3, badNonce), 0)...)
		b = frame("headers", pl)
	case "badck":
		b = frameWith(magic, "ping", le64(9), 8, []byte{0xde, 0xad, 0xbe, 0xef})
	case "unknown":
		b = frame("foobar", []byte{1, 2, 3, 4, 5})
	default:
		return op + " => skip " + w.tail()
	}
	p.send(b)
	if hang {
		p.hangUp()
	}
	// what did the node do with it? the probe ping is answered, or the connection ends
	w.seq++
	nonce := pingBase + w.seq
	if !hang {
		p.send(frame("ping", le64(nonce)))
	}
	out := "stuck"
	if until(probeWait, func() bool { return p.isClosed() || p.hasPong(nonce) }) {
		if p.isClosed() {
			out = "closed"
		} else {
			out = "alive"
		}
	}
	res := "out=" + out
	if out != "alive" {
		if out == "stuck" { // neither: the node is waiting for bytes that never come; the peer hangs up
			p.hangUp()
		}
		p.stage = 'x'
		res += " run=" + w.waitRun(p)
	}
	return op + " out=" + out + " => " + res + " " + w.tail()
}

// ---- run ----

// runScript returns the observations and whether the process must stop (a routing call hangs in it).
func runScript(lines []string) ([]string, bool) {
	var w *world
	var out []string
	for attempt := 0; ; attempt++ {
		out = out[:0]
		w = nil
		for _, line := range lines {
			if line == "" || strings.HasPrefix(line, "#") {
				out = append(out, line)
				continue
			}
			op := hx.OpPart(line)
			verb, a := hx.Parse(op)
			if verb == "init" {
				if w != nil {
					w.finish()
				}
				k, _ := a.Uint("nodes")
				if k > maxNodes {
					k = maxNodes
				}
				withTx := a["tx"] != "0"
				w = newWorld(withTx)
				for i := 0; i < int(k); i++ {
					w.addNode()
				}
				t := "1"
				if !withTx {
					t = "0"
				}
				out = append(out, fmt.Sprintf("init nodes=%d tx=%s => ok %s", k, t, w.tail()))
				continue
			}
			if w == nil {
				out = append(out, op+" => bad-op")
				continue
			}
			if w.hung {
				out = append(out, op+" => dead")
				continue
			}
			res, ptxt := hx.Guard(func() string { return w.step(op) })
			if ptxt != "" {
				res = op + " => panic #" + strings.ReplaceAll(ptxt, " ", "_")
			}
			out = append(out, res)
		}
		if w != nil && w.hung {
			return out, true
		}
		doubt := w != nil && w.doubt
		if w != nil {
			w.finish()
		}
		if !doubt || attempt >= 5 {
			return out, false
		}
	}
}

func run() {
	var all []string
	hxLines(func(l string) { all = append(all, l) })
	outw := os.Stdout
	var script []string
	flush := func() {
		if len(script) == 0 {
			return
		}
		out, fatal := runScript(script)
		for _, l := range out {
			fmt.Fprintln(outw, l)
		}
		if fatal {
			fmt.Fprintln(os.Stderr, "a routing call of the NodeManager did not return: the harness cannot go on in this process")
			os.Exit(3)
		}
		script = script[:0]
	}
	for _, l := range all {
		if strings.HasPrefix(hx.OpPart(l), "init") {
			flush()
		}
		script = append(script, l)
	}
	flush()
}

func hxLines(f func(string)) {
	buf := make([]byte, 0, 1<<20)
	tmp := make([]byte, 1<<16)
	for {
		n, err := os.Stdin.Read(tmp)
		buf = append(buf, tmp[:n]...)
		if err != nil {
			break
		}
	}
	for _, l := range strings.Split(strings.TrimRight(string(buf), "\n"), "\n") {
		f(l)
	}
}

func main() {
	if len(os.Args) < 2 {
		fmt.Fprintln(os.Stderr, "usage: mgr run | gen <seed> <n> <tier> [c13|c15]")
		os.Exit(2)
	}
	switch os.Args[1] {
	case "run":
		run()
	case "gen":
		seed, _ := strconv.ParseUint(os.Args[2], 10, 64)
		n, _ := strconv.Atoi(os.Args[3])
		profile := "c13"
		if len(os.Args) > 5 {
			profile = os.Args[5]
		}
		gen(seed, n, os.Args[4], profile)
	}
}
