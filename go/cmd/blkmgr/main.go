// Command blkmgr is the correspondence harness for C16 (block manager): it drives the real
// BlockManager (Run in a goroutine, 1 ms request delay) with a scripted BlockRequestor. Every
// RequestBlock call the requestor accepts creates a scripted peer; ops deliver the block through the
// real HandleBlock of that downloader, make the peer fail, abort the request or interrupt the
// manager. After each op the harness waits until the manager is at rest and prints the terminal
// signals seen on the channels returned by AddRequest, the registry size and whether Run is alive.
//
//	blkmgr run   < script > observations
//	blkmgr gen <seed> <scripts> <tier>   > script
package main

import (
	"bufio"
	"context"
	"fmt"
	"os"
	"strconv"
	"strings"
	"sync"
	"sync/atomic"
	"time"

	"brvharness/internal/hx"

	"github.com/google/uuid"
	"github.com/pkg/errors"
	"github.com/tokenized/bitcoin_reader"
	"github.com/tokenized/pkg/bitcoin"
	"github.com/tokenized/pkg/merkle_proof"
	"github.com/tokenized/pkg/wire"
)

// capacity of BlockManager.requests (NewBlockManager); the extractor publishes it as Facts.requestsCap
const requestsCap = 10

type proc struct{}

func (p *proc) ProcessTx(ctx context.Context, tx *wire.MsgTx) (bool, error) { return true, nil }
func (p *proc) CancelTx(ctx context.Context, txid bitcoin.Hash32) error     { return nil }
func (p *proc) AddTxConflict(ctx context.Context, txid, c bitcoin.Hash32) error {
	return nil
}
func (p *proc) ConfirmTx(ctx context.Context, txid bitcoin.Hash32, h int,
	mp *merkle_proof.MerkleProof) error {
	return nil
}
func (p *proc) UpdateTxChainDepth(ctx context.Context, txid bitcoin.Hash32, d uint32) error {
	return nil
}
func (p *proc) ProcessCoinbaseTx(ctx context.Context, blockHash bitcoin.Hash32, tx *wire.MsgTx) error {
	return nil
}

type block struct {
	header *wire.BlockHeader
	tx     *wire.MsgTx
	hash   bitcoin.Hash32
}

func makeBlock(k int) *block {
	tx := wire.NewMsgTx(1)
	tx.LockTime = uint32(k)
	tree := merkle_proof.NewMerkleTree(true)
	tree.AddHash(*tx.TxHash())
	root, _ := tree.FinalizeMerkleProofs()
	h := &wire.BlockHeader{Version: 1, MerkleRoot: root, Timestamp: 1600000000, Bits: 0x1d00ffff, Nonce: uint32(k)}
	return &block{header: h, tx: tx, hash: *h.BlockHash()}
}

// peer is what the scripted requestor returns for an accepted RequestBlock call.
type peer struct {
	sync.Mutex
	id        uuid.UUID
	hash      bitcoin.Hash32
	handler   bitcoin_reader.HandleBlock
	onStop    bitcoin_reader.OnStop
	used      bool // the handler was called or the peer failed
	cancelled bool
	slow      bool // CancelBlockRequest takes long (contended peer mutex / blockReader.Close())
	owner     *state
}

func (p *peer) ID() uuid.UUID { return p.id }
func (p *peer) CancelBlockRequest(ctx context.Context, hash bitcoin.Hash32) bool {
	p.Lock()
	p.cancelled = true
	slow := p.slow
	p.Unlock()
	if slow {
		// Stay inside the manager's cancel loop until the finishers of the downloaders cancelled before
		// this one have removed them from the registry (count unchanged for 3 ms, at most 150 ms): the
		// deterministic version of "cancelling this peer takes long while others finish".
		last, same := -1, 0
		for i := 0; i < 750 && same < 15; i++ {
			time.Sleep(200 * time.Microsecond)
			n := p.owner.m.DownloaderCount(hash)
			if n == last {
				same++
			} else {
				last, same = n, 0
			}
		}
	}
	return false // handlers run to completion inside an op, so none is in progress at cancel time
}

type request struct {
	signals []string
}

type state struct {
	sync.Mutex
	m            *bitcoin_reader.BlockManager
	interrupt    chan interface{}
	intrDone     bool
	runDone      atomic.Bool
	accept       int
	accepted     int32
	peers        []*peer
	blocks       map[int]*block
	requests     []*request
	reqHash      []int
	aborts       []chan<- interface{}
	aborted      []bool
	panicked     atomic.Bool
	conc         int
	slowAll      bool // every peer created from now on is slow to cancel
	expectSig    int  // request that must get a signal before the manager is at rest (-1: none)
	needDrop     int  // the registry count of needDropHash must fall to this first (-1: none)
	needDropHash int
	// while a block is being delivered the requestor refuses further requests for that hash, so that a
	// tick racing with the completion cannot consume the scripted budget (the model covers that race)
	frozen      *bitcoin.Hash32
	needDropAcc int32
}

func (s *state) RequestBlock(ctx context.Context, hash bitcoin.Hash32, handler bitcoin_reader.HandleBlock,
	onStop bitcoin_reader.OnStop) (bitcoin_reader.BlockRequestCanceller, error) {
	s.Lock()
	defer s.Unlock()
	if s.accept <= 0 || (s.frozen != nil && s.frozen.Equal(&hash)) {
		return nil, bitcoin_reader.ErrNodeNotAvailable
	}
	s.accept--
	p := &peer{id: uuid.New(), hash: hash, handler: handler, onStop: onStop, owner: s, slow: s.slowAll}
	s.peers = append(s.peers, p)
	atomic.AddInt32(&s.accepted, 1)
	return p, nil
}

func newState(conc int) *state {
	s := &state{interrupt: make(chan interface{}), blocks: map[int]*block{}, conc: conc, expectSig: -1, needDrop: -1}
	s.m = bitcoin_reader.NewBlockManager(bitcoin_reader.NewMockBlockTxManager(), s, conc, time.Millisecond)
	go func() {
		defer func() {
			if r := recover(); r != nil {
				s.panicked.Store(true)
			}
			s.runDone.Store(true)
		}()
		s.m.Run(hx.Ctx(), s.interrupt)
	}()
	return s
}

func (s *state) sigString() string {
	s.Lock()
	defer s.Unlock()
	var xs []string
	for i, r := range s.requests {
		if len(r.signals) > 0 {
			xs = append(xs, fmt.Sprintf("%d:%s", i, strings.Join(r.signals, "+")))
		}
	}
	return "[" + strings.Join(xs, ",") + "]"
}

func (s *state) dlCount() int {
	seen := map[int]bool{}
	n := 0
	s.Lock()
	hs := append([]int{}, s.reqHash...)
	s.Unlock()
	for _, k := range hs {
		if seen[k] {
			continue
		}
		seen[k] = true
		n += s.m.DownloaderCount(s.blocks[k].hash)
	}
	return n
}

func (s *state) snapshot() string {
	alive := 1
	if s.runDone.Load() {
		alive = 0
	}
	return fmt.Sprintf("sigs=%s dls=%d stale=%d alive=%d", s.sigString(), s.dlCount(), s.staleCount(), alive)
}

// staleCount is the number of registered downloaders whose block is not the one being requested
// now: downloaders of requests that already got their terminal signal.
func (s *state) staleCount() int {
	cur := s.current()
	s.Lock()
	hs := append([]int{}, s.reqHash...)
	curHash := -1
	if cur >= 0 && !s.runDone.Load() {
		curHash = s.reqHash[cur]
	}
	s.Unlock()
	seen := map[int]bool{}
	n := 0
	for _, k := range hs {
		if seen[k] || k == curHash {
			continue
		}
		seen[k] = true
		n += s.m.DownloaderCount(s.blocks[k].hash)
	}
	return n
}

// current returns the index of the oldest request without a terminal signal (-1 if none).
func (s *state) current() int {
	s.Lock()
	defer s.Unlock()
	for i, r := range s.requests {
		if len(r.signals) == 0 {
			return i
		}
	}
	return -1
}

// rest waits until the manager is at rest. Wall-clock stability alone is unreliable on a loaded
// machine, so the wait also uses what must still happen: an interrupt must end Run; a request that
// was aborted or whose block was delivered must get its signal; a failed download must leave the
// registry; a current request with no download, or with fewer than `conc` while the requestor
// still accepts, is about to request (or to give up); downloads of finished requests must drain.
func (s *state) rest() (string, bool) {
	// a budget of harness running time (see hx.Until): CPU starvation lengthens the wait
	budget := 8 * time.Second
	undrained := time.Duration(0) // harness running time spent waiting for finished requests to drain
	last := ""
	lastAcc := int32(-1)
	stable := 0
	for budget > 0 {
		t0 := time.Now()
		time.Sleep(time.Millisecond)
		if el := time.Since(t0); el > 2*time.Millisecond {
			budget -= 2 * time.Millisecond
		} else {
			budget -= el
		}
		snap := s.snapshot()
		acc := atomic.LoadInt32(&s.accepted)
		if snap == last && acc == lastAcc {
			stable++
		} else {
			stable = 0
			last = snap
			lastAcc = acc
		}
		if s.needDrop >= 0 {
			if s.m.DownloaderCount(s.blocks[s.needDropHash].hash) <= s.needDrop || acc > s.needDropAcc {
				s.needDrop = -1
			} else {
				continue
			}
		}
		if stable < 20 {
			continue
		}
		alive := strings.HasSuffix(snap, "alive=1")
		if alive != !s.runDone.Load() {
			stable = 0
			continue
		}
		if alive && s.intrDone {
			continue
		}
		if !alive {
			if s.dlCount() > 0 {
				continue
			}
			return snap, true
		}
		s.Lock()
		expect := s.expectSig
		signalled := expect >= 0 && len(s.requests[expect].signals) > 0
		accept := s.accept
		s.Unlock()
		if expect >= 0 && !signalled {
			continue
		}
		cur := s.current()
		curHash := -1
		if cur >= 0 {
			s.Lock()
			curHash = s.reqHash[cur]
			s.Unlock()
			active := s.m.DownloaderCount(s.blocks[curHash].hash)
			if active == 0 || (active < s.conc && accept > 0) {
				continue
			}
		}
		drained := true
		s.Lock()
		hs := append([]int{}, s.reqHash...)
		s.Unlock()
		for _, k := range hs {
			if k != curHash && s.m.DownloaderCount(s.blocks[k].hash) > 0 {
				drained = false
			}
		}
		if !drained {
			// downloads of finished requests normally drain within milliseconds; after 2 s at an
			// otherwise resting manager report what is there (stale=N) instead of waiting on
			undrained += time.Millisecond
			if undrained < 2*time.Second {
				continue
			}
		}
		return snap, true
	}
	return last, false
}

func (s *state) listen(idx int, complete <-chan error) {
	for n := 0; n < 3; n++ {
		err, ok := <-complete
		sig := "closed"
		if ok {
			if errors.Cause(err) == bitcoin_reader.BlockAborted {
				sig = "aborted"
			} else if err == nil {
				sig = "nil"
			} else {
				sig = "err"
			}
		}
		s.Lock()
		s.requests[idx].signals = append(s.requests[idx].signals, sig)
		if idx == s.expectSig {
			s.frozen = nil
		}
		s.Unlock()
		if !ok {
			return // a closed channel keeps yielding; a later send on it would panic the manager
		}
	}
}

func (s *state) usablePeer(a hx.Args) *peer {
	d, ok := a.Int("d")
	s.Lock()
	defer s.Unlock()
	if !ok || int(d) >= len(s.peers) || d < 0 {
		return nil
	}
	p := s.peers[d]
	p.Lock()
	defer p.Unlock()
	if p.used || p.cancelled {
		return nil
	}
	p.used = true
	return p
}

func (s *state) hashKey(h bitcoin.Hash32) int {
	for k, x := range s.blocks {
		if x.hash.Equal(&h) {
			return k
		}
	}
	return -1
}

func (s *state) step(op string) string {
	verb, a := hx.Parse(op)
	ctx := hx.Ctx()
	ign := ""
	s.Lock()
	s.expectSig = -1
	s.frozen = nil
	s.Unlock()
	s.needDrop = -1
	switch verb {
	case "policy":
		n, _ := a.Int("accept")
		s.Lock()
		s.accept = int(n)
		s.Unlock()
	case "add":
		k, ok := a.Int("h")
		if !ok {
			return "bad-op"
		}
		if _, have := s.blocks[int(k)]; !have {
			s.blocks[int(k)] = makeBlock(int(k))
		}
		b := s.blocks[int(k)]
		// AddRequest blocks while the request channel (capacity 10) is full: the manager at rest holds
		// one request as current and the others in the channel. The model has the call disabled then.
		s.Lock()
		unsignalled := 0
		for _, r := range s.requests {
			if len(r.signals) == 0 {
				unsignalled++
			}
		}
		s.Unlock()
		if !s.runDone.Load() && !s.intrDone && unsignalled >= requestsCap+1 {
			ign = " ign=1"
			break
		}
		complete, abort := s.m.AddRequest(ctx, b.hash, 100+int(k), &proc{})
		if complete == nil {
			ign = " refused=1"
			break
		}
		s.Lock()
		idx := len(s.requests)
		s.requests = append(s.requests, &request{})
		s.reqHash = append(s.reqHash, int(k))
		s.aborts = append(s.aborts, abort)
		s.aborted = append(s.aborted, false)
		s.Unlock()
		go s.listen(idx, complete)
	case "abort":
		r, ok := a.Int("r")
		if !ok {
			return "bad-op"
		}
		if s.runDone.Load() || int(r) != s.current() || s.aborted[r] {
			ign = " ign=1"
			break
		}
		s.aborted[r] = true
		s.Lock()
		s.expectSig = int(r)
		s.Unlock()
		close(s.aborts[r])
	case "slow":
		// d=<i>: peer i becomes slow to cancel; all=1|0: every peer created from now on
		if v, ok := a["all"]; ok {
			s.Lock()
			s.slowAll = v == "1"
			s.Unlock()
			break
		}
		d, ok := a.Int("d")
		s.Lock()
		if !ok || d < 0 || int(d) >= len(s.peers) {
			ign = " ign=1"
		} else {
			p := s.peers[d]
			p.Lock()
			p.slow = true
			p.Unlock()
		}
		s.Unlock()
	case "intr":
		if !s.intrDone {
			s.intrDone = true
			close(s.interrupt)
		}
	case "deliver":
		p := s.usablePeer(a)
		if p == nil {
			ign = " ign=1"
			break
		}
		var b *block
		for _, x := range s.blocks {
			if x.hash.Equal(&p.hash) {
				b = x
			}
		}
		if cur := s.current(); cur >= 0 && s.reqHash[cur] == s.hashKey(p.hash) {
			s.Lock()
			s.expectSig = cur
			h := p.hash
			s.frozen = &h
			s.Unlock()
		}
		ch := make(chan *wire.MsgTx, 2)
		ch <- b.tx
		close(ch)
		p.handler(ctx, b.header, 1, ch)
		ign = fmt.Sprintf(" dh=%d", b.header.Nonce)
	case "deliver2":
		// two downloads of the SAME block finish at the same moment: both handlers get the whole block and
		// run concurrently, so two successful completions are reported to the manager back to back while it
		// is moving on to the next request (the late one must not be taken for the next request's)
		pa := s.usablePeer(a)
		var pb *peer
		if e, ok := a.Int("e"); ok && pa != nil {
			pb = s.usablePeer(hx.Args{"d": fmt.Sprint(e)})
		}
		if pa == nil || pb == nil || !pa.hash.Equal(&pb.hash) {
			ign = " ign=1"
			break
		}
		var b *block
		for _, x := range s.blocks {
			if x.hash.Equal(&pa.hash) {
				b = x
			}
		}
		if cur := s.current(); cur >= 0 && s.reqHash[cur] == s.hashKey(pa.hash) {
			s.Lock()
			s.expectSig = cur
			h := pa.hash
			s.frozen = &h
			s.Unlock()
		}
		var wg sync.WaitGroup
		gate := make(chan struct{})
		for _, p := range []*peer{pa, pb} {
			wg.Add(1)
			go func(p *peer) {
				defer wg.Done()
				ch := make(chan *wire.MsgTx, 2)
				ch <- b.tx
				close(ch)
				<-gate
				p.handler(ctx, b.header, 1, ch)
			}(p)
		}
		close(gate)
		wg.Wait()
		ign = fmt.Sprintf(" dh=%d", b.header.Nonce)
	case "fail":
		p := s.usablePeer(a)
		if p == nil {
			ign = " ign=1"
			break
		}
		var b *block
		for _, x := range s.blocks {
			if x.hash.Equal(&p.hash) {
				b = x
			}
		}
		s.needDropHash = s.hashKey(p.hash)
		s.needDrop = s.m.DownloaderCount(p.hash) - 1
		s.needDropAcc = atomic.LoadInt32(&s.accepted)
		switch a["kind"] {
		case "wrong":
			other := makeBlock(999999)
			ch := make(chan *wire.MsgTx, 2)
			ch <- other.tx
			close(ch)
			p.handler(ctx, other.header, 1, ch)
		case "drop": // the stream ends before the announced count, then the peer stops
			ch := make(chan *wire.MsgTx, 2)
			ch <- b.tx
			close(ch)
			p.handler(ctx, b.header, 2, ch)
			p.onStop(ctx)
		default: // the peer drops before sending anything
			p.onStop(ctx)
		}
		ign = fmt.Sprintf(" dh=%d", b.header.Nonce)
	case "end":
	default:
		return "bad-op"
	}
	snap, ok := s.rest()
	if s.panicked.Load() {
		return snap + " panic"
	}
	if !ok {
		return snap + " unsettled=1"
	}
	if verb == "end" {
		// release everything; the registry must empty and Run must return
		if !s.intrDone {
			s.intrDone = true
			close(s.interrupt)
		}
		for i := 0; i < 3000 && !(s.runDone.Load() && s.dlCount() == 0); i++ {
			time.Sleep(time.Millisecond)
		}
		if !s.runDone.Load() || s.dlCount() != 0 {
			return snap + " leak=1"
		}
	}
	return snap + ign
}

func runScript(lines []string) []string {
	var out []string
	var s *state
	for _, line := range lines {
		op := hx.OpPart(line)
		if strings.HasPrefix(op, "init") {
			_, a := hx.Parse(op)
			c, _ := a.Int("conc")
			s = newState(int(c))
			out = append(out, op+" => ok")
			continue
		}
		res, _ := hx.Guard(func() string { return s.step(op) })
		out = append(out, op+" => "+res)
	}
	return out
}

func runAll() {
	in := bufio.NewScanner(os.Stdin)
	in.Buffer(make([]byte, 1<<20), 1<<26)
	var scripts [][]string
	for in.Scan() {
		line := in.Text()
		if line == "" || strings.HasPrefix(line, "#") {
			continue
		}
		if strings.HasPrefix(line, "init") || len(scripts) == 0 {
			scripts = append(scripts, nil)
		}
		scripts[len(scripts)-1] = append(scripts[len(scripts)-1], line)
	}
	results := make([][]string, len(scripts))
	sem := make(chan struct{}, 6)
	var wg sync.WaitGroup
	for i := range scripts {
		wg.Add(1)
		sem <- struct{}{}
		go func(i int) {
			defer wg.Done()
			defer func() { <-sem }()
			if !strings.HasPrefix(scripts[i][0], "init") {
				for _, l := range scripts[i] {
					results[i] = append(results[i], hx.OpPart(l)+" => bad-op")
				}
				return
			}
			results[i] = runScript(scripts[i])
		}(i)
	}
	wg.Wait()
	w := bufio.NewWriter(os.Stdout)
	defer w.Flush()
	for _, r := range results {
		for _, l := range r {
			fmt.Fprintln(w, l)
		}
	}
}

// ---- generator ----

func gen(seed uint64, n int, tier string) {
	r := hx.NewRng(seed)
	// fixed scenarios first: every finish/fail order of 1..4 concurrent downloaders of one block
	for conc := 1; conc <= 4; conc++ {
		orders := [][]int{}
		var perm func(cur []int, used []bool)
		perm = func(cur []int, used []bool) {
			if len(cur) == conc {
				orders = append(orders, append([]int{}, cur...))
				return
			}
			for i := 0; i < conc; i++ {
				if !used[i] {
					used[i] = true
					perm(append(cur, i), used)
					used[i] = false
				}
			}
		}
		perm(nil, make([]bool, conc))
		if conc == 4 && tier == "quick" {
			orders = orders[:6]
		}
		for _, o := range orders {
			// the last one in the order succeeds, the others fail in turn
			for _, kind := range []string{"stop", "wrong", "drop"} {
				fmt.Printf("init conc=%d\npolicy accept=%d\nadd h=1\n", conc, conc)
				for j, d := range o {
					if j == len(o)-1 {
						fmt.Printf("deliver d=%d\n", d)
					} else {
						fmt.Printf("fail d=%d kind=%s\n", d, kind)
					}
				}
				fmt.Println("end")
				if conc == 1 {
					break
				}
			}
			// the first one succeeds: the others are cancelled by the manager
			fmt.Printf("init conc=%d\npolicy accept=%d\nadd h=1\ndeliver d=%d\nadd h=2\nend\n", conc, conc, o[0])
		}
	}
	// cancel loops racing with finishers: 3..5 downloaders of one block, one peer slow to cancel, the
	// request aborted or completed by each of the other downloaders; then the next request starts
	for conc := 3; conc <= 5; conc++ {
		for slow := 0; slow < conc; slow++ {
			fmt.Printf("init conc=%d\npolicy accept=%d\nadd h=1\nslow d=%d\nabort r=0\nadd h=2\nend\n", conc, conc, slow)
			for d := 0; d < conc; d++ {
				if d == slow || (tier == "quick" && conc == 5 && (d+slow)%2 == 1) {
					continue
				}
				fmt.Printf("init conc=%d\npolicy accept=%d\nadd h=1\nslow d=%d\ndeliver d=%d\nadd h=2\nend\n", conc, conc+1, slow, d)
			}
		}
		// every peer slow
		fmt.Printf("init conc=%d\nslow all=1\npolicy accept=%d\nadd h=1\nabort r=0\nadd h=2\nend\n", conc, conc+2)
		fmt.Printf("init conc=%d\nslow all=1\npolicy accept=%d\nadd h=1\nfail d=0 kind=stop\ndeliver d=%d\nadd h=2\nend\n", conc, conc+3, conc-1)
	}
	for k := 0; k < n; k++ {
		conc := r.Intn(6) // 0 included: the first request is unconditional
		fmt.Printf("init conc=%d\n", conc)
		nops := 5 + r.Intn(9)
		if tier == "thorough" {
			nops = 5 + r.Intn(20)
		}
		reqs := 0
		lastH := -1
		est := 0 // rough upper bound of the peers created so far
		if r.Chance(85) {
			b := 2 + r.Intn(7)
			fmt.Printf("policy accept=%d\n", b)
		}
		for i := 0; i < nops; i++ {
			switch r.Pick(24, 26, 16, 10, 10, 3, 9) {
			case 6:
				if r.Chance(25) {
					fmt.Printf("slow all=%d\n", r.Intn(2))
				} else {
					fmt.Printf("slow d=%d\n", r.Intn(est+1))
				}
			case 0:
				h := 1 + r.Intn(3)
				if r.Chance(70) || h == lastH {
					h = 10 + reqs
				}
				lastH = h
				fmt.Printf("add h=%d\n", h)
				reqs++
				if conc > 0 {
					est += conc
				} else {
					est++
				}
			case 1:
				d := est - 1 - r.Intn(5)
				if d < 0 || r.Chance(15) {
					d = r.Intn(est + 1)
				}
				fmt.Printf("deliver d=%d\n", d)
			case 2:
				d := est - 1 - r.Intn(5)
				if d < 0 || r.Chance(15) {
					d = r.Intn(est + 1)
				}
				fmt.Printf("fail d=%d kind=%s\n", d, []string{"stop", "wrong", "drop"}[r.Intn(3)])
				est++
			case 3:
				if reqs > 0 {
					x := reqs - 1 - r.Intn(2)
					if x < 0 {
						x = 0
					}
					fmt.Printf("abort r=%d\n", x)
				}
			case 4:
				fmt.Printf("policy accept=%d\n", r.Intn(6))
			case 5:
				fmt.Println("intr")
			}
		}
		fmt.Println("end")
	}
}

func main() {
	if len(os.Args) < 2 {
		fmt.Fprintln(os.Stderr, "usage: blkmgr run | gen <seed> <scripts> <tier>")
		os.Exit(2)
	}
	switch os.Args[1] {
	case "run":
		runAll()
	case "gen":
		seed, _ := strconv.ParseUint(os.Args[2], 10, 64)
		n, _ := strconv.Atoi(os.Args[3])
		gen(seed, n, os.Args[4])
	}
}
