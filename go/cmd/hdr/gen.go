package main

import (
	"fmt"

	"brvharness/internal/hx"
)

type gnode struct {
	id, prev, height int
	time             uint32
}

type gstate struct {
	r       *hx.Rng
	nodes   []gnode
	byID    map[int]int
	next    int
	focus   int // id currently being extended
	maxd    int
	saved   bool
	marked  []int
	profile string
}

var bitsClasses = []uint32{0x1d00ffff, 0x1c00ffff, 0x1d00aaaa, 0x207fffff}

func (g *gstate) newHdr(prev int) int {
	id := g.next
	g.next++
	ph, pt := 0, uint32(1296688602)
	if i, ok := g.byID[prev]; ok {
		ph, pt = g.nodes[i].height, g.nodes[i].time
	}
	bits := bitsClasses[g.r.Pick(70, 10, 10, 10)]
	n := gnode{id: id, prev: prev, height: ph + 1, time: pt + 600}
	g.byID[id] = len(g.nodes)
	g.nodes = append(g.nodes, n)
	fmt.Printf("hdr id=%d prev=%d bits=%d time=%d\n", id, prev, bits, n.time)
	return id
}

func (g *gstate) sub(id int) { fmt.Printf("sub id=%d\n", id) }

func (g *gstate) randomNode() int {
	// weighted to recently defined headers
	n := len(g.nodes)
	switch g.r.Pick(50, 30, 20) {
	case 0:
		k := 1 + g.r.Intn(6)
		if k > n {
			k = n
		}
		return g.nodes[n-k].id
	case 1:
		k := 1 + g.r.Intn(25)
		if k > n {
			k = n
		}
		return g.nodes[n-k].id
	}
	return g.nodes[g.r.Intn(n)].id
}

func (g *gstate) maintenance() {
	switch g.r.Pick(35, 15, 20, 15, 15) {
	case 0:
		d := g.maxd + 2 + g.r.Intn(6)
		fmt.Printf("cleand d=%d\n", d)
	case 1:
		fmt.Println("clean")
	case 2:
		fmt.Println("save")
		g.saved = true
	case 3:
		if !g.saved {
			fmt.Println("save")
			g.saved = true
		}
		fmt.Println("load")
	case 4:
		if !g.saved {
			fmt.Println("save")
			g.saved = true
		}
		fmt.Printf("loadd d=%d\n", g.maxd+2+g.r.Intn(8))
	}
}

func gen(seed uint64, scripts int, tier string, profile string) {
	r := hx.NewRng(seed)
	for si := 0; si < scripts; si++ {
		g := &gstate{r: r, byID: map[int]int{}, next: 1, profile: profile}
		g.maxd = []int{0, 1, 2, 5, 144}[r.Pick(10, 15, 20, 20, 35)]
		fmt.Printf("init net=test maxdepth=%d diff=off split=on\n", g.maxd)
		g.nodes = append(g.nodes, gnode{id: 0, prev: -1, height: 0, time: 1296688602})
		g.byID[0] = 0
		nops := 15 + r.Intn(60)
		if tier == "thorough" {
			nops = 30 + r.Intn(250)
		}
		pMaint, pMark, pLoc := 0, 0, 0
		switch profile {
		case "maint":
			pMaint = 10
		case "mark":
			pMark = 6
			pMaint = 3
		case "loc":
			pLoc = 10
			pMaint = 4
		case "mixed":
			pMaint, pMark, pLoc = 7, 2, 3
		}
		for i := 0; i < nops; i++ {
			switch r.Pick(50, 12, 12, 4, 3, 3, pMaint, pMark, pLoc, 4, 1) {
			case 0: // extend the focus chain
				id := g.newHdr(g.focus)
				g.sub(id)
				g.focus = id
			case 1: // move focus to another header (next extension forks there or continues a side tip)
				g.focus = g.randomNode()
			case 2: // burst on a fresh fork: may overtake
				p := g.randomNode()
				k := 1 + r.Intn(5)
				for j := 0; j < k; j++ {
					id := g.newHdr(p)
					g.sub(id)
					p = id
				}
				if r.Chance(50) {
					g.focus = p
				}
			case 3: // duplicate of a known header
				g.sub(g.randomNode())
			case 4: // orphan: parent never defined
				id := g.newHdr(5000 + r.Intn(50))
				g.sub(id)
			case 5: // out of order: grandchild before child
				c := g.newHdr(g.focus)
				gc := g.newHdr(c)
				g.sub(gc)
				g.sub(c)
				g.sub(gc)
				g.focus = gc
			case 6:
				g.maintenance()
			case 7:
				if len(g.marked) > 0 && r.Chance(35) {
					k := r.Intn(len(g.marked))
					fmt.Printf("unmark id=%d\n", g.marked[k])
					g.marked = append(g.marked[:k], g.marked[k+1:]...)
				} else {
					id := g.randomNode()
					if r.Chance(10) {
						id = 6000 + r.Intn(10) // not yet seen
					}
					if id != 0 {
						fmt.Printf("mark id=%d\n", id)
						g.marked = append(g.marked, id)
					}
				}
			case 8:
				if r.Chance(20) {
					fmt.Println("vloc")
				} else {
					fmt.Printf("loc max=%d\n", []int{1, 2, 3, 10, 50}[r.Intn(5)])
				}
			case 9:
				fmt.Println("dump")
			case 10:
				fmt.Println("subscribe")
			}
		}
		fmt.Println("dump")
		if pLoc > 0 {
			fmt.Println("loc max=10")
			fmt.Println("loc max=3")
		}
	}
}
