package main

import (
	"fmt"
	"strings"

	"brvharness/internal/hx"
)

// The generator keeps an approximate picture of which headers the repository will accept (alive) so
// that most submissions are valid and forks actually happen, plus a separate adversarial stream
// (orphans, duplicates, out-of-order arrival, too-deep forks, children of refused headers).

type gnode struct {
	id, prev, height int
	time             uint32
	alive            bool
	kids             int // alive children
	ntx              int // transactions of the block the header commits to (proof profile)
}

type gstate struct {
	r       *hx.Rng
	nodes   []*gnode
	byID    map[int]*gnode
	next    int
	focus   int
	maxd    int
	best    int
	saved   []bool // alive snapshot at the last save
	savedN  int
	savedB  int
	hasSave bool
	marked  []int
	blocks  bool // headers commit to blocks (proof profile)
	forks   int  // branches started so far (kept ≤ 11: Go's sort is only a stable insertion sort up to 12 elements)
}

var bitsClasses = []uint32{0x1d00ffff, 0x1c00ffff, 0x1d00aaaa, 0x207fffff, 0x1d800000, 0x03000000, 0x00123456, 0x21010000, 0x01010000, 0x02000100}

// defBits defines a header with the given bits (patterns that need a known work class).
func (g *gstate) defBits(prev int, bits uint32) *gnode {
	id := g.next
	g.next++
	ph, pt := 0, uint32(1296688602)
	if p, ok := g.byID[prev]; ok {
		ph, pt = p.height, p.time
	}
	n := &gnode{id: id, prev: prev, height: ph + 1, time: pt + 600}
	g.byID[id] = n
	g.nodes = append(g.nodes, n)
	if g.blocks {
		n.ntx = 1 + g.r.Intn(9)
		fmt.Printf("hdr id=%d prev=%d bits=%d time=%d mr=%d blk=1\n", id, prev, bits, n.time, n.ntx)
		return n
	}
	fmt.Printf("hdr id=%d prev=%d bits=%d time=%d\n", id, prev, bits, n.time)
	return n
}

// ancestor returns the id k steps below id (stops at genesis).
func (g *gstate) ancestor(id, k int) int {
	for ; k > 0; k-- {
		n, ok := g.byID[id]
		if !ok || n.prev < 0 {
			break
		}
		id = n.prev
	}
	return id
}

// straddlePattern: two forks straddling the prune depth, a Clean with a small depth, then heavy headers on
// the short stale fork (it must still be extendable and able to overtake).
func (g *gstate) straddlePattern() {
	if g.forks > 6 || !g.byID[g.focus].alive || g.maxd > 5 { // the Clean depth must stay above the fork-depth limit
		return
	}
	tip := g.focus
	for j := 0; j < 12+g.r.Intn(6); j++ {
		n := g.defBits(tip, 0x1d00ffff)
		g.sub(n.id)
		tip = n.id
	}
	g.focus = tip
	back := 9 + g.r.Intn(3)
	f := g.ancestor(tip, back)
	fl := 1 + g.r.Intn(2)
	ft := f
	for j := 0; j < fl; j++ {
		n := g.defBits(ft, 0x1d00ffff)
		g.sub(n.id)
		ft = n.id
	}
	gp := g.ancestor(tip, back-1-g.r.Intn(fl))
	gt := gp
	for j := 0; j < back-3+g.r.Intn(3); j++ {
		n := g.defBits(gt, 0x1d00ffff)
		g.sub(n.id)
		gt = n.id
	}
	fmt.Println("dump")
	fmt.Printf("cleand d=%d\n", g.maxd+2+g.r.Intn(3))
	fmt.Println("dump")
	for j := 0; j < 1+g.r.Intn(2); j++ {
		n := g.defBits(ft, 0x1700ffff)
		g.sub(n.id)
		ft = n.id
	}
	if g.byID[ft].alive {
		g.focus = ft
	}
	fmt.Println("dump")
}

// forkFirstPattern: the first header of a fork becomes part of the best chain, its competitor is marked
// invalid (the old branch is trimmed), the chain grows and a Clean with a small depth prunes the fork point.
func (g *gstate) forkFirstPattern() {
	if g.forks > 7 || !g.byID[g.focus].alive || g.byID[g.focus].height < 2 || g.maxd > 5 {
		return
	}
	comp := g.focus
	par := g.byID[comp].prev
	if p, ok := g.byID[par]; !ok || !p.alive || g.best-p.height > g.maxd {
		return
	}
	n := g.defBits(par, 0x1c00ffff)
	g.sub(n.id)
	tip := n.id
	n = g.defBits(tip, 0x1c00ffff)
	g.sub(n.id)
	tip = n.id
	if !g.byID[tip].alive {
		return
	}
	fmt.Println("dump")
	fmt.Printf("mark id=%d\n", comp)
	g.marked = append(g.marked, comp)
	g.kill(comp)
	g.best = 0
	for _, c := range g.nodes {
		if c.alive && c.height > g.best {
			g.best = c.height
		}
	}
	for j := 0; j < 10+g.r.Intn(8); j++ {
		n := g.defBits(tip, 0x1d00ffff)
		g.sub(n.id)
		tip = n.id
	}
	g.focus = tip
	fmt.Println("dump")
	fmt.Printf("cleand d=%d\n", g.maxd+2+g.r.Intn(3))
	fmt.Println("dump")
}

// loadForkPattern: a side branch (and a branch of it) whose tip is within the load depth but whose fork point is
// below it; Save, Load with a small depth, then the side branches are extended and overtake.
func (g *gstate) loadForkPattern() {
	if g.forks > 6 || !g.byID[g.focus].alive {
		return
	}
	if g.maxd > 5 && !g.r.Chance(6) { // the pattern needs depth+ headers: keep the long ones rare
		return
	}
	tip := g.focus
	n := g.defBits(tip, 0x1d00ffff)
	g.sub(n.id)
	tip = n.id
	// the side branch forks right below the tip (within any fork-depth limit)
	side := g.byID[tip].prev
	if p, ok := g.byID[side]; !ok || !p.alive {
		return
	}
	st := side
	d := g.maxd + 2 + g.r.Intn(3)
	grow := d + 1 + g.r.Intn(4)
	var sub2 int = -1
	for j := 0; j < grow; j++ {
		m := g.defBits(tip, 0x1d00ffff)
		g.sub(m.id)
		tip = m.id
		if j < grow-2 || g.r.Chance(50) { // the side branch keeps up, a little behind
			k := g.defBits(st, 0x1d00ffff)
			g.sub(k.id)
			st = k.id
			if sub2 == -1 && j >= 1 && g.r.Chance(40) && g.forks < 8 {
				sub2 = g.byID[st].prev // a branch of the side branch
			}
		}
	}
	s2 := sub2
	if sub2 != -1 {
		for j := 0; j < 2+g.r.Intn(3); j++ {
			k := g.defBits(s2, 0x1d00ffff)
			g.sub(k.id)
			s2 = k.id
		}
	}
	g.focus = tip
	fmt.Println("dump")
	fmt.Println("save")
	g.snapshot()
	fmt.Printf("loadd d=%d\n", d)
	g.restore()
	fmt.Println("dump")
	k := g.defBits(st, 0x1d00ffff)
	g.sub(k.id)
	st = k.id
	heavy := st
	if sub2 != -1 && g.r.Chance(60) {
		heavy = s2
	}
	for j := 0; j < 1+g.r.Intn(2); j++ {
		k := g.defBits(heavy, 0x1b00ffff)
		g.sub(k.id)
		heavy = k.id
	}
	if g.byID[heavy].alive {
		g.focus = heavy
	}
	fmt.Println("dump")
}

// loadNestedPattern: side branches nested three deep (best <- A <- B <- C) of which only the innermost reaches the
// load depth: Load has to keep A and B because C is built on them (transitively); then C and B are extended.
func (g *gstate) loadNestedPattern() {
	if g.forks > 5 || !g.byID[g.focus].alive || g.maxd < 5 {
		return
	}
	tip := g.focus
	for j := 0; j < 6; j++ { // make sure the chain is long enough
		n := g.defBits(tip, 0x1d00ffff)
		g.sub(n.id)
		tip = n.id
	}
	grow := func(from, k int) int {
		p := from
		for j := 0; j < k; j++ {
			n := g.defBits(p, 0x1d00ffff)
			g.sub(n.id)
			p = n.id
		}
		return p
	}
	a1 := grow(g.ancestor(tip, 5), 1) // A: heights T-4, T-3
	grow(a1, 1)
	b1 := grow(a1, 1) // B forks off A's first header: T-3, T-2
	b2 := grow(b1, 1)
	c := grow(b1, 2) // C forks off B's first header: T-2, T-1
	g.focus = tip
	fmt.Println("dump")
	fmt.Println("save")
	g.snapshot()
	fmt.Printf("loadd d=%d\n", 1)
	g.restore()
	fmt.Println("dump")
	grow(c, 1)
	grow(b2, 1)
	fmt.Println("dump")
}

func (g *gstate) def(prev int) *gnode {
	id := g.next
	g.next++
	ph, pt := 0, uint32(1296688602)
	palive := false
	if p, ok := g.byID[prev]; ok {
		ph, pt, palive = p.height, p.time, p.alive
	}
	n := &gnode{id: id, prev: prev, height: ph + 1, time: pt + 600}
	_ = palive
	g.byID[id] = n
	g.nodes = append(g.nodes, n)
	bits := bitsClasses[g.r.Pick(680, 100, 100, 100, 4, 4, 4, 4, 4, 4)]
	if g.blocks {
		n.ntx = 1 + g.r.Intn(9)
		if g.r.Chance(15) {
			n.ntx = 1 + g.r.Intn(33)
		}
		fmt.Printf("hdr id=%d prev=%d bits=%d time=%d mr=%d blk=1\n", id, prev, bits, n.time, n.ntx)
		return n
	}
	fmt.Printf("hdr id=%d prev=%d bits=%d time=%d\n", id, prev, bits, n.time)
	return n
}

// sub prints the submission and updates the acceptance estimate.
func (g *gstate) sub(id int) {
	fmt.Printf("sub id=%d\n", id)
	n, ok := g.byID[id]
	if !ok || n.alive {
		return
	}
	p, ok := g.byID[n.prev]
	if !ok || !p.alive {
		return
	}
	for _, m := range g.marked {
		if m == id {
			return
		}
	}
	if p.kids > 0 && g.best-p.height > g.maxd {
		return // a new branch deeper than the limit
	}
	n.alive = true
	if p.kids > 0 {
		g.forks++
	}
	p.kids++
	if n.height > g.best {
		g.best = n.height
	}
}

func (g *gstate) pick(aliveOnly bool) int {
	n := len(g.nodes)
	if g.forks >= 9 {
		// no more forks: only alive tips
		var tips []int
		for _, c := range g.nodes {
			if c.alive && c.kids == 0 {
				tips = append(tips, c.id)
			}
		}
		if len(tips) > 0 {
			return tips[g.r.Intn(len(tips))]
		}
	}
	for try := 0; try < 8; try++ {
		var c *gnode
		switch g.r.Pick(50, 30, 20) {
		case 0:
			k := 1 + g.r.Intn(6)
			if k > n {
				k = n
			}
			c = g.nodes[n-k]
		case 1:
			k := 1 + g.r.Intn(25)
			if k > n {
				k = n
			}
			c = g.nodes[n-k]
		default:
			c = g.nodes[g.r.Intn(n)]
		}
		if c.alive || !aliveOnly {
			return c.id
		}
	}
	return g.nodes[0].id
}

func (g *gstate) kill(id int) {
	n := g.byID[id]
	if n == nil || !n.alive {
		return
	}
	n.alive = false
	if p := g.byID[n.prev]; p != nil && p.kids > 0 {
		p.kids--
	}
	for _, c := range g.nodes {
		if c.prev == id {
			g.kill(c.id)
		}
	}
}

func (g *gstate) snapshot() {
	g.saved = make([]bool, len(g.nodes))
	for i, n := range g.nodes {
		g.saved[i] = n.alive
	}
	g.savedB = g.best
	g.hasSave = true
}

func (g *gstate) restore() {
	for i, n := range g.nodes {
		n.alive = i < len(g.saved) && g.saved[i]
		n.kids = 0
	}
	if !g.hasSave {
		g.nodes[0].alive = true
	}
	g.best = 0
	for _, n := range g.nodes {
		if n.alive {
			if p := g.byID[n.prev]; p != nil {
				p.kids++
			}
			if n.height > g.best {
				g.best = n.height
			}
		}
	}
	if !g.byID[g.focus].alive {
		g.focus = 0
		for _, n := range g.nodes {
			if n.alive && n.height == g.best {
				g.focus = n.id
			}
		}
	}
}

func (g *gstate) depth() int { return g.maxd + 2 + g.r.Intn(6) }

func (g *gstate) cleanOp(withDumps bool) {
	if withDumps {
		fmt.Println("dump")
	}
	if g.r.Chance(70) {
		fmt.Printf("cleand d=%d\n", g.depth())
	} else {
		fmt.Println("clean")
	}
	if withDumps {
		fmt.Println("dump")
	}
}

func (g *gstate) saveLoadOp(withDumps bool) {
	if withDumps {
		fmt.Println("dump")
	}
	fmt.Println("save")
	g.snapshot()
	if g.r.Chance(50) {
		fmt.Println("load")
	} else {
		fmt.Printf("loadd d=%d\n", g.depth())
	}
	g.restore()
	if withDumps {
		fmt.Println("dump")
	}
}

// cfgInvPattern: headers.Config.InvalidHeaderHashes. The configured hashes join the invalid list when the next
// repository object is made and loaded: a header defined but never submitted must then be refused as marked
// invalid; unmarking makes it acceptable; the next Load puts the configured hash back.
func (g *gstate) cfgInvPattern() {
	r := g.r
	n := g.def(g.pick(true))
	ids := []int{n.id}
	if r.Chance(40) {
		ids = append(ids, 6000+r.Intn(10))
	}
	if r.Chance(30) {
		ids = append(ids, g.pick(true)) // already accepted: stays where it is
	}
	var parts []string
	for _, id := range ids {
		parts = append(parts, fmt.Sprint(id))
	}
	fmt.Printf("cfginv ids=[%s]\n", strings.Join(parts, ","))
	if r.Chance(30) {
		g.sub(n.id) // the running repository does not know the new configuration yet
		n = g.def(g.pick(true))
		fmt.Printf("cfginv ids=[%d]\n", n.id)
	}
	g.saveLoadOp(true)
	g.marked = append(g.marked, n.id)
	g.sub(n.id)
	c := g.def(n.id)
	g.sub(c.id)
	if r.Chance(60) {
		fmt.Printf("unmark id=%d\n", n.id)
		for k, m := range g.marked {
			if m == n.id {
				g.marked = append(g.marked[:k], g.marked[k+1:]...)
				break
			}
		}
		g.sub(n.id)
		g.sub(c.id)
		if r.Chance(60) {
			g.saveLoadOp(true)
			c2 := g.def(n.id)
			g.sub(c2.id)
		}
	}
	if r.Chance(30) {
		fmt.Println("cfginv ids=[]")
	}
	fmt.Println("dump")
}

func (g *gstate) crashOp() {
	switch g.r.Pick(50, 35, 15) {
	case 0:
		fmt.Printf("crashsave ld=%d\n", g.depth()+g.r.Intn(10))
		g.snapshot()
	case 1:
		fmt.Printf("crashclean d=%d ld=%d\n", g.depth(), g.depth()+g.r.Intn(10))
	case 2:
		fmt.Println("crashclean")
	}
}

func (g *gstate) proofOp() {
	// a defined block header: accepted or not, best chain, side branch or pruned
	var c *gnode
	for try := 0; try < 10; try++ {
		c = g.nodes[g.r.Intn(len(g.nodes))]
		if c.ntx > 0 {
			break
		}
	}
	if c == nil || c.ntx == 0 {
		return
	}
	form := []string{"header", "hash", "both"}[g.r.Pick(40, 35, 25)]
	tx := g.r.Intn(c.ntx)
	if g.r.Chance(25) {
		tx = c.ntx - 1
	}
	mut := "none"
	switch g.r.Pick(40, 10, 15, 20, 8, 4, 3) {
	case 1:
		mut = "txid"
	case 2:
		mut = fmt.Sprintf("path:%d", g.r.Intn(6))
	case 3:
		d := []int{1, -1, 2, 4, 8, 16, 32, 64, -8, 1024}[g.r.Intn(10)]
		mut = fmt.Sprintf("index:%d", d)
	case 4:
		o := g.nodes[g.r.Intn(len(g.nodes))]
		if g.r.Chance(50) {
			// prefer a competitor at the SAME height (a sibling that was marked, trimmed or pruned keeps its height)
			var same []*gnode
			for _, x := range g.nodes {
				if x.height == c.height && x.id != c.id {
					same = append(same, x)
				}
			}
			if len(same) > 0 {
				o = same[g.r.Intn(len(same))]
			}
		}
		if o.id != 0 && o.id != c.id {
			mut = fmt.Sprintf("other:%d", o.id)
			if form == "both" && g.r.Chance(50) {
				mut = fmt.Sprintf("otherhash:%d", o.id)
			}
		}
	case 5:
		mut = "unknownhash"
	case 6:
		mut = "noblock"
	}
	fmt.Printf("proof block=%d n=%d tx=%d form=%s mut=%s\n", c.id, c.ntx, tx, form, mut)
}

func (g *gstate) refuseOp() {
	// an adversarial submission between two dumps: the second dump must equal the first when refused
	fmt.Println("dump")
	switch g.r.Pick(25, 25, 25, 15, 10) {
	case 0: // orphan
		n := g.def(5000 + g.r.Intn(50))
		g.sub(n.id)
	case 1: // duplicate of any known header
		g.sub(g.pick(true))
	case 2: // fork far below the tip (too deep unless maxd is large)
		if g.forks >= 9 {
			break
		}
		n := g.def(g.nodes[g.r.Intn(1+len(g.nodes)/3)].id)
		g.sub(n.id)
	case 3: // child of a refused header
		n := g.def(g.pick(false))
		g.sub(n.id)
	case 4: // fork exactly at / one beyond the limit
		want := g.best - g.maxd - g.r.Intn(2)
		for _, c := range g.nodes {
			if g.forks >= 9 {
				break
			}
			if c.alive && c.height == want && c.kids > 0 {
				n := g.def(c.id)
				g.sub(n.id)
				break
			}
		}
	}
	fmt.Println("dump")
}

func gen(seed uint64, scripts int, tier string, profile string) {
	r := hx.NewRng(seed)
	for si := 0; si < scripts; si++ {
		g := &gstate{r: r, byID: map[int]*gnode{}, next: 1}
		g.maxd = []int{0, 1, 2, 5, 144}[r.Pick(10, 15, 20, 20, 35)]
		fmt.Printf("init net=test maxdepth=%d diff=off split=on\n", g.maxd)
		root := &gnode{id: 0, prev: -1, height: 0, time: 1296688602, alive: true}
		g.nodes = append(g.nodes, root)
		g.byID[0] = root
		nops := 15 + r.Intn(50)
		if tier == "thorough" {
			nops = 30 + r.Intn(220)
		}
		pClean, pSL, pCrash, pMark, pLoc, pRefuse, pProof := 0, 0, 0, 0, 0, 0, 0
		pStraddle, pForkFirst, pLoadFork := 0, 0, 0
		switch profile {
		case "clean":
			pClean = 9
			pStraddle, pForkFirst = 1, 1
		case "saveload":
			pSL, pClean = 8, 3
			pLoadFork = 2
		case "crash":
			pCrash, pClean, pSL = 8, 2, 1
		case "mark":
			pMark, pClean, pSL = 7, 2, 2
			pForkFirst = 1
		case "loc":
			pLoc, pClean = 10, 3
		case "refuse":
			pRefuse, pClean = 10, 2
		case "proof":
			pProof, pClean, pSL = 25, 3, 2
			g.blocks = true
		case "proofmark":
			// proofs between marks, cleans and reloads: hashes that left the branches but stay in the long-lived map
			pProof, pMark, pClean, pSL = 20, 5, 4, 2
			pForkFirst = 1
			g.blocks = true
		case "mixed":
			pClean, pSL, pCrash, pMark, pLoc, pRefuse = 4, 3, 1, 2, 3, 2
			pStraddle, pForkFirst, pLoadFork = 1, 1, 1
		}
		for i := 0; i < nops; i++ {
			switch r.Pick(46, 10, 12, 3, 2, 3, pClean, pSL, pCrash, pMark, pLoc, pRefuse, 3, 1, pProof, pStraddle, pForkFirst, pLoadFork) {
			case 0: // extend the focus chain
				n := g.def(g.focus)
				g.sub(n.id)
				g.focus = n.id
			case 1: // move focus (next extension forks there or continues a side tip)
				g.focus = g.pick(true)
			case 2: // burst on a fresh fork: may overtake
				p := g.pick(true)
				k := 1 + r.Intn(5)
				for j := 0; j < k; j++ {
					n := g.def(p)
					g.sub(n.id)
					p = n.id
				}
				if r.Chance(50) && g.byID[p].alive {
					g.focus = p
				}
			case 3: // duplicate
				g.sub(g.pick(false))
			case 4: // orphan
				n := g.def(5000 + r.Intn(50))
				g.sub(n.id)
			case 5: // out of order: grandchild before child
				c := g.def(g.focus)
				gc := g.def(c.id)
				g.sub(gc.id)
				g.sub(c.id)
				g.sub(gc.id)
				if gc.alive {
					g.focus = gc.id
				}
			case 6:
				g.cleanOp(profile == "clean" || r.Chance(50))
			case 7:
				g.saveLoadOp(profile == "saveload" || r.Chance(50))
			case 8:
				g.crashOp()
			case 9:
				if r.Chance(12) {
					g.cfgInvPattern()
				} else if len(g.marked) > 0 && r.Chance(40) {
					k := r.Intn(len(g.marked))
					id := g.marked[k]
					g.marked = append(g.marked[:k], g.marked[k+1:]...)
					fmt.Printf("unmark id=%d\n", id)
					if r.Chance(70) {
						g.sub(id) // acceptable again
					}
				} else {
					id := g.pick(true)
					if r.Chance(10) {
						id = 6000 + r.Intn(10) // not yet seen
					}
					if id != 0 {
						fmt.Println("dump")
						fmt.Printf("mark id=%d\n", id)
						g.marked = append(g.marked, id)
						g.kill(id)
						g.best = 0
						for _, n := range g.nodes {
							if n.alive && n.height > g.best {
								g.best = n.height
							}
						}
						if !g.byID[g.focus].alive {
							g.focus = g.pick(true)
						}
						fmt.Println("dump")
						if r.Chance(50) {
							g.sub(id) // must be refused as marked invalid
						}
					}
				}
			case 10:
				if r.Chance(20) {
					fmt.Println("vloc")
				} else {
					fmt.Printf("loc max=%d\n", []int{1, 2, 3, 10, 50}[r.Intn(5)])
				}
			case 11:
				g.refuseOp()
			case 12:
				fmt.Println("dump")
			case 13:
				fmt.Println("subscribe")
			case 14:
				g.proofOp()
			case 15:
				g.straddlePattern()
			case 16:
				g.forkFirstPattern()
			case 17:
				if g.r.Intn(2) == 0 {
					g.loadForkPattern()
				} else {
					g.loadNestedPattern()
				}
			}
		}
		fmt.Println("dump")
		if pLoc > 0 {
			fmt.Println("loc max=10")
			fmt.Println("loc max=3")
		}
	}
}
