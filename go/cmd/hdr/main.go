// Command hdr is the correspondence harness for the header repository (C01, C03, C07–C12,
// C17–C19): it drives the real headers.Repository with an op script and prints one observation per
// op. Hashes are replaced by the small ids the script introduced them with.
//
//	hdr run < script > observations
//	hdr gen <seed> <scripts> <tier> [<profile>] > script
package main

import (
	"context"
	"crypto/sha256"
	"encoding/binary"
	"encoding/json"
	"fmt"
	"math/big"
	"os"
	"sort"
	"strconv"
	"strings"

	"brvharness/internal/hx"

	"github.com/tokenized/bitcoin_reader/headers"
	"github.com/tokenized/pkg/bitcoin"
	"github.com/tokenized/pkg/merkle_proof"
	"github.com/tokenized/pkg/storage"
	"github.com/tokenized/pkg/wire"

	"github.com/pkg/errors"
)

// recStore mirrors every write/remove (so storage images can be rebuilt) and can log them.
type recStore struct {
	*storage.MockStorage
	mirror map[string][]byte
	log    []storeEv
	rec    bool
	fail   bool // every Write / Remove fails (a storage outage), nothing is stored
}

type storeEv struct {
	write bool
	key   string
	val   []byte
}

func newRecStore() *recStore {
	return &recStore{MockStorage: storage.NewMockStorage(), mirror: map[string][]byte{}}
}

func (s *recStore) Write(ctx context.Context, key string, body []byte, o *storage.Options) error {
	if s.fail {
		return errors.New("storage outage")
	}
	c := append([]byte{}, body...)
	s.mirror[key] = c
	if s.rec {
		s.log = append(s.log, storeEv{true, key, c})
	}
	return s.MockStorage.Write(ctx, key, body, o)
}

func (s *recStore) Remove(ctx context.Context, key string) error {
	if s.fail {
		return errors.New("storage outage")
	}
	_, had := s.mirror[key]
	delete(s.mirror, key)
	if s.rec && had {
		// a Remove of a missing key returns ErrNotFound and changes nothing: not an event
		s.log = append(s.log, storeEv{false, key, nil})
	}
	return s.MockStorage.Remove(ctx, key)
}

func imageStore(base map[string][]byte, evs []storeEv) *recStore {
	st := newRecStore()
	ctx := hx.Ctx()
	for k, v := range base {
		st.Write(ctx, k, v, nil)
	}
	for _, e := range evs {
		if e.write {
			st.Write(ctx, e.key, e.val, nil)
		} else {
			st.Remove(ctx, e.key)
		}
	}
	return st
}

type state struct {
	cfg         *headers.Config
	unknown     map[bitcoin.Hash32]int // hashes made up for ids that no header has
	store       *recStore
	repo        *headers.Repository
	subs        []<-chan *wire.BlockHeader
	diffOn      bool
	splitOn     bool
	hdrs        map[int]*wire.BlockHeader
	ids         map[bitcoin.Hash32]int
	order       []int // defined ids in definition order
	specials    map[int]bitcoin.Hash32
	fixture     []*wire.BlockHeader
	genesisID   int
	dumpFrom    int // lowest height listed by dump (above 0 only after MockLatest)
	genesisHash bitcoin.Hash32
}

func factsPath() string {
	if p := os.Getenv("BRV_FACTS"); p != "" {
		return p
	}
	return "/verif/work/facts.json"
}

type splitFact struct {
	Name   string `json:"name"`
	Before string `json:"before"`
	After  string `json:"after"`
	Height int    `json:"height"`
}

// specialIDs numbers the distinct split hashes from 900001 in order of first appearance over
// (before, after) of the split table then the required split — the same rule as the model driver.
func specialIDs() map[int]bitcoin.Hash32 {
	out := map[int]bitcoin.Hash32{}
	b, err := os.ReadFile(factsPath())
	if err != nil {
		return out
	}
	var f struct {
		Splits   []splitFact `json:"splits"`
		Required []splitFact `json:"required_split"`
	}
	if json.Unmarshal(b, &f) != nil {
		return out
	}
	seen := map[string]bool{}
	next := 900001
	for _, s := range append(append([]splitFact{}, f.Splits...), f.Required...) {
		for _, h := range []string{s.Before, s.After} {
			if !seen[h] {
				seen[h] = true
				if hash, err := bitcoin.NewHash32FromStr(h); err == nil {
					out[next] = *hash
				}
				next++
			}
		}
	}
	return out
}

func unknownHash(id int) bitcoin.Hash32 {
	var h bitcoin.Hash32
	s := sha256.Sum256([]byte(fmt.Sprintf("unknown:%d", id)))
	copy(h[:], s[:])
	return h
}

func (s *state) hashOf(id int) bitcoin.Hash32 {
	if h, ok := s.hdrs[id]; ok {
		return *h.BlockHash()
	}
	if h, ok := s.specials[id]; ok {
		return h
	}
	if id == s.genesisID {
		return s.genesisHash
	}
	h := unknownHash(id)
	if s.ids != nil {
		if _, known := s.ids[h]; !known {
			s.unknown[h] = id
		}
	}
	return h
}

// storedInvalid is the invalid-hash list as it is in storage right now ("headers/invalid").
func (s *state) storedInvalid() string {
	data, ok := s.store.mirror["headers/invalid"]
	if !ok {
		return "inv=none"
	}
	if len(data) < 4 {
		return "inv=short"
	}
	n := int(binary.LittleEndian.Uint32(data[:4]))
	if len(data) != 4+32*n {
		return "inv=malformed"
	}
	ids := make([]string, n)
	for i := 0; i < n; i++ {
		var h bitcoin.Hash32
		copy(h[:], data[4+32*i:4+32*i+32])
		ids[i] = s.idOf(h)
		if ids[i] == "?" {
			if id, ok := s.unknown[h]; ok {
				ids[i] = strconv.Itoa(id)
			}
		}
	}
	return "inv=[" + strings.Join(ids, ",") + "]"
}

func (s *state) idOf(h bitcoin.Hash32) string {
	if id, ok := s.ids[h]; ok {
		return strconv.Itoa(id)
	}
	for id, sh := range s.specials {
		if sh.Equal(&h) {
			return strconv.Itoa(id)
		}
	}
	return "?"
}

func (s *state) define(id int, h *wire.BlockHeader) {
	s.hdrs[id] = h
	s.ids[*h.BlockHash()] = id
	s.order = append(s.order, id)
}

func (s *state) newRepo() *headers.Repository {
	repo := headers.NewRepository(s.cfg, s.store)
	if !s.diffOn {
		repo.DisableDifficulty()
	}
	if !s.splitOn {
		repo.DisableSplitProtection()
	}
	return repo
}

func (s *state) tip() string {
	lh := s.repo.LastHash()
	return fmt.Sprintf("h=%d tip=%s work=%s", s.repo.Height(), s.idOf(lh), s.repo.AccumulatedWork().String())
}

func (s *state) drain() string {
	var first []string
	same := true
	for i, ch := range s.subs {
		var got []string
	loop:
		for {
			select {
			case h, ok := <-ch:
				if !ok {
					break loop
				}
				got = append(got, s.idOf(*h.BlockHash()))
			default:
				break loop
			}
		}
		if i == 0 {
			first = got
		} else if strings.Join(got, ",") != strings.Join(first, ",") {
			same = false
		}
	}
	out := "ev=" + hx.List(first)
	if !same {
		out += " evdiff=1"
	}
	return out
}

func verdict(err error) string {
	if err == nil {
		return "ok"
	}
	switch errors.Cause(err) {
	case headers.ErrNotEnoughWork:
		return "badwork"
	case headers.ErrWrongChain:
		return "wrongchain"
	case headers.ErrUnknownHeader:
		return "unknown"
	case headers.ErrInvalidTarget:
		return "badbits"
	case headers.ErrHeaderMarkedInvalid:
		return "invalid"
	case headers.ErrBeyondMaxBranchDepth:
		return "toodeep"
	}
	m := err.Error()
	switch {
	case strings.Contains(m, "Intersect not found"):
		return "err:intersect-not-found"
	case strings.Contains(m, "Intersect missing"):
		return "err:intersect-missing"
	case strings.Contains(m, "Height Unavailable"):
		return "err:height-unavailable"
	case strings.Contains(m, "Wrong Previous Hash"):
		return "err:wrong-previous-hash"
	case strings.Contains(m, "calculate target"):
		return "err:calculate-target"
	case strings.Contains(m, "Header Data Not Found"):
		return "err:header-data-not-found"
	}
	return "err:other"
}

func readErr(err error) string {
	switch errors.Cause(err) {
	case headers.ErrUnknownHeader:
		return "unknown"
	case headers.ErrHeaderNotAvailable:
		return "notavail"
	case headers.ErrHeightBeyondTip:
		return "beyond"
	}
	m := err.Error()
	switch {
	case strings.Contains(m, "File missing data"):
		return "err:short"
	case strings.Contains(m, "Wrong version"):
		return "err:version"
	case strings.Contains(m, "read"):
		return "err:read"
	}
	return "err:other"
}

func stage(op string, err error) string {
	if err == nil {
		return "ok"
	}
	return "err:" + op
}

func (s *state) dump(step int) string {
	ctx := hx.Ctx()
	ids := append([]int{}, s.order...)
	hasG := false
	for _, id := range ids {
		if id == s.genesisID {
			hasG = true
		}
	}
	if !hasG {
		ids = append([]int{s.genesisID}, ids...)
	}
	// step > 1: a sample (every step-th id / height plus the first 6 and the last 60), for very long chains
	keepIdx := func(i, n, v int) bool { return step <= 1 || v%step == 0 || i < 6 || i >= n-60 }
	var hh, ch, gh, ph []string
	for idx, id := range ids {
		if !keepIdx(idx, len(ids), id) {
			continue
		}
		hash := s.hashOf(id)
		hh = append(hh, fmt.Sprintf("%d:%d", id, s.repo.HashHeight(hash)))
		if h, f, err := s.repo.CheckHeader(ctx, hash); err != nil {
			ch = append(ch, fmt.Sprintf("%d:%s", id, readErr(err)))
		} else {
			ch = append(ch, fmt.Sprintf("%d:%d:%d", id, h, b2i(f)))
		}
		if hd, h, f, err := s.repo.GetHeader(ctx, hash); err != nil {
			gh = append(gh, fmt.Sprintf("%d:%s", id, readErr(err)))
		} else {
			gh = append(gh, fmt.Sprintf("%d:%s:%d:%d", id, s.idOf(*hd.BlockHash()), h, b2i(f)))
		}
		if p, h := s.repo.PreviousHash(hash); p == nil {
			ph = append(ph, fmt.Sprintf("%d:nil", id))
		} else {
			ph = append(ph, fmt.Sprintf("%d:%s:%d", id, s.idOf(*p), h))
		}
	}
	top := s.repo.Height() + 1
	var at []string
	// heights next to a 1000-header file boundary are always kept: the boundary ranges below are judged against them
	nearBoundary := func(k int) bool { return k >= 997 && (k%1000 >= 997 || k%1000 <= 3) }
	for k := s.dumpFrom; k <= top; k++ {
		if !keepIdx(k-s.dumpFrom, top+1-s.dumpFrom, k) && !nearBoundary(k) {
			continue
		}
		hs, err := s.repo.Hash(ctx, k)
		if err != nil {
			at = append(at, fmt.Sprintf("%d:%s", k, readErr(err)))
			continue
		}
		e := fmt.Sprintf("%d:%s", k, s.idOf(*hs))
		if hd, err := s.repo.Header(ctx, k); err != nil || !hd.BlockHash().Equal(hs) {
			e += "/header-mismatch"
		}
		at = append(at, e)
	}
	rng := func(a, n int) string {
		l, err := s.repo.GetHeaders(ctx, a, n)
		if err != nil {
			return fmt.Sprintf("%d+%d:%s", a, n, readErr(err))
		}
		xs := make([]string, len(l))
		for i, h := range l {
			xs[i] = s.idOf(*h.BlockHash())
		}
		return fmt.Sprintf("%d+%d:%s", a, n, hx.List(xs))
	}
	th := s.repo.Height()
	lo := 0
	if th >= 3 {
		lo = th - 3
	}
	full := s.dumpFrom
	if step > 1 && top-100 > full {
		full = top - 100
	}
	ranges := []string{rng(full, top+2-full), rng(lo, 10), rng(s.dumpFrom+(th-s.dumpFrom)/2, 5)}
	// ranges across every main-file boundary below the tip (served from storage once pruned), and one from the
	// stored part into the part held in memory (the smallest prune depth in use is 146)
	for b := 1000; b < th; b += 1000 {
		if b-3 >= s.dumpFrom {
			ranges = append(ranges, rng(b-3, 7))
		}
	}
	if th-160 >= s.dumpFrom {
		ranges = append(ranges, rng(th-160, 30))
	}
	return fmt.Sprintf("%s hh=[%s] ch=[%s] gh=[%s] ph=[%s] at=[%s] rg=[%s]", s.tip(), strings.Join(hh, ","),
		strings.Join(ch, ","), strings.Join(gh, ","), strings.Join(ph, ","), strings.Join(at, ","), strings.Join(ranges, ";"))
}

// evKind names a storage event canonically: M<file> main write, R<file> main remove, B<id> branch
// file write, I index write, V invalid list write.
func (s *state) evKind(e storeEv) string {
	k := e.key
	switch {
	case k == "headers/invalid":
		return "V"
	case k == "headers/branches/index":
		return "I"
	case strings.HasPrefix(k, "headers/branches/"):
		h, err := bitcoin.NewHash32FromStr(strings.TrimPrefix(k, "headers/branches/"))
		if err != nil {
			return "B?"
		}
		return "B" + s.idOf(*h)
	case strings.HasPrefix(k, "headers/"):
		n, _ := strconv.ParseInt(strings.TrimPrefix(k, "headers/"), 16, 64)
		if e.write {
			return fmt.Sprintf("M%d", n)
		}
		return fmt.Sprintf("R%d", n)
	}
	return "?" + k
}

func (s *state) showLoc(l []bitcoin.Hash32) string {
	xs := make([]string, len(l))
	for i, h := range l {
		xs[i] = s.idOf(h)
	}
	if len(xs) > 10 {
		// sort.Sort is a stable insertion sort only up to 12 elements; beyond that the order inside
		// equal heights (hence which duplicates end up adjacent) is unspecified: compare as a set
		seen := map[int]bool{}
		var n []int
		for _, x := range xs {
			v, _ := strconv.Atoi(x)
			if !seen[v] {
				seen[v] = true
				n = append(n, v)
			}
		}
		sort.Ints(n)
		return "loc=set" + hx.IntList(n)
	}
	return "loc=" + hx.List(xs)
}

func (s *state) loadFixture() {
	if s.fixture != nil {
		return
	}
	f, err := os.Open("/repo/headers/test_fixtures/headers_556000.txt")
	if err != nil {
		return
	}
	defer f.Close()
	json.NewDecoder(f).Decode(&s.fixture)
}

func (s *state) step(line string) string {
	ctx := hx.Ctx()
	op := hx.OpPart(line)
	verb, a := hx.Parse(op)
	switch verb {
	case "init":
		s.cfg = headers.DefaultConfig()
		s.cfg.Network = bitcoin.TestNet
		if a["net"] == "main" {
			s.cfg.Network = bitcoin.MainNet
		}
		if d, ok := a.Int("maxdepth"); ok {
			s.cfg.MaxBranchDepth = int(d)
		}
		s.diffOn = a["diff"] == "on"
		s.splitOn = a["split"] != "off"
		s.store = newRecStore()
		s.hdrs = map[int]*wire.BlockHeader{}
		s.ids = map[bitcoin.Hash32]int{}
		s.unknown = map[bitcoin.Hash32]int{}
		s.order = nil
		s.specials = map[int]bitcoin.Hash32{}
		if s.cfg.Network == bitcoin.MainNet {
			s.specials = specialIDs()
		}
		s.repo = s.newRepo()
		s.repo.InitializeWithGenesis()
		s.genesisID = 0
		s.dumpFrom = 0
		s.genesisHash = s.repo.LastHash()
		s.ids[s.genesisHash] = 0
		s.subs = []<-chan *wire.BlockHeader{s.repo.GetNewHeadersAvailableChannel()}
		return op + " => ok"
	case "hdrreal":
		// real main-net headers around the BCH/BSV split, rewritten into a plain `hdr` op
		s.loadFixture()
		var h *wire.BlockHeader
		id := 0
		switch a["name"] {
		case "before":
			if len(s.fixture) > 766 {
				h, id = s.fixture[766], 900003
			}
		case "bsv":
			h, id = headers.MainNetRequiredHeader, 900005
		case "bch":
			if len(s.fixture) > 766 {
				mr, _ := bitcoin.NewHash32FromStr("1cf31105bd6b1b4dba9ae55290ec06fff15b4567ec62a6e3863409bb3efd1944")
				h = &wire.BlockHeader{Version: 0x20000000, PrevBlock: *s.fixture[766].BlockHash(), MerkleRoot: *mr,
					Timestamp: 1542304936, Bits: 402792411, Nonce: 3911120513}
				id = 900004
			}
		}
		if h == nil {
			break
		}
		prev := s.idOf(h.PrevBlock)
		if prev == "?" {
			prev = "999998"
		}
		s.define(id, h)
		return fmt.Sprintf("hdr id=%d prev=%s bits=%d time=%d real=%s => ok", id, prev, h.Bits, h.Timestamp, a["name"])
	case "hdr":
		id, ok1 := a.Int("id")
		prev, ok2 := a.Int("prev")
		bits, ok3 := a.Uint("bits")
		tm, ok4 := a.Uint("time")
		if !ok1 || !ok2 || !ok3 || !ok4 {
			break
		}
		if _, real := a["real"]; real {
			return op + " => ok" // already defined by hdrreal when this line is replayed
		}
		mr, _ := a.Uint("mr")
		h := &wire.BlockHeader{Version: 1, PrevBlock: s.hashOf(int(prev)), Timestamp: uint32(tm), Bits: uint32(bits), Nonce: uint32(id)}
		if a["blk"] == "1" && mr > 0 {
			// the header commits to a block of `mr` transactions (ids derived from the header id)
			h.MerkleRoot = plainMerkleRoot(blockTxids(int(id), int(mr)))
		} else {
			m := sha256.Sum256([]byte(fmt.Sprintf("mr:%d:%d", id, mr)))
			copy(h.MerkleRoot[:], m[:])
		}
		s.define(int(id), h)
		return op + " => ok"
	case "latest":
		id, ok1 := a.Int("id")
		height, ok2 := a.Int("height")
		h, ok3 := s.hdrs[int(id)]
		work, ok4 := new(big.Int).SetString(a["work"], 10)
		if !ok1 || !ok2 || !ok3 || !ok4 {
			break
		}
		s.repo.MockLatest(ctx, h, int(height), work)
		s.dumpFrom = int(height) - 1
		return op + " => " + s.tip()
	case "sub":
		id, ok := a.Int("id")
		h, ok2 := s.hdrs[int(id)]
		if !ok || !ok2 {
			break
		}
		hok := 0
		hx.Guard(func() string {
			if h.WorkIsValid() {
				hok = 1
			}
			return ""
		})
		out, ptxt := hx.Guard(func() string { return "v=" + verdict(s.repo.ProcessHeader(ctx, h)) })
		if out == "panic" {
			return fmt.Sprintf("sub id=%d hok=%d => v=panic #%s", id, hok, strings.ReplaceAll(ptxt, " ", "_"))
		}
		return fmt.Sprintf("sub id=%d hok=%d => %s %s %s", id, hok, out, s.tip(), s.drain())
	case "clean", "cleand", "save", "mark", "unmark":
		var f func() error
		name := verb
		switch verb {
		case "clean":
			f = func() error { return s.repo.Clean(ctx) }
		case "cleand":
			d, ok := a.Int("d")
			if !ok {
				return op + " => bad-op"
			}
			name = "clean"
			f = func() error { return s.repo.CleanWithDepth(ctx, int(d)) }
		case "save":
			f = func() error { return s.repo.Save(ctx) }
		case "mark", "unmark":
			id, ok := a.Int("id")
			if !ok {
				return op + " => bad-op"
			}
			hash := s.hashOf(int(id))
			if verb == "mark" {
				f = func() error { return s.repo.MarkHeaderInvalid(ctx, hash) }
			} else {
				f = func() error { return s.repo.MarkHeaderNotInvalid(ctx, hash) }
			}
		}
		out, ptxt := hx.Guard(func() string { return "r=" + stage(name, f()) })
		if out == "panic" {
			return op + " => r=panic #" + strings.ReplaceAll(ptxt, " ", "_")
		}
		res := op + " => " + out + " " + s.tip()
		if verb == "mark" || verb == "unmark" {
			res += " " + s.storedInvalid()
		}
		if ev := s.drain(); ev != "ev=[]" {
			res += " " + ev
		}
		return res
	case "cfginv":
		// headers.Config.InvalidHeaderHashes: takes effect in the next repository object (NewRepository + Load)
		ids, ok := a.NatList("ids")
		if !ok {
			return op + " => bad-op"
		}
		cfg := *s.cfg
		cfg.InvalidHeaderHashes = nil
		for _, id := range ids {
			cfg.InvalidHeaderHashes = append(cfg.InvalidHeaderHashes, s.hashOf(id))
		}
		s.cfg = &cfg
		return op + " => ok"
	case "load", "loadd":
		repo := s.newRepo()
		out, ptxt := hx.Guard(func() string {
			if verb == "loadd" {
				d, _ := a.Int("d")
				return "r=" + stage("load", repo.LoadWithDepth(ctx, int(d)))
			}
			return "r=" + stage("load", repo.Load(ctx))
		})
		if out == "panic" {
			return op + " => r=panic #" + strings.ReplaceAll(ptxt, " ", "_")
		}
		if out != "r=ok" {
			return op + " => " + out // the failed repository is discarded, the old one is kept
		}
		s.repo = repo
		s.subs = []<-chan *wire.BlockHeader{s.repo.GetNewHeadersAvailableChannel()}
		return op + " => r=ok " + s.tip()
	case "crashsave", "crashclean":
		// run Save / Clean recording the storage events, then load every prefix image
		base := map[string][]byte{}
		for k, v := range s.store.mirror {
			base[k] = v
		}
		s.store.log = nil
		s.store.rec = true
		out, ptxt := hx.Guard(func() string {
			if verb == "crashsave" {
				return "r=" + stage("save", s.repo.Save(ctx))
			}
			d, ok := a.Int("d")
			if !ok {
				return "r=" + stage("clean", s.repo.Clean(ctx))
			}
			return "r=" + stage("clean", s.repo.CleanWithDepth(ctx, int(d)))
		})
		s.store.rec = false
		if out == "panic" {
			return op + " => r=panic #" + strings.ReplaceAll(ptxt, " ", "_")
		}
		evs := append([]storeEv{}, s.store.log...)
		var kinds []string
		for _, e := range evs {
			kinds = append(kinds, s.evKind(e))
		}
		ld, hasLd := a.Int("ld")
		var res []string
		for k := 0; k <= len(evs); k++ {
			img := imageStore(base, evs[:k])
			repo := headers.NewRepository(s.cfg, img)
			if !s.diffOn {
				repo.DisableDifficulty()
			}
			if !s.splitOn {
				repo.DisableSplitProtection()
			}
			r, _ := hx.Guard(func() string {
				var err error
				if hasLd {
					err = repo.LoadWithDepth(ctx, int(ld))
				} else {
					err = repo.Load(ctx)
				}
				if err != nil {
					return "err"
				}
				return "ok"
			})
			if r != "ok" {
				res = append(res, fmt.Sprintf("%d:%s", k, r))
				continue
			}
			info, _ := hx.Guard(func() string {
				h := repo.Height()
				lh := repo.LastHash()
				linked := 1
				var prev *bitcoin.Hash32
				for i := 0; i <= h; i++ {
					hd, err := repo.Header(ctx, i)
					if err != nil {
						linked = 0
						break
					}
					if i == 0 {
						if !hd.BlockHash().Equal(&s.genesisHash) {
							linked = 0
						}
					} else if !hd.PrevBlock.Equal(prev) {
						linked = 0
						break
					}
					prev = hd.BlockHash()
				}
				if linked == 1 && (prev == nil || !prev.Equal(&lh)) {
					linked = 0
				}
				return fmt.Sprintf("ok:%d:%s:%s:%d", h, s.idOf(lh), repo.AccumulatedWork().String(), linked)
			})
			res = append(res, fmt.Sprintf("%d:%s", k, info))
		}
		return fmt.Sprintf("%s => %s %s ev=%s p=%s", op, out, s.tip(), hx.List(kinds), hx.List(res))
	case "storefail":
		// a storage outage: every write and removal fails until it is switched off (not modelled: the
		// driver stops comparing, the monitor goes on evaluating the properties)
		v, _ := a.Int("on")
		s.store.fail = v != 0
		return op + " => ok"
	case "subscribe":
		s.subs = append(s.subs, s.repo.GetNewHeadersAvailableChannel())
		return op + " => ok"
	case "dump":
		step := 1
		if v, ok := a.Int("step"); ok && v > 1 {
			step = int(v)
		}
		out, ptxt := hx.Guard(func() string { return s.dump(step) })
		if out == "panic" {
			return op + " => panic #" + strings.ReplaceAll(ptxt, " ", "_")
		}
		return op + " => " + out
	case "loc":
		m, ok := a.Int("max")
		if !ok {
			break
		}
		out, ptxt := hx.Guard(func() string {
			l, _ := s.repo.GetLocatorHashes(ctx, int(m))
			return s.showLoc(l)
		})
		if out == "panic" {
			return op + " => panic #" + strings.ReplaceAll(ptxt, " ", "_")
		}
		return op + " => " + out
	case "verify":
		id, ok := a.Int("id")
		h, ok2 := s.hdrs[int(id)]
		if !ok || !ok2 {
			break
		}
		err := s.repo.VerifyHeader(ctx, h)
		v := verdict(err)
		if err != nil && strings.Contains(err.Error(), "Header after genesis") {
			v = "err:after-genesis"
		}
		return op + " => v=" + v
	case "proof":
		return op + " => " + s.proofOp(a)
	case "vloc":
		l, _ := s.repo.GetVerifyOnlyLocatorHashes(ctx)
		return op + " => " + s.showLoc(l)
	}
	return op + " => bad-op"
}

func blockTxids(block, n int) []bitcoin.Hash32 {
	out := make([]bitcoin.Hash32, n)
	for i := range out {
		copy(out[i][:], bitcoin.DoubleSha256([]byte(fmt.Sprintf("tx:%d:%d", block, i))))
	}
	return out
}

// plainMerkleRoot is an independent textbook implementation (pair up, duplicate the last when odd).
func plainMerkleRoot(l []bitcoin.Hash32) bitcoin.Hash32 {
	if len(l) == 0 {
		return bitcoin.Hash32{}
	}
	for len(l) > 1 {
		var next []bitcoin.Hash32
		for i := 0; i < len(l); i += 2 {
			j := i + 1
			if j == len(l) {
				j = i
			}
			var h bitcoin.Hash32
			copy(h[:], bitcoin.DoubleSha256(append(append([]byte{}, l[i][:]...), l[j][:]...)))
			next = append(next, h)
		}
		l = next
	}
	return l[0]
}

// proofOp builds the honest merkle proof of transaction `tx` of the block the header `block`
// commits to (with the dependency's MerkleTree), applies one mutation and calls VerifyMerkleProof.
func (s *state) proofOp(a hx.Args) string {
	ctx := hx.Ctx()
	bid, ok1 := a.Int("block")
	n, ok2 := a.Int("n")
	ti, ok3 := a.Int("tx")
	hdr, ok4 := s.hdrs[int(bid)]
	if !ok1 || !ok2 || !ok3 || !ok4 || ti < 0 || ti >= n {
		return "bad-op"
	}
	txids := blockTxids(int(bid), int(n))
	tree := merkle_proof.NewMerkleTree(true)
	for i, t := range txids {
		if int64(i) == ti {
			tree.AddMerkleProof(t)
		}
		tree.AddHash(t)
	}
	_, proofs := tree.FinalizeMerkleProofs()
	if len(proofs) != 1 {
		return "bad-op"
	}
	p := proofs[0]
	hash := *hdr.BlockHash()
	switch a["form"] {
	case "hash":
		p.BlockHash = &hash
	case "both":
		p.BlockHeader = hdr
		p.BlockHash = &hash
	default:
		p.BlockHeader = hdr
	}
	mut := a["mut"]
	switch {
	case mut == "" || mut == "none":
	case mut == "txid":
		var t bitcoin.Hash32
		copy(t[:], bitcoin.DoubleSha256([]byte("other tx")))
		p.TxID = &t
	case strings.HasPrefix(mut, "path:"):
		k, _ := strconv.Atoi(mut[5:])
		if k < len(p.Path) {
			copy(p.Path[k][:], bitcoin.DoubleSha256([]byte("other sibling")))
		}
	case strings.HasPrefix(mut, "index:"):
		d, _ := strconv.Atoi(mut[6:])
		p.Index += d
	case strings.HasPrefix(mut, "other:"):
		// the proof claims another header (known or not)
		o, _ := strconv.Atoi(mut[6:])
		oh, ok := s.hdrs[o]
		if !ok {
			return "bad-op"
		}
		ohash := *oh.BlockHash()
		if a["form"] == "hash" {
			p.BlockHash = &ohash
		} else {
			p.BlockHeader = oh // with form=both the claimed block hash stays the original one
		}
	case strings.HasPrefix(mut, "otherhash:"):
		// only the claimed block hash names another header; the supplied header is unchanged
		o, _ := strconv.Atoi(mut[10:])
		oh, ok := s.hdrs[o]
		if !ok {
			return "bad-op"
		}
		ohash := *oh.BlockHash()
		p.BlockHash = &ohash
	case mut == "unknownhash":
		u := unknownHash(777777)
		p.BlockHeader = nil
		p.BlockHash = &u
	case mut == "noblock":
		p.BlockHeader = nil
		p.BlockHash = nil
	default:
		return "bad-op"
	}
	out, ptxt := hx.Guard(func() string {
		h, longest, err := s.repo.VerifyMerkleProof(ctx, p)
		if err != nil {
			switch errors.Cause(err) {
			case headers.ErrUnknownHeader:
				return "r=err:unknown"
			case headers.ErrHeaderNotAvailable:
				return "r=err:notavail"
			case merkle_proof.ErrWrongMerkleRoot:
				return "r=err:root"
			case merkle_proof.ErrBadIndex:
				return "r=err:badindex"
			case merkle_proof.ErrNotVerifiable:
				return "r=err:notverifiable"
			}
			return "r=err:other"
		}
		return fmt.Sprintf("r=ok h=%d longest=%d", h, b2i(longest))
	})
	if out == "panic" {
		return "r=panic #" + strings.ReplaceAll(ptxt, " ", "_")
	}
	return out
}

func b2i(b bool) int {
	if b {
		return 1
	}
	return 0
}

func main() {
	if len(os.Args) < 2 {
		fmt.Fprintln(os.Stderr, "usage: hdr run | gen <seed> <scripts> <tier> [profile]")
		os.Exit(2)
	}
	switch os.Args[1] {
	case "run":
		s := &state{}
		hx.Lines(func(line string) string {
			if s.repo == nil && !strings.HasPrefix(line, "init") {
				return hx.OpPart(line) + " => bad-op"
			}
			return s.step(line)
		})
	case "gen":
		seed, _ := strconv.ParseUint(os.Args[2], 10, 64)
		n, _ := strconv.Atoi(os.Args[3])
		profile := "mixed"
		if len(os.Args) > 5 {
			profile = os.Args[5]
		}
		gen(seed, n, os.Args[4], profile)
	}
}
