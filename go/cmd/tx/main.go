// Command tx is the correspondence harness for C06: it drives the real TxManager (AddTxID, AddTx,
// GetTxRequests, Clean, Run with a counting TxProcessor/TxSaver) with scripts of operations and
// prints one observation per operation.
//
//	tx run              < scripts > observations      (scripts run on a worker pool, output in order)
//	tx gen <seed> <scripts> <tier>         > sequential scripts
//	tx genstress <seed> <scripts> <tier>   > concurrent stress scripts
//
// Time. The manager reads the wall clock; the model takes the clock as an input. A script runs in
// "epochs": every op between two `adv` ops is the same model instant, `adv` sleeps one tick
// (> request timeout / to). Modes (init line): `mode=zero` (timeout 0, adv sleeps 1 ms),
// `mode=long` (timeout 1 h, no adv), `mode=short to=K` (timeout K ticks). After a short-mode script
// the harness checks that every window of K consecutive epochs took less than the real timeout
// (so "same instant" / "less than the timeout ago" were true of the real clock); if not the script
// is re-run, and after 5 attempts skipped (printed as comments).
//
// Transactions: id N is a real wire.MsgTx (one OP_RETURN output carrying N, lock time ground until
// the first byte of the txid is N % 256, the manager's bucket index). The id<->hash table is global.
package main

import (
	"bufio"
	"context"
	"encoding/binary"
	"fmt"
	"os"
	"runtime"
	"sort"
	"strconv"
	"strings"
	"sync"
	"sync/atomic"
	"time"

	"brvharness/internal/hx"

	"github.com/google/uuid"
	"github.com/tokenized/bitcoin_reader"
	"github.com/tokenized/pkg/bitcoin"
	"github.com/tokenized/pkg/merkle_proof"
	"github.com/tokenized/pkg/wire"
)

// ---- transactions ----

type txInfo struct {
	id   int
	tx   *wire.MsgTx
	hash bitcoin.Hash32
}

var (
	txMu     sync.RWMutex
	txByID         = map[int]*txInfo{}
	txByHash       = map[bitcoin.Hash32]*txInfo{}
	sentinel int64 = 1 << 40
)

func makeTx(id int, grind bool) *txInfo {
	tx := wire.NewMsgTx(1)
	script := make([]byte, 0, 12)
	script = append(script, 0x00, 0x6a, 0x08) // OP_FALSE OP_RETURN push(8)
	var b [8]byte
	binary.LittleEndian.PutUint64(b[:], uint64(id))
	script = append(script, b[:]...)
	tx.AddTxOut(wire.NewTxOut(0, bitcoin.Script(script)))
	for nonce := uint32(0); ; nonce++ {
		tx.LockTime = nonce
		h := *tx.TxHash()
		if !grind || int(h[0]) == id%256 {
			return &txInfo{id: id, tx: tx, hash: h}
		}
	}
}

func getTx(id int) *txInfo {
	txMu.RLock()
	t := txByID[id]
	txMu.RUnlock()
	if t != nil {
		return t
	}
	t = makeTx(id, true)
	txMu.Lock()
	if t2 := txByID[id]; t2 != nil {
		t = t2
	} else {
		txByID[id] = t
		txByHash[t.hash] = t
	}
	txMu.Unlock()
	return t
}

func idOf(h bitcoin.Hash32) int {
	txMu.RLock()
	defer txMu.RUnlock()
	if t := txByHash[h]; t != nil {
		return t.id
	}
	return -1
}

func nodeID(n int) uuid.UUID {
	var u uuid.UUID
	binary.BigEndian.PutUint64(u[8:], uint64(n))
	u[0] = 0xbb
	return u
}

// ---- counting processor / saver ----

type recorder struct {
	mu        sync.Mutex
	proc      []int
	saved     []int
	rel       map[int]bool
	sentinels map[bitcoin.Hash32]chan struct{}
}

func newRecorder() *recorder {
	return &recorder{rel: map[int]bool{}, sentinels: map[bitcoin.Hash32]chan struct{}{}}
}

func (r *recorder) ProcessTx(ctx context.Context, tx *wire.MsgTx) (bool, error) {
	h := *tx.TxHash()
	r.mu.Lock()
	defer r.mu.Unlock()
	if ch, ok := r.sentinels[h]; ok {
		delete(r.sentinels, h)
		close(ch)
		return false, nil
	}
	id := idOf(h)
	r.proc = append(r.proc, id)
	return r.rel[id], nil
}

func (r *recorder) SaveTx(ctx context.Context, tx *wire.MsgTx) error {
	r.mu.Lock()
	r.saved = append(r.saved, idOf(*tx.TxHash()))
	r.mu.Unlock()
	return nil
}

func (r *recorder) CancelTx(ctx context.Context, txid bitcoin.Hash32) error { return nil }
func (r *recorder) AddTxConflict(ctx context.Context, txid, conflictTxID bitcoin.Hash32) error {
	return nil
}
func (r *recorder) ConfirmTx(ctx context.Context, txid bitcoin.Hash32, blockHeight int,
	merkleProof *merkle_proof.MerkleProof) error {
	return nil
}
func (r *recorder) UpdateTxChainDepth(ctx context.Context, txid bitcoin.Hash32, chainDepth uint32) error {
	return nil
}
func (r *recorder) ProcessCoinbaseTx(ctx context.Context, blockHash bitcoin.Hash32, tx *wire.MsgTx) error {
	return nil
}

// ---- one script ----

type runner struct {
	ctx     context.Context
	m       *bitcoin_reader.TxManager
	rec     *recorder
	runDone chan error
	mode    string
	to      int
	tick    time.Duration
	timeout time.Duration
	epoch   int
	starts  []time.Time
	ends    []time.Time
}

func (r *runner) close() {
	if r.m != nil {
		r.m.Stop(r.ctx)
		select {
		case <-r.runDone:
		case <-hx.After(5 * time.Second):
		}
		r.m = nil
	}
}

func (r *runner) init(a hx.Args) string {
	r.close()
	r.mode = a["mode"]
	to, ok := a.Int("to")
	if !ok || to < 0 || to > 4 {
		return "bad-op"
	}
	r.to = int(to)
	switch r.mode {
	case "zero":
		if r.to != 0 {
			return "bad-op"
		}
		r.tick, r.timeout = time.Millisecond, 0
	case "long":
		if r.to != 1 {
			return "bad-op"
		}
		r.tick, r.timeout = 0, time.Hour
	case "stale": // only the `stale` op is valid; it builds its own managers
		if r.to != 1 {
			return "bad-op"
		}
		r.tick, r.timeout = 0, time.Hour
	case "short":
		if r.to < 1 {
			return "bad-op"
		}
		r.tick = 150 * time.Millisecond
		if r.to > 1 {
			r.tick = 100 * time.Millisecond
		}
		r.timeout = time.Duration(r.to) * r.tick
	default:
		return "bad-op"
	}
	r.m = bitcoin_reader.NewTxManager(r.timeout)
	r.rec = newRecorder()
	r.m.SetTxProcessor(r.rec)
	r.m.SetTxSaver(r.rec)
	r.runDone = make(chan error, 1)
	m := r.m
	go func() { r.runDone <- m.Run(r.ctx) }()
	r.epoch = 0
	now := time.Now()
	r.starts = []time.Time{now}
	r.ends = []time.Time{now}
	return "ok"
}

// waitRun waits until Run has consumed everything sent so far (FIFO channel, single consumer: a
// fresh sentinel transaction is processed after all of them).
func (r *runner) waitRun() bool {
	s := makeTx(int(atomic.AddInt64(&sentinel, 1)), false)
	ch := make(chan struct{})
	r.rec.mu.Lock()
	r.rec.sentinels[s.hash] = ch
	r.rec.mu.Unlock()
	r.m.AddTx(r.ctx, nil, nodeID(0), s.tx)
	select {
	case <-ch:
		return true
	case <-hx.After(10 * time.Second):
		return false
	}
}

func (r *runner) drainObs() string {
	if !r.waitRun() {
		return "stuck"
	}
	r.rec.mu.Lock()
	defer r.rec.mu.Unlock()
	return "proc=" + hx.IntList(r.rec.proc) + " saved=" + hx.IntList(r.rec.saved)
}

func stripKey(op, key string) string {
	ws := strings.Fields(op)
	out := ws[:0]
	for _, w := range ws {
		if !strings.HasPrefix(w, key+"=") {
			out = append(out, w)
		}
	}
	return strings.Join(out, " ")
}

func (r *runner) step(line string) (res string) {
	op := hx.OpPart(line)
	verb, a := hx.Parse(op)
	defer func() {
		if p := recover(); p != nil {
			res = op + " => panic #" + strings.ReplaceAll(fmt.Sprint(p), " ", "_")
		}
		if len(r.ends) > 0 {
			r.ends[len(r.ends)-1] = time.Now()
		}
	}()
	if verb == "init" {
		return op + " => " + r.init(a)
	}
	if r.m == nil {
		return op + " => bad-op"
	}
	switch verb {
	case "ann":
		n, ok := a.Int("node")
		t, ok2 := a.Int("tx")
		if !ok || !ok2 {
			break
		}
		req, err := r.m.AddTxID(r.ctx, nodeID(int(n)), getTx(int(t)).hash)
		if err != nil {
			return op + " => err"
		}
		return fmt.Sprintf("%s => req=%d", op, b2i(req))
	case "dlv":
		n, ok := a.Int("node")
		t, ok2 := a.Int("tx")
		rel, ok3 := a.Int("rel")
		if !ok || !ok2 || !ok3 {
			break
		}
		ti := getTx(int(t))
		r.rec.mu.Lock()
		if _, seen := r.rec.rel[ti.id]; !seen {
			r.rec.rel[ti.id] = rel != 0
		}
		r.rec.mu.Unlock()
		if err := r.m.AddTx(r.ctx, nil, nodeID(int(n)), ti.tx); err != nil {
			return op + " => err"
		}
		return op + " => ok"
	case "poll":
		n, ok := a.Int("node")
		max, ok2 := a.Int("max")
		if !ok || !ok2 {
			break
		}
		txids, err := r.m.GetTxRequests(r.ctx, nodeID(int(n)), int(max))
		if err != nil {
			return op + " => err"
		}
		ids := make([]int, len(txids))
		for i, h := range txids {
			ids[i] = idOf(h)
		}
		sort.Ints(ids)
		return fmt.Sprintf("%s got=%s => n=%d", stripKey(op, "got"), hx.IntList(ids), len(ids))
	case "adv":
		if r.mode == "long" {
			return op + " => unsupported"
		}
		r.ends[len(r.ends)-1] = time.Now()
		margin := 8 * time.Millisecond
		if r.mode == "zero" {
			margin = 0
		}
		time.Sleep(r.tick + margin)
		r.epoch++
		now := time.Now()
		r.starts = append(r.starts, now)
		r.ends = append(r.ends, now)
		return op + " => ok"
	case "clean":
		j, ok := a.Int("keep")
		if !ok || j < 0 {
			break
		}
		oldest := time.Now()
		if int(j) <= r.epoch {
			oldest = r.starts[j]
		}
		if err := r.m.Clean(r.ctx, oldest); err != nil {
			return op + " => err"
		}
		return op + " => ok"
	case "drain":
		return op + " => " + r.drainObs()
	case "stress":
		return op + " => " + r.stress(a)
	case "storm":
		return op + " => " + r.storm(a)
	case "stale":
		if r.mode != "stale" {
			break
		}
		return r.stale(op, a)
	}
	return op + " => bad-op"
}

// timingOK: in short mode, everything within `to` consecutive epochs must have happened within less
// than the real timeout (with a safety margin), otherwise "same instant" was not true.
func (r *runner) timingOK() bool {
	if r.mode != "short" {
		return true
	}
	for k := range r.starts {
		last := k + r.to - 1
		if last >= len(r.ends) {
			last = len(r.ends) - 1
		}
		if r.ends[last].Sub(r.starts[k]) > r.timeout-10*time.Millisecond {
			return false
		}
	}
	return true
}

func runScript(lines []string) []string {
	var out []string
	for attempt := 0; attempt < 5; attempt++ {
		r := &runner{ctx: hx.Ctx()}
		out = out[:0]
		for _, l := range lines {
			out = append(out, r.step(l))
		}
		ok := r.timingOK()
		for _, l := range out {
			if strings.Contains(l, " => unstable") {
				ok = false
			}
		}
		r.close()
		if ok {
			return out
		}
	}
	skipped := []string{"# script skipped: real time between two adv ops exceeded the request timeout 5 times"}
	for _, l := range lines {
		skipped = append(skipped, "# "+l)
	}
	return skipped
}

// ---- concurrent stress ----

// stress runs g goroutines, each issuing n random calls (ann / dlv / poll) over txs ids base..base+txs-1
// and nodes 1..nodes, all inside the current epoch. Observation: every grant (tx:node, sorted), the
// delivered ids, and `late` = grants obtained by a call that STARTED after a delivery of that tx had
// RETURNED (happens-after), which the property forbids.
func (r *runner) stress(a hx.Args) string {
	seed, _ := a.Uint("seed")
	g64, _ := a.Int("g")
	n64, _ := a.Int("n")
	txs64, _ := a.Int("txs")
	nodes64, _ := a.Int("nodes")
	base64, _ := a.Int("base")
	dp64, _ := a.Int("dp")
	dp := int(dp64)
	g, n, txs, nodes, base := int(g64), int(n64), int(txs64), int(nodes64), int(base64)
	if g < 1 || n < 1 || txs < 1 || nodes < 1 || g > 64 || n > 100000 {
		return "bad-op"
	}
	infos := make([]*txInfo, txs)
	delivered := make([]int32, txs) // 1 once some AddTx of it has returned
	for i := range infos {
		infos[i] = getTx(base + i)
		r.rec.mu.Lock()
		if _, seen := r.rec.rel[infos[i].id]; !seen {
			r.rec.rel[infos[i].id] = infos[i].id%3 == 0
		}
		r.rec.mu.Unlock()
	}
	type grant struct{ tx, node int }
	var mu sync.Mutex
	var grants []grant
	var late []int
	waits := map[grant]bool{}  // announcements answered false: the node is recorded as an announcer
	pgrants := map[int]bool{}  // txs handed out by a poll inside this op
	dlv := map[int]bool{}
	var wg sync.WaitGroup
	start := make(chan struct{})
	panics := int32(0)
	for w := 0; w < g; w++ {
		wg.Add(1)
		go func(w int) {
			defer wg.Done()
			defer func() {
				if p := recover(); p != nil {
					atomic.AddInt32(&panics, 1)
				}
			}()
			rng := hx.NewRng(seed*1000 + uint64(w))
			<-start
			for i := 0; i < n; i++ {
				ti := rng.Intn(txs)
				node := 1 + rng.Intn(nodes)
				switch rng.Pick(60-dp/2, dp, 40-dp/2) {
				case 0:
					was := atomic.LoadInt32(&delivered[ti])
					req, _ := r.m.AddTxID(r.ctx, nodeID(node), infos[ti].hash)
					if req {
						mu.Lock()
						grants = append(grants, grant{infos[ti].id, node})
						if was == 1 {
							late = append(late, infos[ti].id)
						}
						mu.Unlock()
					} else {
						mu.Lock()
						waits[grant{infos[ti].id, node}] = true
						mu.Unlock()
					}
				case 1:
					r.m.AddTx(r.ctx, nil, nodeID(node), infos[ti].tx)
					atomic.StoreInt32(&delivered[ti], 1)
					mu.Lock()
					dlv[infos[ti].id] = true
					mu.Unlock()
				case 2:
					was := make([]int32, txs)
					for k := range was {
						was[k] = atomic.LoadInt32(&delivered[k])
					}
					max := 1 + rng.Intn(2*txs)
					hs, _ := r.m.GetTxRequests(r.ctx, nodeID(node), max)
					mu.Lock()
					for _, h := range hs {
						id := idOf(h)
						grants = append(grants, grant{id, node})
						pgrants[id] = true
						if id >= base && id < base+txs && was[id-base] == 1 {
							late = append(late, id)
						}
					}
					mu.Unlock()
				}
			}
		}(w)
	}
	stopClean := make(chan struct{})
	cleanDone := make(chan struct{})
	go func() {
		// a Clean that removes nothing by age (every entry is younger than 1970) runs beside the calls: an entry
		// inserted while a bucket is being rebuilt must survive
		defer close(cleanDone)
		for {
			select {
			case <-stopClean:
				return
			default:
			}
			r.m.Clean(r.ctx, time.Unix(1, 0))
		}
	}()
	close(start)
	wg.Wait()
	close(stopClean)
	<-cleanDone
	if panics > 0 {
		return "panic"
	}
	sort.Slice(grants, func(i, j int) bool {
		if grants[i].tx != grants[j].tx {
			return grants[i].tx < grants[j].tx
		}
		return grants[i].node < grants[j].node
	})
	gs := make([]string, len(grants))
	for i, x := range grants {
		gs[i] = fmt.Sprintf("%d:%d", x.tx, x.node)
	}
	sort.Ints(late)
	ds := []int{}
	for id := range dlv {
		ds = append(ds, id)
	}
	sort.Ints(ds)
	var ws []grant
	for w := range waits {
		ws = append(ws, w)
	}
	sort.Slice(ws, func(i, j int) bool {
		if ws[i].tx != ws[j].tx {
			return ws[i].tx < ws[j].tx
		}
		return ws[i].node < ws[j].node
	})
	wl := make([]string, len(ws))
	for i, x := range ws {
		wl[i] = fmt.Sprintf("%d:%d", x.tx, x.node)
	}
	pg := []int{}
	for id := range pgrants {
		pg = append(pg, id)
	}
	sort.Ints(pg)
	return "grants=" + hx.List(gs) + " late=" + hx.IntList(late) + " dlv=" + hx.IntList(ds) + " wait=" + hx.List(wl) + " pg=" + hx.IntList(pg)
}

// storm: g goroutines walk the SAME list of fresh txids in lock step (a spin barrier per txid), so that
// the same transaction is announced / delivered by several peers at the same instant. kind=dlv: every
// goroutine delivers; kind=ann: goroutine w announces as node w+1; kind=mix: even goroutines announce,
// odd ones deliver. Observation as for `stress`.
func (r *runner) storm(a hx.Args) string {
	g64, _ := a.Int("g")
	txs64, _ := a.Int("txs")
	base64, _ := a.Int("base")
	kind := a["kind"]
	g, txs, base := int(g64), int(txs64), int(base64)
	if g < 1 || g > 64 || txs < 1 || txs > 4096 {
		return "bad-op"
	}
	infos := make([]*txInfo, txs)
	for i := range infos {
		infos[i] = getTx(base + i)
		r.rec.mu.Lock()
		if _, seen := r.rec.rel[infos[i].id]; !seen {
			r.rec.rel[infos[i].id] = infos[i].id%3 == 0
		}
		r.rec.mu.Unlock()
	}
	arrived := make([]int32, txs)
	delivered := make([]int32, txs)
	type grant struct{ tx, node int }
	var mu sync.Mutex
	var grants []grant
	var late []int
	dlv := map[int]bool{}
	var wg sync.WaitGroup
	panics := int32(0)
	stopClean := make(chan struct{})
	cleanDone := make(chan struct{})
	go func() {
		// a Clean that removes nothing by age (every entry is younger than 1970) runs beside the calls: an entry
		// inserted while a bucket is being rebuilt must survive
		defer close(cleanDone)
		for {
			select {
			case <-stopClean:
				return
			default:
			}
			r.m.Clean(r.ctx, time.Unix(1, 0))
		}
	}()
	for w := 0; w < g; w++ {
		wg.Add(1)
		go func(w int) {
			defer wg.Done()
			defer func() {
				if p := recover(); p != nil {
					atomic.AddInt32(&panics, 1)
					for i := range arrived { // release the others
						atomic.AddInt32(&arrived[i], int32(g))
					}
				}
			}()
			for i := 0; i < txs; i++ {
				atomic.AddInt32(&arrived[i], 1)
				for atomic.LoadInt32(&arrived[i]) < int32(g) {
					runtime.Gosched()
				}
				deliver := kind == "dlv" || (kind == "mix" && w%2 == 1)
				if deliver {
					r.m.AddTx(r.ctx, nil, nodeID(w+1), infos[i].tx)
					atomic.StoreInt32(&delivered[i], 1)
					mu.Lock()
					dlv[infos[i].id] = true
					mu.Unlock()
				} else {
					was := atomic.LoadInt32(&delivered[i])
					req, _ := r.m.AddTxID(r.ctx, nodeID(w+1), infos[i].hash)
					if req {
						mu.Lock()
						grants = append(grants, grant{infos[i].id, w + 1})
						if was == 1 {
							late = append(late, infos[i].id)
						}
						mu.Unlock()
					}
				}
			}
		}(w)
	}
	wg.Wait()
	close(stopClean)
	<-cleanDone
	if panics > 0 {
		return "panic"
	}
	sort.Slice(grants, func(i, j int) bool {
		if grants[i].tx != grants[j].tx {
			return grants[i].tx < grants[j].tx
		}
		return grants[i].node < grants[j].node
	})
	gs := make([]string, len(grants))
	for i, x := range grants {
		gs[i] = fmt.Sprintf("%d:%d", x.tx, x.node)
	}
	sort.Ints(late)
	ds := []int{}
	for id := range dlv {
		ds = append(ds, id)
	}
	sort.Ints(ds)
	return "grants=" + hx.List(gs) + " late=" + hx.IntList(late) + " dlv=" + hx.IntList(ds)
}

// stale drives, on the real code, a poll that is slower than the request time-out (regression for
// repository fix 9c84f1c). `fill` entries that the polling node never announced make GetTxRequests slow;
// `targets` txids (spread over all 256 buckets) were requested from node 1 and are waiting for node 2. The
// time-out of the manager under test is set to a quarter of a calibrated poll duration. After the time-out
// has passed node 2 polls (P1, duration D >= 2 time-outs); P1's result is in grant order, so its last `tail`
// txids were handed out within the last few of the 256 buckets, i.e. far less than a time-out before P1
// returned. Immediately afterwards node 4 announces exactly those txids: `dup` counts the announcements
// answered `true` (a second request for a txid less than a time-out after the first; must be 0, was `tail`
// when LastRequested was stamped with the clock value read at the start of the call). The op text gets
// `slow=1`; if the timing conditions cannot be met in 5 attempts the op reports `unstable` (the script is
// then re-run and finally skipped).
func (r *runner) stale(op string, a hx.Args) string {
	fill64, _ := a.Int("fill")
	targets64, _ := a.Int("targets")
	tail64, _ := a.Int("tail")
	fill, targets, tail := int(fill64), int(targets64), int(tail64)
	if fill < 1000 || fill > 2000000 || targets < 256 || targets > 4096 || tail < 1 || tail > targets {
		return op + " => bad-op"
	}
	op = stripKey(op, "slow")
	rng := hx.NewRng(uint64(fill)*31 + uint64(targets))
	mkHash := func(first int) bitcoin.Hash32 {
		var h bitcoin.Hash32
		for i := 0; i < 4; i++ {
			binary.LittleEndian.PutUint64(h[8*i:], rng.Next())
		}
		if first >= 0 {
			h[0] = byte(first)
		}
		return h
	}
	fillers := make([]bitcoin.Hash32, fill)
	for i := range fillers {
		fillers[i] = mkHash(-1)
	}
	tg := make([]bitcoin.Hash32, targets)
	tgID := map[bitcoin.Hash32]int{}
	for i := range tg {
		tg[i] = mkHash(i % 256)
		tgID[tg[i]] = i
	}
	build := func(timeout time.Duration) *bitcoin_reader.TxManager {
		m := bitcoin_reader.NewTxManager(timeout)
		for _, h := range fillers {
			m.AddTxID(r.ctx, nodeID(9), h)
		}
		return m
	}
	// calibration: how long does a poll over `fill` foreign entries take?
	cal := build(time.Hour)
	var dcal time.Duration
	for i := 0; i < 3; i++ {
		t0 := time.Now()
		cal.GetTxRequests(r.ctx, nodeID(7), 1<<30)
		if d := time.Since(t0); i == 0 || d < dcal {
			dcal = d
		}
	}
	cal = nil
	timeout := dcal / 4
	if timeout < 200*time.Microsecond {
		return op + " => unstable #poll_too_fast_" + dcal.String()
	}
	for attempt := 0; attempt < 5; attempt++ {
		m := build(timeout)
		ok := true
		for _, h := range tg {
			r1, _ := m.AddTxID(r.ctx, nodeID(1), h)
			r2, _ := m.AddTxID(r.ctx, nodeID(2), h)
			if !r1 || r2 {
				ok = false // announcing took longer than the time-out: not the scenario
			}
		}
		if !ok {
			continue
		}
		time.Sleep(2 * timeout)
		start1 := time.Now()
		res, _ := m.GetTxRequests(r.ctx, nodeID(2), 1<<30)
		end1 := time.Now()
		d1 := end1.Sub(start1)
		if len(res) < tail {
			return fmt.Sprintf("%s slow=1 => got=%d dup=0", op, len(res))
		}
		dup := 0
		for i := 0; i < tail; i++ {
			h := res[len(res)-1-i]
			if _, known := tgID[h]; !known {
				return op + " => unknown-txid"
			}
			if req, _ := m.AddTxID(r.ctx, nodeID(4), h); req {
				dup++
			}
		}
		after := time.Since(end1)
		// valid run: the poll outlasted the time-out, its last 8+tail/2 buckets took well under a time-out,
		// and the announcements came right after
		tailBuckets := time.Duration(8 + tail/2)
		if d1 >= 2*timeout && d1*tailBuckets/256*2 < timeout && after < timeout/4 {
			return fmt.Sprintf("%s slow=1 => got=%d dup=%d", op, len(res), dup)
		}
	}
	return op + " => unstable"
}

func b2i(b bool) int {
	if b {
		return 1
	}
	return 0
}

// ---- run: worker pool over scripts ----

func runAll() {
	in := bufio.NewScanner(os.Stdin)
	in.Buffer(make([]byte, 1<<20), 1<<28)
	var scripts [][]string
	var pre []string // lines before the first init
	for in.Scan() {
		line := in.Text()
		if strings.HasPrefix(line, "init") {
			scripts = append(scripts, []string{line})
		} else if line == "" || strings.HasPrefix(line, "#") {
			continue
		} else if len(scripts) == 0 {
			pre = append(pre, line)
		} else {
			scripts[len(scripts)-1] = append(scripts[len(scripts)-1], line)
		}
	}
	// pre-build every transaction mentioned, so that grinding never happens inside a timed epoch
	for _, sc := range scripts {
		for _, l := range sc {
			_, a := hx.Parse(hx.OpPart(l))
			if t, ok := a.Int("tx"); ok {
				getTx(int(t))
			}
			if b, ok := a.Int("base"); ok {
				if n, ok2 := a.Int("txs"); ok2 && n < 4096 {
					for i := 0; i < int(n); i++ {
						getTx(int(b) + i)
					}
				}
			}
		}
	}
	results := make([][]string, len(scripts))
	workers := 16
	if v, err := strconv.Atoi(os.Getenv("TX_WORKERS")); err == nil && v > 0 {
		workers = v
	}
	var wg sync.WaitGroup
	next := int64(-1)
	for w := 0; w < workers; w++ {
		wg.Add(1)
		go func() {
			defer wg.Done()
			for {
				i := int(atomic.AddInt64(&next, 1))
				if i >= len(scripts) {
					return
				}
				results[i] = runScript(scripts[i])
			}
		}()
	}
	wg.Wait()
	out := bufio.NewWriterSize(os.Stdout, 1<<16)
	defer out.Flush()
	for _, l := range pre {
		fmt.Fprintln(out, hx.OpPart(l)+" => bad-op")
	}
	for _, res := range results {
		for _, l := range res {
			fmt.Fprintln(out, l)
		}
	}
}

// ---- generators ----

func genScript(r *hx.Rng, tier string) {
	mode, to := "short", 1
	switch r.Pick(25, 30, 35, 10) {
	case 0:
		mode, to = "zero", 0
	case 1:
		mode, to = "long", 1
	case 3:
		to = 2
	}
	fmt.Printf("init mode=%s to=%d\n", mode, to)
	nodes := 1 + r.Intn(5)
	// tx pool: a few ids, often sharing a bucket (id, id+256, ...) so that `max` per bucket shows
	pool := []int{}
	ntx := 1 + r.Intn(6)
	for i := 0; i < ntx; i++ {
		if len(pool) > 0 && r.Chance(40) {
			pool = append(pool, pool[r.Intn(len(pool))]%256+256*(1+r.Intn(6)))
		} else {
			pool = append(pool, r.Intn(1536))
		}
	}
	rel := map[int]int{}
	for _, t := range pool {
		rel[t] = r.Intn(2)
	}
	maxOps := 30
	maxAdv := 3
	if tier == "thorough" {
		maxOps = 90
		maxAdv = 8
	}
	nops := 4 + r.Intn(maxOps)
	advs := 0
	epoch := 0
	for i := 0; i < nops; i++ {
		t := pool[r.Intn(len(pool))]
		n := 1 + r.Intn(nodes)
		switch r.Pick(34, 18, 22, 12, 6, 3, 5, 4) {
		case 0:
			fmt.Printf("ann node=%d tx=%d\n", n, t)
		case 1:
			fmt.Printf("dlv node=%d tx=%d rel=%d\n", n, t, rel[t])
		case 2:
			max := 100
			switch r.Pick(55, 15, 10, 10, 10) {
			case 1:
				max = 1
			case 2:
				max = 2 + r.Intn(3)
			case 3:
				max = 0
			case 4:
				max = -1
			}
			fmt.Printf("poll node=%d max=%d\n", n, max)
		case 3:
			if mode != "long" && advs < maxAdv {
				fmt.Println("adv")
				advs++
				epoch++
			} else {
				fmt.Printf("ann node=%d tx=%d\n", n, t)
			}
		case 4:
			fmt.Println("drain")
		case 5:
			fmt.Printf("clean keep=%d\n", r.Intn(epoch+2))
		case 7: // several txids become eligible for one node, then polls with a small max (max is per bucket)
			if mode == "long" || advs >= maxAdv {
				continue
			}
			other := 1 + r.Intn(nodes+1)
			for _, x := range pool {
				fmt.Printf("ann node=%d tx=%d\n", other+1, x)
				fmt.Printf("ann node=%d tx=%d\n", n, x)
			}
			for k := 0; k < to; k++ {
				fmt.Println("adv")
				advs++
				epoch++
			}
			fmt.Printf("poll node=%d max=%d\n", n, 1+r.Intn(2))
			fmt.Printf("poll node=%d max=%d\n", n, 1+r.Intn(3))
		case 6: // burst: every node announces (or delivers) the same tx at the same instant
			if r.Chance(60) {
				for k := 1; k <= nodes; k++ {
					fmt.Printf("ann node=%d tx=%d\n", k, t)
				}
			} else {
				for k := 1; k <= nodes; k++ {
					fmt.Printf("dlv node=%d tx=%d rel=%d\n", k, t, rel[t])
				}
			}
		}
	}
	if mode != "long" {
		fmt.Println("adv")
	}
	for k := 1; k <= nodes; k++ {
		fmt.Printf("poll node=%d max=100\n", k)
	}
	fmt.Println("drain")
}

func genStress(r *hx.Rng, tier string, idx int) {
	mode, to := "long", 1
	switch r.Pick(50, 25, 25) {
	case 1:
		mode, to = "zero", 0
	case 2:
		mode, to = "short", 1
	}
	rounds := 1
	if mode != "long" {
		rounds = 1 + r.Intn(3)
	}
	n := 40 + r.Intn(80)
	if tier == "thorough" {
		n = 100 + r.Intn(300)
	}
	if mode == "short" && n > 120 {
		n = 120 // keep one stress op well inside one 150 ms epoch even on a loaded machine
	}
	txs := 1 + r.Intn(12)
	nodes := 1 + r.Intn(6)
	base := r.Intn(1500)
	if idx%6 == 5 {
		// announcement storm with a follow-up: every peer that lost the race for the one request must be
		// remembered as an announcer and get the transaction at its first poll after the time-out
		stxs := 48 + r.Intn(48)
		if tier == "thorough" {
			stxs = 128 + r.Intn(256)
		}
		g := 2 + r.Intn(7)
		fmt.Println("init mode=short to=1")
		fmt.Printf("storm g=%d txs=%d base=%d kind=ann\n", g, stxs, 2000+r.Intn(1500))
		order := make([]int, g)
		for i := range order {
			order[i] = i
		}
		for i := g - 1; i > 0; i-- {
			j := r.Intn(i + 1)
			order[i], order[j] = order[j], order[i]
		}
		for _, k := range order {
			fmt.Println("adv")
			fmt.Printf("poll node=%d max=100000\n", k+1)
		}
		fmt.Println("drain")
		return
	}
	fmt.Printf("init mode=%s to=%d\n", mode, to)
	if idx%3 == 2 { // every third stress script is a lock-step storm on fresh txids
		stxs := 24 + r.Intn(40)
		if tier == "thorough" {
			stxs = 64 + r.Intn(192)
		}
		fmt.Printf("storm g=%d txs=%d base=%d kind=%s\n", 2+r.Intn(7), stxs, 2000+r.Intn(1500), []string{"dlv", "ann", "mix"}[r.Intn(3)])
		fmt.Println("drain")
		return
	}
	for i := 0; i < rounds; i++ {
		dp := []int{0, 2, 6, 20}[r.Intn(4)]
		fmt.Printf("stress seed=%d g=%d n=%d txs=%d nodes=%d base=%d dp=%d\n", r.Intn(1<<30), 2+r.Intn(7), n, txs, nodes, base, dp)
		if i+1 < rounds {
			fmt.Println("adv")
		}
	}
	if mode == "short" {
		// follow-up: whoever announced and was answered false is owed the transaction after the time-out
		for k := 1; k <= nodes; k++ {
			fmt.Println("adv")
			fmt.Printf("poll node=%d max=100000\n", k)
		}
	}
	fmt.Println("drain")
}

func main() {
	if len(os.Args) < 2 {
		fmt.Fprintln(os.Stderr, "usage: tx run | gen <seed> <scripts> <tier> | genstress <seed> <scripts> <tier>")
		os.Exit(2)
	}
	switch os.Args[1] {
	case "run":
		runAll()
	case "echo": // observations produced elsewhere (race-detector leg): pass them through
		in := bufio.NewScanner(os.Stdin)
		in.Buffer(make([]byte, 1<<20), 1<<28)
		out := bufio.NewWriter(os.Stdout)
		for in.Scan() {
			fmt.Fprintln(out, in.Text())
		}
		out.Flush()
	case "gen", "genstress":
		seed, _ := strconv.ParseUint(os.Args[2], 10, 64)
		n, _ := strconv.Atoi(os.Args[3])
		r := hx.NewRng(seed)
		for i := 0; i < n; i++ {
			if os.Args[1] == "gen" {
				genScript(r, os.Args[4])
			} else {
				genStress(r, os.Args[4], i)
			}
		}
	}
}
