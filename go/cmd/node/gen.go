package main

import (
	"bytes"
	"encoding/binary"
	"encoding/hex"
	"fmt"
	"net"
	"strings"

	"brvharness/internal/hx"

	"github.com/tokenized/bitcoin_reader/headers"
	"github.com/tokenized/pkg/wire"
)

// ---- payload builders ----

func varint(n uint64) []byte {
	var b bytes.Buffer
	wire.WriteVarInt(&b, wire.ProtocolVersion, n)
	return b.Bytes()
}

func versionPayload(ua string) []byte {
	me := wire.NewNetAddressIPPort(net.IPv4(10, 0, 0, 1), 8333, 1)
	you := wire.NewNetAddressIPPort(net.IPv4(10, 0, 0, 2), 8333, 1)
	v := wire.NewMsgVersion(me, you, 0x1122334455667788, 700000)
	v.UserAgent = ua
	// fixed timestamp so that scripts are reproducible
	var b bytes.Buffer
	v.BtcEncode(&b, wire.ProtocolVersion)
	p := b.Bytes()
	copy(p[12:20], le64(1700000000))
	return p
}

func header80(nonce uint32, bits uint32, salt byte) []byte {
	h := make([]byte, 80)
	binary.LittleEndian.PutUint32(h[0:], 0x20000000)
	for i := 4; i < 68; i++ {
		h[i] = salt + byte(i)
	}
	binary.LittleEndian.PutUint32(h[68:], 1700000000)
	binary.LittleEndian.PutUint32(h[72:], bits)
	binary.LittleEndian.PutUint32(h[76:], nonce)
	return h
}

const (
	goodNonce = 0x6D000000 // spy VerifyHeader accepts
	badNonce  = 0xBD000000 // spy ProcessHeader rejects
)

func headersPayload(nonces []uint32) []byte {
	p := varint(uint64(len(nonces)))
	for i, n := range nonces {
		p = append(p, header80(n, 0x18021fdb, byte(i))...)
		p = append(p, 0)
	}
	return p
}

func invPayload(kinds []uint32, ids []uint32) []byte {
	p := varint(uint64(len(ids)))
	for i, id := range ids {
		p = append(p, le32(kinds[i])...)
		h := make([]byte, 32)
		binary.LittleEndian.PutUint32(h, id)
		h[31] = 0x77
		p = append(p, h...)
	}
	return p
}

// txPayload: 1 input with a script of scriptLen bytes, nOut outputs.
func txPayload(id uint32, scriptLen int, nOut int) []byte {
	p := le32(1)
	p = append(p, 1)
	prev := make([]byte, 36)
	binary.LittleEndian.PutUint32(prev, id)
	p = append(p, prev...)
	p = append(p, varint(uint64(scriptLen))...)
	p = append(p, bytes.Repeat([]byte{0x51}, scriptLen)...)
	p = append(p, 0xff, 0xff, 0xff, 0xff)
	p = append(p, varint(uint64(nOut))...)
	for i := 0; i < nOut; i++ {
		p = append(p, le64(uint64(1000+i))...)
		p = append(p, 3, 0x76, 0xa9, 0x14)
	}
	p = append(p, le32(0)...)
	return p
}

func blockPayload(hdr []byte, txs [][]byte) []byte {
	p := append([]byte{}, hdr...)
	p = append(p, varint(uint64(len(txs)))...)
	for _, t := range txs {
		p = append(p, t...)
	}
	return p
}

func addrPayload(ports []uint16) []byte {
	p := varint(uint64(len(ports)))
	for i, port := range ports {
		p = append(p, le32(1700000000)...)
		p = append(p, le64(1)...)
		ip := make([]byte, 16)
		ip[10], ip[11], ip[12], ip[15] = 0xff, 0xff, 10, byte(i)
		p = append(p, ip...)
		p = append(p, byte(port>>8), byte(port))
	}
	return p
}

func rejectPayload(cmd string, reason string, withHash bool) []byte {
	p := varint(uint64(len(cmd)))
	p = append(p, cmd...)
	p = append(p, 0x10)
	p = append(p, varint(uint64(len(reason)))...)
	p = append(p, reason...)
	if withHash {
		p = append(p, bytes.Repeat([]byte{0xab}, 32)...)
	}
	return p
}

func protoconfPayload() []byte {
	p := []byte{2}
	p = append(p, le32(1048576)...)
	p = append(p, 7)
	p = append(p, "Default"...)
	return p
}

// ---- op text ----

func hexOrDash(b []byte) string {
	if len(b) == 0 {
		return "-"
	}
	return hex.EncodeToString(b)
}

// splitNext, when set by a generator, makes the next msg / ext op reach the node in pieces (split=<n>).
var splitNext uint64

func msgOp(cmd string, p []byte, extra ...string) string {
	if splitNext != 0 {
		extra = append(extra, fmt.Sprintf("split=%d", splitNext))
		splitNext = 0
	}
	s := "msg cmd=" + cmd
	if len(p) > 0 {
		s += " pay=" + hex.EncodeToString(p)
	}
	if len(extra) > 0 {
		s += " " + strings.Join(extra, " ")
	}
	return s
}

func extOp(cmd string, p []byte, extra ...string) string {
	if splitNext != 0 {
		extra = append(extra, fmt.Sprintf("split=%d", splitNext))
		splitNext = 0
	}
	s := "ext cmd=" + cmd
	if len(p) > 0 {
		s += " pay=" + hex.EncodeToString(p)
	}
	if len(extra) > 0 {
		s += " " + strings.Join(extra, " ")
	}
	return s
}

type gctx struct {
	r        *hx.Rng
	tier     string
	txid     uint32
	hsExtra  int // version/verack messages sent after the handshake completed
	hsDone   bool
	sentV    bool
	sentA    bool
	wedged   bool
	proto    int
	out      []string
	wait     string // appended to every op once an op may leave the node waiting
	reqBlock []byte // header of a requested block
	lastReq  string // hex header of the last block request of a C16 script
}

func (g *gctx) emit(op string) {
	if g.wait != "" && !strings.HasPrefix(op, "init") && !strings.HasPrefix(op, "reqblock") {
		op += " " + g.wait
	}
	g.out = append(g.out, op)
}

func (g *gctx) noteHs(isVersion bool) {
	if g.hsDone {
		g.hsExtra++
		if g.hsExtra > 10 {
			g.wedged = true
			g.wait = "w=250"
		}
		return
	}
	if isVersion {
		g.sentV = true
	} else {
		g.sentA = true
	}
	if g.sentV && g.sentA {
		g.hsDone = true
	}
}

func (g *gctx) version() {
	if g.hsDone && g.hsExtra >= 10 {
		g.wait = "w=250" // the handshake channel is full: this one may block the read loop for ever
	}
	g.emit(msgOp("version", versionPayload("/peer:1.0/")))
	g.noteHs(true)
}

func (g *gctx) verack() {
	if g.hsDone && g.hsExtra >= 10 {
		g.wait = "w=250"
	}
	g.emit(msgOp("verack", nil))
	g.noteHs(false)
}

func (g *gctx) nextTx() uint32 { g.txid++; return g.txid }

// wellFormed emits one well-formed message of a random kind (full command set, classic or
// extended framing). `ready` selects kinds that only make sense on a verified connection.
func (g *gctx) wellFormed(ready bool) {
	r := g.r
	bigMax := 20000
	if g.tier == "thorough" {
		bigMax = 300000
	}
	size := func() int {
		switch r.Pick(50, 30, 15, 5) {
		case 0:
			return r.Intn(64)
		case 1:
			return r.Intn(1200)
		case 2:
			return 1000 + r.Intn(4000)
		}
		return r.Intn(bigMax)
	}
	switch r.Pick(10, 8, 8, 8, 10, 8, 6, 6, 5, 5, 6, 4, 4, 4, 3, 3, 2) {
	case 0: // headers: empty, some, with alt handler
		n := r.Pick(20, 40, 30, 10)
		cnt := []int{0, 1, 2 + r.Intn(5), 20 + r.Intn(60)}[n]
		nonces := make([]uint32, cnt)
		for i := range nonces {
			nonces[i] = uint32(1000 + r.Intn(100000))
		}
		g.emit(msgOp("headers", headersPayload(nonces)))
	case 1: // inv: tx and block items, empty list
		cnt := []int{0, 1, 3, 40}[r.Pick(15, 35, 35, 15)]
		kinds := make([]uint32, cnt)
		ids := make([]uint32, cnt)
		for i := range ids {
			kinds[i] = uint32([]int{1, 1, 1, 2, 4}[r.Intn(5)])
			if r.Chance(70) {
				ids[i] = g.nextTx()
			} else {
				ids[i] = 1 + uint32(r.Intn(int(g.txid)+1))
			}
		}
		g.emit(msgOp("inv", invPayload(kinds, ids)))
	case 2: // tx classic
		g.emit(msgOp("tx", txPayload(g.nextTx(), size(), 1+r.Intn(3))))
	case 3: // tx extended
		g.emit(extOp("tx", txPayload(g.nextTx(), size(), 1+r.Intn(3))))
	case 4: // unknown / unhandled commands
		switch r.Pick(60, 10, 10, 20) {
		case 0: // commands this reader has no decoder for: any payload is a well-formed message
			cmd := []string{"getheaders", "getblocks", "merkleblock", "alert", "filterload", "xyzzy", "sendcmpct", "authch", "xcustom"}[r.Intn(9)]
			n := size()
			if n == 0 {
				g.emit(msgOp(cmd, nil))
			} else {
				g.emit(fmt.Sprintf("msg cmd=%s fill=%d:%d", cmd, n, r.Intn(256)))
			}
		case 1: // fixed-size commands
			if r.Chance(50) {
				g.emit(msgOp("feefilter", le64(uint64(r.Intn(100000)))))
			} else {
				g.emit(msgOp([]string{"sendheaders", "mempool"}[r.Intn(2)], nil))
			}
		case 2: // inventory lists the reader does not handle
			k := []int{0, 1, 3, 28, 29, 57}[r.Intn(6)] // 28*36+1 = 1009, 57*36+1 = 2053: around the discard chunk
			pl := append([]byte{byte(k)}, make([]byte, 36*k)...)
			for i := range pl[1:] {
				pl[1+i] = byte(r.Intn(256))
			}
			g.emit(msgOp([]string{"getdata", "notfound"}[r.Intn(2)], pl))
		case 3: // sizes at and around multiples of the 1 KiB discard chunk
			cmd := []string{"getheaders", "getblocks", "xcustom", "alert"}[r.Intn(4)]
			n := []int{1023, 1024, 1025, 2047, 2048, 2049, 3072, 4096, 8192}[r.Intn(9)]
			g.emit(fmt.Sprintf("msg cmd=%s fill=%d:%d", cmd, n, r.Intn(256)))
		}
	case 5: // addr
		cnt := []int{0, 1, 5, 1000}[r.Pick(15, 40, 40, 5)]
		ports := make([]uint16, cnt)
		for i := range ports {
			ports[i] = uint16(1024 + r.Intn(60000))
		}
		g.emit(msgOp("addr", addrPayload(ports)))
	case 6: // unrequested block, classic
		txs := [][]byte{txPayload(g.nextTx(), size()%3000, 1)}
		g.emit(msgOp("block", blockPayload(header80(uint32(r.Intn(1<<20)), 0x18021fdb, 9), txs)))
	case 7: // unrequested / unknown extended
		if r.Chance(50) {
			txs := [][]byte{txPayload(g.nextTx(), size()%3000, 1), txPayload(g.nextTx(), 10, 2)}
			g.emit(extOp("block", blockPayload(header80(uint32(r.Intn(1<<20)), 0x18021fdb, 9), txs)))
		} else {
			n := size()
			if r.Chance(25) {
				n = []int{1023, 1024, 1025, 2048, 4096}[r.Intn(5)]
			}
			g.emit(fmt.Sprintf("ext cmd=%s fill=%d:%d", []string{"bigmsg", "headers", "inv", "x"}[r.Intn(4)], n, r.Intn(256)))
		}
	case 8: // requested block (ready only)
		if ready && g.reqBlock == nil {
			hdr := header80(uint32(r.Intn(1<<20)), 0x18021fdb, byte(r.Intn(200)))
			g.emit("reqblock hdr=" + hex.EncodeToString(hdr))
			g.reqBlock = hdr
			return
		}
		if ready && g.reqBlock != nil {
			n := r.Intn(4)
			txs := make([][]byte, n)
			for i := range txs {
				txs[i] = txPayload(g.nextTx(), size()%2000, 1+r.Intn(2))
			}
			p := blockPayload(g.reqBlock, txs)
			if r.Chance(50) {
				g.emit(msgOp("block", p))
			} else {
				g.emit(extOp("block", p))
			}
			g.reqBlock = nil
			return
		}
		g.emit(msgOp("getaddr", nil))
	case 9:
		g.emit(msgOp("getaddr", nil))
	case 10:
		g.emit(fmt.Sprintf("ping n=%d", 1+r.Intn(1000000)))
	case 11:
		g.emit("pong d=0")
	case 12:
		g.emit(msgOp("reject", rejectPayload([]string{"tx", "block", "version", ""}[r.Intn(4)], "because", false)))
		// note: "tx"/"block" rejects carry a hash
	case 13:
		c := []string{"tx", "block"}[r.Intn(2)]
		g.emit(msgOp("reject", rejectPayload(c, strings.Repeat("r", size()%500), true)))
	case 14: // repeated version / verack after the handshake (well-formed, allowed by the protocol text)
		if g.r.Chance(50) {
			g.version()
		} else {
			g.verack()
		}
	case 15:
		if g.proto == 0 {
			g.emit(msgOp("protoconf", protoconfPayload()))
			g.proto++
		} else {
			g.emit(msgOp("sendheaders", nil))
		}
	case 16:
		g.emit("expect")
	}
}

// probe emits a message an unverified peer might try (C13).
func (g *gctx) probe() {
	r := g.r
	switch r.Pick(14, 12, 12, 8, 8, 8, 8, 6, 6, 6, 4, 4, 4, 3) {
	case 13:
		// a verification reply nobody asked for yet (before the handshake completed the reader ignores
		// it WITHOUT consuming the payload, so the connection usually ends on the next header read)
		if !g.hsDone {
			g.emit(msgOp("headers", headersPayload([]uint32{uint32(goodNonce + r.Intn(100))})))
		} else {
			g.emit(msgOp("sendheaders", nil))
		}
	case 0:
		ports := make([]uint16, 1+r.Intn(4))
		for i := range ports {
			ports[i] = uint16(2000 + r.Intn(100))
		}
		g.emit(msgOp("addr", addrPayload(ports)))
	case 1:
		ids := []uint32{g.nextTx(), g.nextTx()}
		g.emit(msgOp("inv", invPayload([]uint32{1, 1}, ids)))
	case 2:
		g.emit(msgOp("tx", txPayload(g.nextTx(), r.Intn(40), 1)))
	case 3:
		g.emit(extOp("tx", txPayload(g.nextTx(), r.Intn(40), 1)))
	case 4:
		g.emit(msgOp("block", blockPayload(header80(7, 0x18021fdb, 3), [][]byte{txPayload(g.nextTx(), 5, 1)})))
	case 5:
		g.emit(extOp("block", blockPayload(header80(7, 0x18021fdb, 3), [][]byte{txPayload(g.nextTx(), 5, 1)})))
	case 6:
		g.emit(fmt.Sprintf("ext cmd=whatever fill=%d:1", r.Intn(300)))
	case 7:
		g.emit(msgOp("getaddr", nil))
	case 8:
		g.emit(fmt.Sprintf("ping n=%d", 1+r.Intn(100000)))
	case 9:
		g.emit(fmt.Sprintf("pong d=%d", r.Intn(2)))
	case 10:
		g.emit(msgOp("reject", rejectPayload("version", "no", false)))
	case 11:
		g.emit(msgOp("getheaders", varint(0)))
	case 12:
		if g.proto == 0 && r.Chance(70) {
			g.proto++
			g.emit(msgOp("protoconf", protoconfPayload()))
		} else {
			g.emit(msgOp("sendheaders", nil))
		}
	}
}

func (g *gctx) verifyReply(extra int, good bool) {
	first := uint32(goodNonce + g.r.Intn(1000))
	if !good {
		first = uint32(5000 + g.r.Intn(1000))
	}
	nonces := []uint32{first}
	for i := 0; i < extra; i++ {
		nonces = append(nonces, uint32(20000+g.r.Intn(1000)))
	}
	g.emit(msgOp("headers", headersPayload(nonces)))
}

func genC13(g *gctx) {
	r := g.r
	g.emit(fmt.Sprintf("init verifyonly=%d tx=%d hh=%d", b2i(r.Chance(25)), b2i(r.Chance(70)), b2i(r.Chance(60))))
	for i := r.Intn(4); i > 0; i-- {
		g.probe()
	}
	// handshake in any order, with repeats
	switch r.Pick(50, 20, 15, 15) {
	case 0:
		g.version()
		for i := r.Intn(3); i > 0; i-- {
			g.probe()
		}
		g.verack()
	case 1:
		g.verack()
		for i := r.Intn(3); i > 0; i-- {
			g.probe()
		}
		g.version()
	case 2:
		g.version()
		g.version()
		g.probe()
		g.verack()
		g.verack()
	case 3:
		g.verack()
		g.verack()
		g.version()
	}
	// handshake complete, still unverified
	for i := r.Intn(5); i > 0; i-- {
		if r.Chance(15) {
			if r.Chance(50) {
				g.version()
			} else {
				g.verack()
			}
		} else {
			g.probe()
		}
	}
	switch r.Pick(55, 25, 10, 10) {
	case 0:
		g.verifyReply(r.Intn(4), true)
		// now verified: the same kinds of message do have effects
		for i := r.Intn(4); i > 0; i-- {
			g.probe()
		}
		if r.Chance(50) {
			g.emit(msgOp("headers", headersPayload([]uint32{uint32(30000 + r.Intn(100))})))
		}
	case 1:
		g.verifyReply(r.Intn(4), false) // wrong chain: Stop
	case 2:
		g.emit(msgOp("headers", varint(0))) // zero headers: Stop
	case 3:
		// never answers the verification request
		for i := r.Intn(3); i > 0; i-- {
			g.probe()
		}
	}
	g.emit("expect")
	g.emit("close")
}

// txTimeoutSteps: announcements, deliveries and polls around the tx request timeout (init txto=40):
// the same never-delivered txid announced twice and three times with and without the timeout
// elapsing in between, inv after delivery, a tx delivered twice, the GetTxRequests poll.
func (g *gctx) txTimeoutSteps(n int) {
	r := g.r
	type ptx struct {
		payload []byte
		hash    []byte
	}
	var pool []ptx
	for i := 0; i < 3; i++ {
		p := txPayload(g.nextTx(), r.Intn(30), 1+r.Intn(2))
		pool = append(pool, ptx{p, sha256d(p)})
	}
	for i := 0; i < 2; i++ { // announced, never delivered
		h := make([]byte, 32)
		binary.LittleEndian.PutUint32(h, g.nextTx())
		h[31] = 0x99
		pool = append(pool, ptx{nil, h})
	}
	for i := 0; i < n; i++ {
		switch r.Pick(45, 25, 10, 20) {
		case 0:
			cnt := 1 + r.Intn(3)
			p := varint(uint64(cnt))
			for k := 0; k < cnt; k++ {
				p = append(p, le32(1)...)
				p = append(p, pool[r.Intn(len(pool))].hash...)
			}
			g.emit(msgOp("inv", p))
		case 1:
			g.emit("wait ms=90")
		case 2:
			g.emit("polltx")
		case 3:
			t := pool[r.Intn(3)]
			if r.Chance(50) {
				g.emit(msgOp("tx", t.payload))
			} else {
				g.emit(extOp("tx", t.payload))
			}
		}
	}
}

// blockScenario emits one life of a block request on a ready node: request, delivery of the block
// (whole, in pieces without barrier, wrong block first, or not at all), cancels at every point
// (before the block message, after the header, mid-stream, after completion, wrong hash), second
// requests while busy. allowStall: scenarios in which the download stalls with a cancel pending
// (the script must end with `close` then). Returns false when the script has to end.
func (g *gctx) blockScenario(allowStall bool) bool {
	r := g.r
	hdr := header80(uint32(1+r.Intn(1<<20)), 0x18021fdb, byte(r.Intn(200)))
	other := header80(uint32(1+r.Intn(1<<20)), 0x18021fdb, byte(200+r.Intn(50)))
	hx80 := hex.EncodeToString(hdr)
	ntx := r.Intn(4)
	txs := make([][]byte, ntx)
	for i := range txs {
		txs[i] = txPayload(g.nextTx(), r.Intn(60), 1+r.Intn(2))
	}
	payload := blockPayload(hdr, txs)
	whole := func() {
		if r.Chance(50) {
			g.emit(msgOp("block", payload))
		} else {
			g.emit(extOp("block", payload))
		}
	}
	g.emit("reqblock hdr=" + hx80)
	g.lastReq = hx80
	if r.Chance(30) {
		g.emit("reqblock hdr=" + hex.EncodeToString(other)) // busy
	}
	if r.Chance(25) {
		g.emit("reqheaders") // busy
	}
	if r.Chance(30) {
		g.emit("blockstate")
	}
	switch r.Pick(26, 14, 14, 10, 18, 18) {
	case 0: // delivered whole, maybe after a block nobody asked for
		if r.Chance(35) {
			g.emit(msgOp("block", blockPayload(other, [][]byte{txPayload(g.nextTx(), 5, 1)})))
			g.emit("blockstate")
		}
		whole()
		g.emit("blockstate")
		if r.Chance(40) {
			g.emit("cancelblock hdr=" + hx80) // after completion
		}
	case 1: // cancelled before the block message, which still arrives
		if r.Chance(30) {
			g.emit("cancelblock hdr=" + hex.EncodeToString(other)) // wrong hash
		}
		g.emit("cancelblock hdr=" + hx80)
		g.emit("blockstate")
		if r.Chance(40) {
			g.emit("reqblock hdr=" + hex.EncodeToString(other)) // still busy
		}
		whole()
		g.emit("blockstate")
	case 2: // never delivered: the request is outstanding (or cancelled) when the connection ends
		if r.Chance(40) {
			g.emit("cancelblock hdr=" + hx80)
		}
		return false
	case 3: // cancelled before, never delivered, peer keeps talking
		g.emit("cancelblock hdr=" + hx80)
		g.emit(fmt.Sprintf("ping n=%d", 1+r.Intn(100000)))
		g.emit("blockstate")
		return false
	case 4: // delivered in pieces (no barrier between them), complete in the end
		f := frame("block", payload, nil)
		cuts := g.cutPoints(len(f), len(payload), txs)
		prev := 0
		for _, c := range cuts {
			g.emit("raw hex=" + hex.EncodeToString(f[prev:c]) + " nob=1")
			if r.Chance(50) {
				g.emit("blockstate")
			}
			prev = c
		}
		g.emit("raw hex=" + hex.EncodeToString(f[prev:]) + " nob=1")
		g.emit("blockstate")
	case 5: // the download stalls part-way; cancel or peer drop
		f := frame("block", payload, nil)
		cuts := g.cutPoints(len(f), len(payload), txs)
		c := cuts[r.Intn(len(cuts))]
		g.emit("raw hex=" + hex.EncodeToString(f[:c]) + " nob=1")
		g.emit("blockstate")
		if c < 24+80 {
			// the header is not complete: the request is not streaming yet
			if r.Chance(60) {
				g.emit("cancelblock hdr=" + hx80)
				g.emit("blockstate")
			}
			return false
		}
		if allowStall && r.Chance(60) {
			g.emit("cancelblock hdr=" + hx80 + " w=150")
			g.emit("blockstate")
		}
		return false
	}
	return true
}

// cutPoints: interesting places to cut a block frame: inside the header, after the header, after
// the count, inside and between transactions.
func (g *gctx) cutPoints(frameLen, payloadLen int, txs [][]byte) []int {
	r := g.r
	cand := []int{24 + 1 + r.Intn(79), 24 + 80, 24 + 81}
	off := 24 + 81
	for _, t := range txs {
		cand = append(cand, off+1+r.Intn(len(t)-1))
		off += len(t)
		cand = append(cand, off)
	}
	var out []int
	for _, c := range cand {
		if c < frameLen && r.Chance(45) {
			out = append(out, c)
		}
	}
	if len(out) == 0 {
		out = []int{24 + 80}
	}
	return out
}

func genC16(g *gctx) {
	r := g.r
	g.emit(fmt.Sprintf("init verifyonly=0 tx=%d hh=%d", b2i(r.Chance(60)), b2i(r.Chance(30))))
	if r.Chance(6) {
		// a node that is not ready cannot be asked for a block
		g.version()
		g.emit("reqblock hdr=" + hex.EncodeToString(header80(7, 0x18021fdb, 1)))
		g.emit("blockstate")
		g.emit("close")
		return
	}
	g.handshakeAndVerify(r.Intn(2))
	g.emit("blockstate")
	for i := 1 + r.Intn(3); i > 0; i-- {
		if !g.blockScenario(true) {
			if r.Chance(50) {
				// the peer drops while the download is being cancelled
				g.emit("closecancel hdr=" + g.lastReq)
			} else {
				g.emit("close")
			}
			return
		}
		if r.Chance(30) {
			g.wellFormed(true)
		}
	}
	g.emit(fmt.Sprintf("ping n=%d", 5000000+r.Intn(1000000)))
	g.emit("blockstate")
	if r.Chance(15) && g.lastReq != "" {
		g.emit("closecancel hdr=" + g.lastReq)
		return
	}
	g.emit("close")
}

// genC06: the glue between the wire and the tx manager for LONG inventories: more than wire.MaxInvPerMsg (50000)
// fresh transactions announced in one message are requested in several getdata messages, each txid exactly once.
func genC06(g *gctx) {
	r := g.r
	g.emit(fmt.Sprintf("init verifyonly=0 tx=1 hh=%d", b2i(r.Chance(50))))
	g.handshakeAndVerify(0)
	n := []int{49999, 50000, 50001, 50003, 50000 + r.Intn(3000), 100001}[r.Intn(6)]
	base := 1000000 + r.Intn(1000000)
	g.emit(fmt.Sprintf("msg cmd=inv invgen=%d:%d w=4000", n, base))
	if r.Chance(50) {
		// announced again by the same peer at once: nothing is requested twice
		g.emit(fmt.Sprintf("msg cmd=inv invgen=%d:%d w=4000", 1+r.Intn(300), base+r.Intn(n)))
	}
	g.emit(fmt.Sprintf("ping n=%d", 2000000+r.Intn(1000000)))
	g.emit("close")
}

func (g *gctx) handshakeAndVerify(extraHeaders int) {
	g.version()
	g.verack()
	g.verifyReply(extraHeaders, true)
}

func genC14(g *gctx) {
	r := g.r
	if r.Chance(8) {
		g.emit(fmt.Sprintf("init verifyonly=0 tx=1 hh=%d txto=40", b2i(r.Chance(50))))
		g.handshakeAndVerify(r.Intn(2))
		g.txTimeoutSteps(4 + r.Intn(8))
		g.emit(fmt.Sprintf("ping n=%d", 2000000+r.Intn(1000000)))
		g.emit("close")
		return
	}
	g.emit(fmt.Sprintf("init verifyonly=0 tx=%d hh=%d", b2i(r.Chance(75)), b2i(r.Chance(50))))
	g.handshakeAndVerify(r.Intn(3))
	n := 1 + r.Intn(40)
	if r.Chance(3) {
		// a burst of repeated version/verack: every one is a well-formed message
		for i := 0; i < 9+r.Intn(6); i++ {
			if r.Chance(50) {
				g.version()
			} else {
				g.verack()
			}
		}
		n = r.Intn(4)
	}
	for i := 0; i < n && !g.wedged; i++ {
		if g.reqBlock == nil && r.Chance(6) {
			if !g.blockScenario(false) {
				g.emit("close")
				return
			}
			continue
		}
		if r.Chance(12) {
			g.splitMessage()
			continue
		}
		if r.Chance(20) {
			splitNext = 1 + uint64(r.Next()%1000000007) // any message of the repertoire, delivered in pieces
		}
		g.wellFormed(true)
		splitNext = 0
	}
	g.emit(fmt.Sprintf("ping n=%d", 2000000+r.Intn(1000000)))
	g.emit("close")
}

// splitMessage sends one well-formed message in two pieces that reach the node in separate reads (the harness
// waits until the first piece is consumed and the node waits for more): a segment boundary anywhere in the 24-byte
// header - inside the magic, the command, the length, the checksum - or in the payload must not matter.
func (g *gctx) splitMessage() {
	r := g.r
	var f []byte
	switch r.Intn(4) {
	case 0:
		p := make([]byte, r.Intn(60))
		for i := range p {
			p[i] = byte(r.Next())
		}
		f = frame("foo", p, nil)
	case 1:
		f = frame("getaddr", nil, nil)
	case 2:
		f = frame("sendheaders", nil, nil)
	case 3:
		f = frame("addr", []byte{0}, nil)
	}
	c := 1 + r.Intn(23)
	if r.Chance(25) && len(f) > 25 {
		c = 24 + r.Intn(len(f)-24)
	}
	if c >= len(f) {
		c = len(f) - 1
	}
	g.emit("raw hex=" + hex.EncodeToString(f[:c]) + " nob=1")
	g.emit("raw hex=" + hex.EncodeToString(f[c:]))
}

// hostile emits one malformed / hostile item (C15).
func (g *gctx) hostile(stage int) {
	r := g.r
	huge := []uint64{0xffffffff, 1 << 33, 1 << 40, 1 << 47, (1 << 48) - 1, 1 << 62, ^uint64(0)}
	hugeLen := func() uint64 { return huge[r.Intn(len(huge))] }
	switch r.Pick(8, 8, 8, 8, 10, 8, 8, 8, 6, 6, 6, 6, 6, 4, 4, 4, 6) {
	case 16: // payload present in full but larger than the message type allows
		switch r.Intn(4) {
		case 0:
			g.emit(fmt.Sprintf("msg cmd=ping fill=%d:7", 9+r.Intn(40)))
		case 1:
			g.emit(fmt.Sprintf("msg cmd=verack fill=%d:0", 1+r.Intn(10)))
		case 2:
			g.emit(fmt.Sprintf("msg cmd=version pay=%s fill=%d:0", hex.EncodeToString(versionPayload("/x/")), 300+r.Intn(100)))
		case 3:
			g.emit(fmt.Sprintf("msg cmd=addr pay=00 fill=%d:0", 30009+r.Intn(50)))
		}
	case 0: // bad checksum on a checksummed command
		cmd := []string{"ping", "version", "verack", "addr", "reject", "protoconf", "tx", "pong"}[r.Intn(8)]
		g.emit(msgOp(cmd, le64(uint64(r.Intn(1000))), "ck=deadbeef"))
	case 1: // wrong magic
		g.emit(msgOp("ping", le64(5), fmt.Sprintf("magic=%08x", uint32(r.Next()))))
	case 2: // declared length larger than what is sent: the node waits
		cmd := []string{"ping", "headers", "inv", "addr", "foo", "tx", "protoconf"}[r.Intn(7)]
		g.wait = "w=250"
		g.emit(msgOp(cmd, le64(3), fmt.Sprintf("len=%d", 9+r.Intn(3000))))
	case 3: // declared length smaller than the payload
		cmd := []string{"ping", "headers", "inv", "addr", "foo", "getaddr", "verack"}[r.Intn(7)]
		p := headersPayload([]uint32{uint32(r.Intn(1 << 20))})
		g.wait = "w=250"
		g.emit(msgOp(cmd, p, fmt.Sprintf("len=%d", r.Intn(len(p)))))
	case 4: // classic frame declaring 4 GiB-1 for a command whose limit allows it
		cmd := []string{"tx", "reject", "protoconf", "block", "foo", "ping", "addr", "version", "headers"}[r.Intn(9)]
		g.wait = "w=250"
		g.emit(msgOp(cmd, le64(1), "len=4294967295"))
	case 5: // extended frame with a huge declared length
		cmd := []string{"tx", "block", "foo", "tx", "tx"}[r.Intn(5)]
		g.wait = "w=250"
		g.emit(extOp(cmd, txPayload(g.nextTx(), 3, 1), fmt.Sprintf("len=%d", hugeLen())))
	case 6: // hostile count inside a version message (user agent length)
		p := versionPayload("")
		// user agent varint sits after 20+26+26+8 bytes
		q := append([]byte{}, p[:80]...)
		q = append(q, 0xff)
		q = append(q, le64(hugeLen()&0xffffffffffff)...)
		g.emit(msgOp("version", q))
	case 7: // hostile string length in reject / protoconf
		n := hugeLen() & 0xffffffffffff
		if r.Chance(50) {
			p := append([]byte{0xff}, le64(n)...)
			g.emit(msgOp("reject", p))
		} else {
			p := append([]byte{2}, le32(1)...)
			p = append(p, 0xff)
			p = append(p, le64(n)...)
			g.emit(msgOp("protoconf", p))
		}
	case 8: // hostile input / output / script counts in a tx
		n := hugeLen() & 0xffffffffff
		if r.Chance(25) {
			n = 6000000000000 // 72 bytes each is above the runtime's maxAlloc: makeslice panics (recovered)
		}
		p := le32(1)
		switch r.Intn(3) {
		case 0:
			p = append(p, 0xff)
			p = append(p, le64(n)...)
		case 1:
			p = append(p, 1)
			p = append(p, make([]byte, 36)...)
			p = append(p, 0xff)
			p = append(p, le64(n)...)
		case 2:
			p = append(p, 0)
			p = append(p, 0xff)
			p = append(p, le64(n)...)
		}
		if r.Chance(50) {
			g.emit(msgOp("tx", p))
		} else {
			g.emit(extOp("tx", p))
		}
	case 9: // headers / inv with huge counts and little data
		g.wait = "w=250"
		p := append([]byte{0xff}, le64(hugeLen())...)
		p = append(p, header80(uint32(r.Intn(1<<20)), uint32(r.Next()), 1)...)
		g.emit(msgOp([]string{"headers", "inv", "addr"}[r.Intn(3)], p))
	case 10: // non-canonical varints
		p := []byte{0xfd, 0x01, 0x00}
		p = append(p, header80(1, 2, 3)...)
		g.emit(msgOp([]string{"headers", "inv", "addr", "tx"}[r.Intn(4)], p))
	case 11: // random bytes
		n := 1 + r.Intn(120)
		b := make([]byte, n)
		for i := range b {
			b[i] = byte(r.Next())
		}
		if r.Chance(50) {
			copy(b, magic)
		}
		g.wait = "w=250"
		g.emit("raw hex=" + hex.EncodeToString(b))
	case 12: // invalid UTF-8 command
		f := frame("ping", le64(1), nil)
		f[4], f[5] = 0xff, 0xfe
		g.emit("raw hex=" + hex.EncodeToString(f))
	case 13: // truncated frames
		f := frame([]string{"version", "addr", "headers", "tx"}[r.Intn(4)], versionPayload("/x/"), nil)
		g.wait = "w=250"
		g.emit("raw hex=" + hex.EncodeToString(f[:r.Intn(len(f))]))
	case 14: // headers with hostile header fields (bits exponent 1/2, zero, max) after verification
		var nonces []byte
		cnt := 1 + r.Intn(3)
		nonces = append(nonces, varint(uint64(cnt))...)
		for i := 0; i < cnt; i++ {
			bits := []uint32{0x01010000, 0x02000001, 0, 0xffffffff, 0x03000000, uint32(r.Next())}[r.Intn(6)]
			nonces = append(nonces, header80(uint32(40000+r.Intn(1000)), bits, byte(i))...)
			nonces = append(nonces, 0)
		}
		g.emit(msgOp("headers", nonces))
	case 15: // well-formed filler
		g.wellFormed(stage == 2)
	}
}

func genC15(g *gctx) {
	r := g.r
	if r.Chance(12) {
		// time-dependent handler paths (tx request timeout), then one hostile item
		g.emit(fmt.Sprintf("init verifyonly=0 tx=1 hh=%d txto=40", b2i(r.Chance(50))))
		g.handshakeAndVerify(r.Intn(2))
		g.txTimeoutSteps(4 + r.Intn(8))
		if r.Chance(40) {
			g.hostile(2)
		}
		g.emit(fmt.Sprintf("ping n=%d", 3000000+r.Intn(1000000)))
		g.emit("close")
		return
	}
	stage := r.Pick(25, 25, 50)
	g.emit(fmt.Sprintf("init verifyonly=0 tx=%d hh=%d", b2i(r.Chance(80)), b2i(r.Chance(50))))
	if stage >= 1 {
		g.version()
		g.verack()
	}
	if stage >= 2 {
		g.verifyReply(r.Intn(2), true)
	}
	for i := 1 + r.Intn(5); i > 0; i-- {
		g.hostile(stage)
		if g.wait != "" && i > 2 {
			i = 2 // the node may be waiting for input from here on: every further op costs a time-out
		}
	}
	g.emit(fmt.Sprintf("ping n=%d", 3000000+r.Intn(1000000)))
	g.emit("close")
}

// genReal: the production headers.Repository behind the node (init repo=real): the verification
// reply is the real BSV split header, then headers that extend genesis with hostile fields.
func genReal(g *gctx) {
	r := g.r
	g.emit(fmt.Sprintf("init verifyonly=0 tx=0 hh=%d repo=real", b2i(r.Chance(50))))
	g.version()
	g.verack()
	var b bytes.Buffer
	headers.MainNetRequiredHeader.Serialize(&b)
	reply := append([]byte{1}, b.Bytes()...)
	reply = append(reply, 0)
	g.emit(msgOp("headers", reply))
	genesis, _ := hex.DecodeString("6fe28c0ab6f1b372c1a6a246ae63f74f931e8365e15a089c68d6190000000000")
	for i := 1 + r.Intn(3); i > 0; i-- {
		cnt := 1 + r.Intn(3)
		p := varint(uint64(cnt))
		for k := 0; k < cnt; k++ {
			h := make([]byte, 80)
			binary.LittleEndian.PutUint32(h[0:], 1)
			copy(h[4:36], genesis)
			h[36] = byte(r.Next())
			ts := []uint32{1231469665, 0, 0xffffffff, uint32(r.Next())}[r.Intn(4)]
			binary.LittleEndian.PutUint32(h[68:], ts)
			bits := []uint32{0x01010000, 0x02000001, 0x02008000, 0, 0xffffffff, 0x03000000, 0x1d00ffff, 0x00ffffff, 0x04800000, uint32(r.Next())}[r.Intn(10)]
			binary.LittleEndian.PutUint32(h[72:], bits)
			binary.LittleEndian.PutUint32(h[76:], uint32(r.Next()))
			p = append(p, h...)
			p = append(p, 0)
		}
		g.emit(msgOp("headers", p))
	}
	g.emit(fmt.Sprintf("ping n=%d", 4000000+r.Intn(1000)))
	g.emit("close")
}

func b2i(b bool) int {
	if b {
		return 1
	}
	return 0
}

func gen(seed uint64, scripts int, tier string, profile string) {
	salt := map[string]uint64{"c13": 13, "c14": 14, "c15": 15, "real": 16, "c16": 17, "c06": 18}[profile]
	r := hx.NewRng(seed*1000 + salt)
	for i := 0; i < scripts; i++ {
		g := &gctx{r: r, tier: tier}
		switch profile {
		case "c14":
			genC14(g)
		case "c15":
			genC15(g)
		case "real":
			genReal(g)
		case "c16":
			genC16(g)
		case "c06":
			genC06(g)
		default:
			genC13(g)
		}
		for _, l := range g.out {
			fmt.Println(l)
		}
	}
}
