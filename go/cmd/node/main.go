// Command node is the correspondence harness for C13, C14 and C15: a scripted peer that controls
// every byte a real BitcoinNode (run over a loopback TCP pair through the verif hook RunWithConn)
// receives, with recording spies behind the HeaderRepository / PeerRepository interfaces and as
// alternate header handler, and a real TxManager.
//
//	node run    < scripts > observations   (parent: runs every script in an isolated worker process)
//	node worker                            (child: memory limited; dies if the real code aborts)
//	node gen <seed> <scripts> <tier> <c13|c14|c15>
//
// Ops (one observation line per op, `op => obs`):
//
//	init verifyonly= tx= hh= mem= pn=        start a node; pn (the node's ping nonce) is written back
//	msg cmd= [pay=hex] [fill=n:b] [tail=hex] [len=] [ck=hex] [magic=hex] [cut=k] [w=ms]   classic frame
//	ext cmd= [len=] [pay/fill/tail] [hlen=] [cut=k] [w=ms]                               extmsg frame
//	raw hex= [w=ms]                          arbitrary bytes
//	pong d= [w=ms]                           pong with the node's ping nonce + d
//	ping n= [w=ms]                           => pong=n|none|closed|crash ...
//	expect                                   barrier only
//	reqblock hdr=hex80                       RequestBlock(hash of this header)
//	close [w=ms]                             peer closes; => run=returned|hung
//
// Every sending op is followed by a barrier ping with nonce 0xB0B00000+opIndex; the observation is
// `none` = no pong although the node has consumed everything sent and is blocked reading (or the
// op's time bound w= expired). Observation:
// `sync=ok|none|closed|crash [run=returned|hung] tx=[what the node sent, sorted] fx=[spy calls in
// order] hh=[[headers the alternate handler processed]...] rx=<AddTx count> st=r<ready>v<verified>h<handshake>`.
package main

import (
	"bufio"
	"bytes"
	"context"
	"crypto/sha256"
	"encoding/binary"
	"fmt"
	"io"
	"net"
	"os"
	"os/exec"
	"sort"
	"strconv"
	"strings"
	"sync"
	"sync/atomic"
	"syscall"
	"time"

	"brvharness/internal/hx"

	"github.com/tokenized/bitcoin_reader"
	"github.com/tokenized/config"
	"github.com/tokenized/pkg/bitcoin"
	"github.com/tokenized/pkg/wire"
)

const (
	barrierBase  = 0xB0B00000
	defaultMem   = uint64(1) << 31
	workerLimit  = uint64(3500) << 20 // RLIMIT_AS of the worker
	defaultWait  = 2000 * time.Millisecond
	settleWait   = 1000 * time.Millisecond
	quiesceGrace = 60 * time.Millisecond
	runReturnMax = 2000 * time.Millisecond
)

var magic = []byte{0xe3, 0xe1, 0xf3, 0xe8}

func sha256d(b []byte) []byte {
	a := sha256.Sum256(b)
	c := sha256.Sum256(a[:])
	return c[:]
}

// ---- spies ----

type spyLog struct {
	sync.Mutex
	fx []string
	hh [][]uint32
}

func (l *spyLog) add(s string) {
	l.Lock()
	l.fx = append(l.fx, s)
	l.Unlock()
}

func (l *spyLog) take() ([]string, [][]uint32) {
	l.Lock()
	defer l.Unlock()
	fx, hh := l.fx, l.hh
	l.fx, l.hh = nil, nil
	return fx, hh
}

type hdrSpy struct {
	log *spyLog
	ch  chan *wire.BlockHeader
}

func (h *hdrSpy) GetNewHeadersAvailableChannel() <-chan *wire.BlockHeader { return h.ch }
func (h *hdrSpy) Height() int                                             { return 700000 }
func (h *hdrSpy) Hash(ctx context.Context, height int) (*bitcoin.Hash32, error) {
	return &bitcoin.Hash32{}, nil
}
func (h *hdrSpy) HashHeight(hash bitcoin.Hash32) int { return -1 }
func (h *hdrSpy) LastHash() bitcoin.Hash32           { return bitcoin.Hash32{} }
func (h *hdrSpy) LastTime() uint32                   { return 1600000000 }
func (h *hdrSpy) PreviousHash(bitcoin.Hash32) (*bitcoin.Hash32, int) {
	return nil, -1
}
func (h *hdrSpy) GetLocatorHashes(ctx context.Context, max int) ([]bitcoin.Hash32, error) {
	return []bitcoin.Hash32{{1}}, nil
}
func (h *hdrSpy) GetVerifyOnlyLocatorHashes(ctx context.Context) ([]bitcoin.Hash32, error) {
	return []bitcoin.Hash32{{2}}, nil
}
func (h *hdrSpy) VerifyHeader(ctx context.Context, header *wire.BlockHeader) error {
	h.log.add(fmt.Sprintf("VH:%d", header.Nonce))
	if header.Nonce>>24 == 0x6D {
		return nil
	}
	return fmt.Errorf("unknown header")
}
func (h *hdrSpy) ProcessHeader(ctx context.Context, header *wire.BlockHeader) error {
	h.log.add(fmt.Sprintf("PH:%d", header.Nonce))
	if header.Nonce>>24 == 0xBD {
		return fmt.Errorf("bad header")
	}
	return nil
}
func (h *hdrSpy) Stop(ctx context.Context) {}

type peerSpy struct{ log *spyLog }

func (p *peerSpy) Add(ctx context.Context, address string) (bool, error) {
	port := address
	if i := strings.LastIndex(address, ":"); i >= 0 {
		port = address[i+1:]
	}
	p.log.add("PA:" + port)
	return true, nil
}
func (p *peerSpy) Get(ctx context.Context, minScore, maxScore int32) (bitcoin_reader.PeerList, error) {
	p.log.add("PG")
	return bitcoin_reader.PeerList{}, nil
}
func (p *peerSpy) UpdateTime(ctx context.Context, address string) bool { return true }
func (p *peerSpy) UpdateScore(ctx context.Context, address string, delta int32) bool {
	p.log.add("US")
	return true
}

// altHandler plays headers.Repository.HandleHeadersMessage (the production alternate header
// handler): every header it would hand to ProcessHeader is recorded.
func altHandler(log *spyLog) bitcoin_reader.MessageHandlerFunction {
	return func(ctx context.Context, header *wire.MessageHeader, r io.Reader) error {
		var seen []uint32
		defer func() {
			log.Lock()
			log.hh = append(log.hh, seen)
			log.Unlock()
		}()
		count, err := wire.ReadVarInt(r, wire.ProtocolVersion)
		if err != nil {
			return err
		}
		for i := uint64(0); i < count; i++ {
			bh := &wire.BlockHeader{}
			if err := bh.Deserialize(r); err != nil {
				return err
			}
			txCount, err := wire.ReadVarInt(r, wire.ProtocolVersion)
			if err != nil {
				return err
			}
			if txCount != 0 {
				return fmt.Errorf("non-zero tx count")
			}
			seen = append(seen, bh.Nonce)
			if bh.Nonce>>24 == 0xBD {
				return fmt.Errorf("bad header")
			}
		}
		return nil
	}
}

// countingConn wraps the node's side of the connection: how many bytes the node has taken and
// whether it is blocked in Read right now. "Everything we sent was consumed and the node is
// waiting for more" is how the harness recognises, without a time-out, that no pong will come.
type countingConn struct {
	net.Conn
	mu      sync.Mutex
	read    int64
	pending int
}

func (c *countingConn) Read(b []byte) (int, error) {
	c.mu.Lock()
	c.pending++
	c.mu.Unlock()
	n, err := c.Conn.Read(b)
	c.mu.Lock()
	c.pending--
	c.read += int64(n)
	c.mu.Unlock()
	return n, err
}

func (c *countingConn) state() (int64, bool) {
	c.mu.Lock()
	defer c.mu.Unlock()
	return c.read, c.pending > 0
}

// ---- scripted peer ----

type rmsg struct {
	cmd     string
	payload []byte
}

type session struct {
	node      *bitcoin_reader.BitcoinNode
	log       *spyLog
	conn      net.Conn
	cc        *countingConn
	queued    int64 // bytes handed to the writer
	written   int64 // bytes the writer has written (atomic)
	interrupt chan interface{}
	done      chan struct{}

	mu       sync.Mutex
	recv     []rmsg
	taken    int
	closed   bool
	wake     chan struct{}
	writeQ   chan []byte
	pn       uint64
	opIdx    int
	dead     bool
	hung     bool
	sentVer  bool
	sentAck  bool
	cfgVO    bool
	cfgTx    bool
	cfgHH    bool
	cfgMem   uint64
	realRepo bool
	txm      *bitcoin_reader.TxManager
	txto     time.Duration // tx request timeout when the script sets a short one (0 = long default)
	start    time.Time
	reqTimes []reqTime // when ops that can (re)stamp a tx request were sent / answered
	doubt    bool
	handled  time.Time // when the node was first seen to have handled everything of the current op
	blk      *blockRec // what the handler of the latest RequestBlock saw
	onStops  int64     // onStop invocations (atomic)
	dlMu     sync.Mutex // stands for the downloader's state lock: held by `closecancel` around CancelBlockRequest, taken by onStop
	cancelCh chan bool // a CancelBlockRequest that did not return within its time bound
	endTold  bool      // the end-of-run tail was printed
}

// blockRec is filled by the block handler given to RequestBlock (it plays BlockDownloader.HandleBlock:
// counts the transactions until the channel is closed, nil iff it got as many as announced).
type blockRec struct {
	sync.Mutex
	called bool
	count  uint64
	got    uint64
	done   string // "run", "ok", "err"
}

func (b *blockRec) show() string {
	if b == nil {
		return "idle"
	}
	b.Lock()
	defer b.Unlock()
	if !b.called {
		return "idle"
	}
	return fmt.Sprintf("c%dg%dd%s", b.count, b.got, b.done)
}

// cancelPending tells whether an earlier CancelBlockRequest is still blocked (it holds the node's
// mutex then, so nothing that locks the node may be called).
func (s *session) cancelPending() bool {
	if s.cancelCh == nil {
		return false
	}
	select {
	case <-s.cancelCh:
		s.cancelCh = nil
		return false
	default:
		return true
	}
}

// endTail is appended once Run has returned: onStop invocations, IsStopped, the answer of a
// CancelBlockRequest that was blocked, the handler's record.
func (s *session) endTail() string {
	c := ""
	if s.cancelCh != nil {
		select {
		case r := <-s.cancelCh:
			c = " cancel=" + b2s(r)
		case <-hx.After(time.Second):
			c = " cancel=hung"
		}
		s.cancelCh = nil
	}
	// the handler thread ends with the connection: give it a moment to record its return
	for i := 0; i < 50; i++ {
		if st := s.blk.show(); !strings.HasSuffix(st, "drun") {
			break
		}
		time.Sleep(time.Millisecond)
	}
	s.endTold = true
	return fmt.Sprintf(" onstop=%d stopped=%s%s bh=%s", atomic.LoadInt64(&s.onStops), b2s(s.node.IsStopped()), c, s.blk.show())
}

func b2s(v bool) string {
	if v {
		return "1"
	}
	return "0"
}

// reqTime brackets the instant at which the node stamped LastRequested for an op.
type reqTime struct{ send, done time.Time }

const timingMargin = 12 * time.Millisecond

// beforeTimed sleeps until no earlier request stamp can be within the margin of the timeout at the
// time this op will be handled, and returns the clock reading (ms since init) written into the op.
func (s *session) beforeTimed() int64 {
	for i := 0; i < 4; i++ {
		now := time.Now()
		var sleep time.Duration
		for _, p := range s.reqTimes {
			lo := now.Sub(p.done)
			hi := now.Add(15 * time.Millisecond).Sub(p.send)
			if lo < s.txto+timingMargin && hi > s.txto-timingMargin {
				if d := p.done.Add(s.txto + timingMargin).Sub(now); d > sleep {
					sleep = d
				}
			}
		}
		if sleep <= 0 {
			break
		}
		time.Sleep(sleep + time.Millisecond)
	}
	return time.Since(s.start).Milliseconds()
}

// afterTimed records the op and flags the script when the measured interval leaves it open whether
// a request had timed out when the node handled the op (the script is then run again).
func (s *session) afterTimed(send time.Time, t int64) {
	done := time.Now()
	if !s.handled.IsZero() && s.handled.After(send) {
		done = s.handled
	}
	for _, p := range s.reqTimes {
		min := send.Sub(p.done) >= s.txto
		max := done.Sub(p.send) >= s.txto
		model := time.Duration(t-p.send.Sub(s.start).Milliseconds())*time.Millisecond >= s.txto
		if min != max || model != min {
			s.doubt = true
		}
	}
	s.reqTimes = append(s.reqTimes, reqTime{send, done})
}

func (s *session) reader() {
	r := bufio.NewReaderSize(s.conn, 1<<16)
	for {
		hdr := make([]byte, 24)
		if _, err := io.ReadFull(r, hdr); err != nil {
			break
		}
		n := binary.LittleEndian.Uint32(hdr[16:20])
		p := make([]byte, n)
		if _, err := io.ReadFull(r, p); err != nil {
			break
		}
		cmd := string(bytes.TrimRight(hdr[4:16], "\x00"))
		s.mu.Lock()
		s.recv = append(s.recv, rmsg{cmd, p})
		s.mu.Unlock()
		select {
		case s.wake <- struct{}{}:
		default:
		}
	}
	s.mu.Lock()
	s.closed = true
	s.mu.Unlock()
	select {
	case s.wake <- struct{}{}:
	default:
	}
}

func (s *session) writer() {
	for b := range s.writeQ {
		for len(b) > 0 {
			n := len(b)
			if n > 1<<16 {
				n = 1 << 16
			}
			if _, err := s.conn.Write(b[:n]); err != nil {
				for range s.writeQ {
				}
				return
			}
			atomic.AddInt64(&s.written, int64(n))
			b = b[n:]
		}
	}
}

// waitFor polls cond (under the lock) until it holds, the node closed the connection, or the time
// is up. Returns "ok", "closed" or "none".
func (s *session) waitFor(d time.Duration, cond func() bool) string {
	left := d
	for {
		s.mu.Lock()
		ok := cond()
		closed := s.closed
		s.mu.Unlock()
		if ok {
			return "ok"
		}
		if closed {
			return "closed"
		}
		if left <= 0 {
			return "none"
		}
		left -= s.nap()
	}
}

// nap waits for news from the reader goroutine or one millisecond and returns what it charges to a
// patient budget: the time it really took, at most 2 ms (a starved process waits longer instead of
// timing out, see hx.Until).
func (s *session) nap() time.Duration {
	t0 := time.Now()
	select {
	case <-s.wake:
	case <-time.After(time.Millisecond):
	}
	el := time.Since(t0)
	if el > 2*time.Millisecond {
		el = 2 * time.Millisecond
	}
	if el <= 0 {
		el = time.Microsecond
	}
	return el
}

// waitBarrier waits for the pong of the barrier ping. It gives up early ("none") when the node has
// consumed every byte sent, is blocked reading for more, and nothing has arrived for a grace period
// (its writer goroutine has had time to flush what the handlers queued).
func (s *session) waitBarrier(d time.Duration, nonce uint64) string {
	left := d
	quiet := time.Duration(-1) // charged time since the node was first seen quiescent with nothing new
	lastRecv := -1
	for {
		s.mu.Lock()
		ok := s.hasPong(nonce)
		closed := s.closed
		nrecv := len(s.recv)
		s.mu.Unlock()
		if ok {
			if s.handled.IsZero() {
				s.handled = time.Now()
			}
			return "ok"
		}
		if closed {
			return "closed"
		}
		read, waiting := s.cc.state()
		if waiting && read == s.queued && s.handled.IsZero() {
			s.handled = time.Now()
		}
		isQuiet := waiting && read == s.queued && atomic.LoadInt64(&s.written) == s.queued && nrecv == lastRecv
		if !isQuiet {
			quiet = -1
		} else if quiet < 0 {
			quiet = 0
		} else if quiet >= quiesceGrace {
			return "none"
		}
		lastRecv = nrecv
		if left <= 0 {
			return "none"
		}
		c := s.nap()
		left -= c
		if quiet >= 0 {
			quiet += c
		}
	}
}

func (s *session) hasCmd(cmd string) bool {
	for _, m := range s.recv {
		if m.cmd == cmd {
			return true
		}
	}
	return false
}

func (s *session) hasPong(nonce uint64) bool {
	for _, m := range s.recv {
		if m.cmd == "pong" && len(m.payload) == 8 && binary.LittleEndian.Uint64(m.payload) == nonce {
			return true
		}
	}
	return false
}

func flags(n *bitcoin_reader.BitcoinNode) string {
	b := func(v bool) string {
		if v {
			return "1"
		}
		return "0"
	}
	return "r" + b(n.IsReady()) + "v" + b(n.Verified()) + "h" + b(n.HandshakeIsComplete())
}

func newSession(a hx.Args) (*session, string) {
	s := &session{log: &spyLog{}, wake: make(chan struct{}, 1), writeQ: make(chan []byte, 4096),
		interrupt: make(chan interface{}), done: make(chan struct{})}
	s.cfgVO = a["verifyonly"] == "1"
	s.cfgTx = a["tx"] == "1"
	s.cfgHH = a["hh"] == "1"
	s.cfgMem = defaultMem
	if v, ok := a.Uint("mem"); ok {
		s.cfgMem = v
	}
	ln, err := net.Listen("tcp", "127.0.0.1:0")
	if err != nil {
		return nil, "err:listen"
	}
	defer ln.Close()
	type acc struct {
		c   net.Conn
		err error
	}
	ach := make(chan acc, 1)
	go func() {
		c, err := ln.Accept()
		ach <- acc{c, err}
	}()
	peerConn, err := net.Dial("tcp", ln.Addr().String())
	if err != nil {
		return nil, "err:dial"
	}
	ac := <-ach
	if ac.err != nil {
		return nil, "err:accept"
	}
	s.conn = peerConn
	cfg := &bitcoin_reader.Config{Network: bitcoin.MainNet, Timeout: config.NewDuration(time.Hour)}
	var headers bitcoin_reader.HeaderRepository = &hdrSpy{log: s.log, ch: make(chan *wire.BlockHeader)}
	if a["repo"] == "real" {
		s.realRepo = true
		headers = newRealRepo()
	}
	s.node = bitcoin_reader.NewBitcoinNode("127.0.0.1:8333", "/brv:0.1/", cfg, headers, &peerSpy{s.log})
	if s.cfgVO {
		s.node.SetVerifyOnly()
	}
	if s.cfgTx {
		to := time.Hour
		if v, ok := a.Uint("txto"); ok && v > 0 && v < 3600000 {
			s.txto = time.Duration(v) * time.Millisecond
			to = s.txto
		}
		s.txm = bitcoin_reader.NewTxManager(to)
		s.node.SetTxManager(s.txm)
	}
	s.start = time.Now()
	if s.cfgHH {
		s.node.SetHeaderHandler(altHandler(s.log))
	}
	ctx := hx.Ctx()
	s.cc = &countingConn{Conn: ac.c}
	go func() {
		s.node.RunWithConn(ctx, s.cc, s.interrupt)
		close(s.done)
	}()
	go s.reader()
	go s.writer()
	r := s.waitFor(defaultWait, func() bool { return s.hasCmd("version") && s.hasCmd("ping") })
	if r != "ok" {
		return s, "err:no-version"
	}
	s.mu.Lock()
	for _, m := range s.recv {
		if m.cmd == "ping" && len(m.payload) == 8 {
			s.pn = binary.LittleEndian.Uint64(m.payload)
		}
	}
	s.mu.Unlock()
	return s, ""
}

// takeSent lists what arrived since the last op: sorted, without the node's own pings, barrier
// pongs and the pong for `own`.
func (s *session) takeSent(own uint64, hasOwn bool) string {
	s.mu.Lock()
	msgs := s.recv[s.taken:]
	s.taken = len(s.recv)
	var out []string
	for _, m := range msgs {
		switch m.cmd {
		case "ping":
			continue
		case "pong":
			if len(m.payload) == 8 {
				n := binary.LittleEndian.Uint64(m.payload)
				if (n >= barrierBase && n < barrierBase+0x10000) || (hasOwn && n == own) {
					continue
				}
				out = append(out, fmt.Sprintf("pong:%d", n))
				continue
			}
			out = append(out, "pong")
		case "getdata":
			cnt, _ := wire.ReadVarInt(bytes.NewReader(m.payload), wire.ProtocolVersion)
			out = append(out, fmt.Sprintf("getdata:%d", cnt))
		default:
			out = append(out, m.cmd)
		}
	}
	s.mu.Unlock()
	sort.Strings(out)
	return "[" + strings.Join(out, ",") + "]"
}

func showHH(hh [][]uint32) string {
	xs := make([]string, len(hh))
	for i, l := range hh {
		ys := make([]string, len(l))
		for j, n := range l {
			ys[j] = strconv.FormatUint(uint64(n), 10)
		}
		xs[i] = "[" + strings.Join(ys, ",") + "]"
	}
	return "[" + strings.Join(xs, ",") + "]"
}

func (s *session) waitRun(d time.Duration) string {
	select {
	case <-s.done:
		return "returned"
	case <-hx.After(d):
		return "hung"
	}
}

func waitOf(a hx.Args, def time.Duration) time.Duration {
	if v, ok := a.Uint("w"); ok {
		return time.Duration(v) * time.Millisecond
	}
	return def
}

// sendOp writes the bytes and the barrier ping, waits for the barrier outcome and reports.
func (s *session) sendOp(a hx.Args, b []byte, own uint64, hasOwn bool) string {
	key := "sync"
	if hasOwn {
		key = "pong"
	}
	if s.dead {
		return "dead"
	}
	nonce := uint64(barrierBase + s.opIdx)
	if hasOwn {
		nonce = own
	}
	// split=<n>: the message reaches the node in pieces (two cuts derived from n; each piece is written once the
	// node has consumed the one before and waits for more), as TCP may deliver it. The bytes are the same: the model
	// ignores the key.
	if sp, ok := a.Uint("split"); ok && len(b) > 2 {
		c1 := 1 + int(sp%uint64(len(b)-1))
		c2 := c1 + int((sp/7919)%uint64(len(b)-c1))
		for _, piece := range [][]byte{b[:c1], b[c1:c2]} {
			if len(piece) == 0 {
				continue
			}
			s.queued += int64(len(piece))
			s.handled = time.Time{}
			s.writeQ <- append([]byte{}, piece...)
			if s.waitBarrier(waitOf(a, defaultWait), ^uint64(0)) == "closed" {
				break
			}
		}
		b = b[c2:]
	}
	out := append(append([]byte{}, b...), frame("ping", le64(nonce), nil)...)
	s.queued += int64(len(out))
	s.handled = time.Time{}
	s.writeQ <- out
	res := s.waitBarrier(waitOf(a, defaultWait), nonce)
	if res == "ok" {
		// the handshake goroutine answers asynchronously: wait for what it must still send
		if s.sentVer {
			s.waitFor(settleWait, func() bool { return s.hasCmd("verack") })
		}
		if s.sentVer && s.sentAck {
			s.waitFor(settleWait, func() bool { return s.hasCmd("getheaders") })
		}
	}
	if _, isRaw := a["hex"]; isRaw && res != "closed" {
		s.settle()
	}
	run := ""
	if res == "closed" {
		s.dead = true
		run = " run=" + s.waitRun(runReturnMax)
	}
	fx, hh := s.log.take()
	var cnt uint64
	if res == "closed" || !s.cancelPending() {
		cnt, _ = s.node.GetAndResetTxReceivedCount()
	}
	body := fmt.Sprintf("tx=%s fx=[%s] hh=%s rx=%d st=%s", s.takeSent(nonce, true), strings.Join(fx, ","),
		showHH(hh), cnt, flags(s.node))
	switch res {
	case "ok":
		if hasOwn {
			return fmt.Sprintf("%s=%d %s", key, nonce, body)
		}
		return key + "=ok " + body
	case "closed":
		// messages queued just before the connection went down may or may not have been written
		i := strings.Index(body, " fx=")
		tail := ""
		if strings.HasSuffix(run, "returned") {
			tail = s.endTail()
		}
		return key + "=closed" + run + " tx=*" + body[i:] + tail
	}
	return key + "=none " + body
}

// partOp writes bytes WITHOUT a barrier ping (a piece of a message) and waits until the node has
// taken them all and is blocked reading again.
func (s *session) partOp(a hx.Args, b []byte) string {
	if s.dead {
		return "dead"
	}
	s.queued += int64(len(b))
	s.handled = time.Time{}
	s.writeQ <- append([]byte{}, b...)
	res := s.waitBarrier(waitOf(a, defaultWait), ^uint64(0))
	if res == "none" && !s.handled.IsZero() {
		res = "quiet"
	}
	run := ""
	if res == "closed" {
		s.dead = true
		run = " run=" + s.waitRun(runReturnMax)
	}
	fx, hh := s.log.take()
	var cnt uint64
	if res == "closed" || !s.cancelPending() {
		cnt, _ = s.node.GetAndResetTxReceivedCount()
	}
	if res == "closed" {
		tail := ""
		if strings.HasSuffix(run, "returned") {
			tail = s.endTail()
		}
		return fmt.Sprintf("sync=closed%s tx=* fx=[%s] hh=%s rx=%d st=%s%s", run, strings.Join(fx, ","), showHH(hh), cnt, flags(s.node), tail)
	}
	return fmt.Sprintf("sync=%s tx=%s fx=[%s] hh=%s rx=%d st=%s", res, s.takeSent(0, false), strings.Join(fx, ","), showHH(hh), cnt, flags(s.node))
}

// settle waits until nothing new arrives for a few polls (raw streams may carry handshake messages).
func (s *session) settle() {
	last, same := -1, 0
	for i := 0; i < 60 && same < 3; i++ {
		time.Sleep(time.Millisecond)
		s.mu.Lock()
		n := len(s.recv)
		if s.node.HandshakeIsComplete() {
			n += 1 << 20
		}
		s.mu.Unlock()
		if n == last {
			same++
		} else {
			same = 0
		}
		last = n
	}
}

func (s *session) finish() {
	if s == nil || s.conn == nil {
		return
	}
	s.conn.Close()
	close(s.writeQ)
	select {
	case <-s.done:
	case <-hx.After(300 * time.Millisecond):
	}
	close(s.interrupt)
}

// ---- frames ----

func le32(v uint32) []byte { b := make([]byte, 4); binary.LittleEndian.PutUint32(b, v); return b }
func le64(v uint64) []byte { b := make([]byte, 8); binary.LittleEndian.PutUint64(b, v); return b }

func cmd12(c string) []byte {
	b := make([]byte, 12)
	copy(b, c)
	return b
}

// frame builds a classic frame; overrides (len, ck, magic) may be nil.
func frame(cmd string, payload []byte, a hx.Args) []byte {
	m := magic
	length := uint32(len(payload))
	ck := sha256d(payload)[:4]
	if a != nil {
		if v, ok := a.Hex("magic"); ok {
			m = v
		}
		if v, ok := a.Uint("len"); ok {
			length = uint32(v)
		}
		if v, ok := a.Hex("ck"); ok {
			ck = v
		}
	}
	out := append([]byte{}, m...)
	out = append(out, cmd12(cmd)...)
	out = append(out, le32(length)...)
	out = append(out, ck...)
	out = append(out, payload...)
	return cut(out, a)
}

func extFrame(cmd string, payload []byte, a hx.Args) []byte {
	length := uint64(len(payload))
	hlen := uint32(0xffffffff)
	if v, ok := a.Uint("len"); ok {
		length = v
	}
	if v, ok := a.Uint("hlen"); ok {
		hlen = uint32(v)
	}
	out := append([]byte{}, magic...)
	out = append(out, cmd12("extmsg")...)
	out = append(out, le32(hlen)...)
	out = append(out, 0, 0, 0, 0)
	out = append(out, cmd12(cmd)...)
	out = append(out, le64(length)...)
	out = append(out, payload...)
	return cut(out, a)
}

func cut(b []byte, a hx.Args) []byte {
	if a == nil {
		return b
	}
	if k, ok := a.Uint("cut"); ok && int(k) < len(b) {
		return b[:k]
	}
	return b
}

func payloadOf(a hx.Args) ([]byte, bool) {
	var p []byte
	if _, ok := a["pay"]; ok {
		b, ok := a.Hex("pay")
		if !ok {
			return nil, false
		}
		p = append(p, b...)
	}
	if f, ok := a["fill"]; ok {
		parts := strings.Split(f, ":")
		if len(parts) != 2 {
			return nil, false
		}
		n, err1 := strconv.Atoi(parts[0])
		v, err2 := strconv.Atoi(parts[1])
		if err1 != nil || err2 != nil {
			return nil, false
		}
		p = append(p, bytes.Repeat([]byte{byte(v)}, n)...)
	}
	if g, ok := a["invgen"]; ok {
		// invgen=<n>:<base>: an inventory of n transaction items with synthetic ids (too long to spell out in hex)
		parts := strings.Split(g, ":")
		if len(parts) != 2 {
			return nil, false
		}
		n, err1 := strconv.Atoi(parts[0])
		base, err2 := strconv.Atoi(parts[1])
		if err1 != nil || err2 != nil || n < 0 || n > 200000 {
			return nil, false
		}
		p = append(p, varint(uint64(n))...)
		for i := 0; i < n; i++ {
			p = append(p, 1, 0, 0, 0)
			p = append(p, le64(uint64(base+i))...)
			p = append(p, make([]byte, 24)...)
		}
	}
	if _, ok := a["tail"]; ok {
		b, ok := a.Hex("tail")
		if !ok {
			return nil, false
		}
		p = append(p, b...)
	}
	return p, true
}

// ---- worker ----

type worker struct{ s *session }

func initLine(a hx.Args, pn uint64) string {
	z := func(k string) string {
		if a[k] == "1" {
			return "1"
		}
		return "0"
	}
	mem := defaultMem
	if v, ok := a.Uint("mem"); ok {
		mem = v
	}
	extra := ""
	if a["repo"] == "real" {
		extra = " repo=real"
	}
	if v, ok := a.Uint("txto"); ok && v > 0 && v < 3600000 {
		extra += fmt.Sprintf(" txto=%d", v)
	}
	return fmt.Sprintf("init verifyonly=%s tx=%s hh=%s mem=%d pn=%d%s", z("verifyonly"), z("tx"), z("hh"), mem, pn, extra)
}

func (w *worker) step(line string) string {
	res := w.stepInner(line)
	if w.s != nil && w.s.doubt && !strings.Contains(res, " #") {
		res += " #timing-doubt"
	}
	return res
}

func (w *worker) stepInner(line string) string {
	op := hx.OpPart(line)
	verb, a := hx.Parse(op)
	if verb == "init" {
		w.s.finish()
		s, errText := newSession(a)
		w.s = s
		if errText != "" {
			return initLine(a, 0) + " => " + errText
		}
		s.mu.Lock()
		s.taken = len(s.recv)
		s.mu.Unlock()
		return initLine(a, s.pn) + " => tx=[version]"
	}
	s := w.s
	if s == nil {
		return op + " => bad-op"
	}
	s.opIdx++
	timed := false
	var tSend time.Time
	var tMs int64
	if s.txto > 0 && !s.dead && ((verb == "msg" && a["cmd"] == "inv") || verb == "raw" || verb == "polltx") {
		// the node reads the clock while handling this op: write the reading into the op text
		ws := strings.Fields(op)
		kept := ws[:0]
		for _, w := range ws {
			if !strings.HasPrefix(w, "t=") {
				kept = append(kept, w)
			}
		}
		tMs = s.beforeTimed()
		tSend = time.Now()
		op = strings.Join(kept, " ") + fmt.Sprintf(" t=%d", tMs)
		timed = true
	}
	defer func() {
		if timed {
			s.afterTimed(tSend, tMs)
		}
	}()
	switch verb {
	case "wait":
		ms, ok := a.Uint("ms")
		if !ok || ms > 5000 {
			break
		}
		time.Sleep(time.Duration(ms) * time.Millisecond)
		return op + " => ok"
	case "polltx":
		if s.dead {
			return op + " => dead"
		}
		if s.txm == nil {
			return op + " => req=notx"
		}
		if s.cancelPending() {
			return op + " => req=locked"
		}
		txids, _ := s.txm.GetTxRequests(hx.Ctx(), s.node.ID(), 100000)
		// RequestTxs is called also with nothing to request: it must then send nothing (what it
		// sends, if anything, shows up in this op's tx list)
		s.node.RequestTxs(hx.Ctx(), txids)
		if len(txids) > 0 {
			s.mu.Lock()
			before := s.taken
			s.mu.Unlock()
			s.waitFor(settleWait, func() bool {
				for _, m := range s.recv[before:] {
					if m.cmd == "getdata" {
						return true
					}
				}
				return false
			})
			s.takeSent(0, false)
		}
		return op + fmt.Sprintf(" => req=%d ", len(txids)) + s.sendOp(a, nil, 0, false)
	case "msg":
		p, ok := payloadOf(a)
		cmd, ok2 := a["cmd"]
		if !ok || !ok2 {
			break
		}
		_, mutated := a["magic"]
		if !s.dead && !mutated {
			if _, c := a["cut"]; !c {
				if cmd == "version" {
					s.sentVer = true
				}
				if cmd == "verack" {
					s.sentAck = true
				}
			}
		}
		if a["nob"] == "1" {
			return op + " => " + s.partOp(a, frame(cmd, p, a))
		}
		return op + " => " + s.sendOp(a, frame(cmd, p, a), 0, false)
	case "ext":
		p, ok := payloadOf(a)
		cmd, ok2 := a["cmd"]
		if !ok || !ok2 {
			break
		}
		if a["nob"] == "1" {
			return op + " => " + s.partOp(a, extFrame(cmd, p, a))
		}
		return op + " => " + s.sendOp(a, extFrame(cmd, p, a), 0, false)
	case "raw":
		b, ok := a.Hex("hex")
		if !ok {
			break
		}
		if a["nob"] == "1" {
			return op + " => " + s.partOp(a, b)
		}
		return op + " => " + s.sendOp(a, b, 0, false)
	case "pong":
		d, ok := a.Uint("d")
		if !ok {
			break
		}
		return op + " => " + s.sendOp(a, frame("pong", le64(s.pn+d), nil), 0, false)
	case "ping":
		n, ok := a.Uint("n")
		if !ok {
			break
		}
		return op + " => " + s.sendOp(a, nil, n, true)
	case "expect":
		return op + " => " + s.sendOp(a, nil, 0, false)
	case "reqblock":
		h, ok := a.Hex("hdr")
		if !ok || len(h) != 80 {
			break
		}
		if s.dead {
			return op + " => dead"
		}
		if s.cancelPending() {
			return op + " => req=locked"
		}
		if !s.node.IsReady() {
			return op + " => req=notready"
		}
		var hash bitcoin.Hash32
		copy(hash[:], sha256d(h))
		rec := &blockRec{}
		err := s.node.RequestBlock(hx.Ctx(), hash, func(ctx context.Context, header *wire.BlockHeader,
			txCount uint64, txChannel <-chan *wire.MsgTx) error {
			rec.Lock()
			rec.called, rec.count, rec.done = true, txCount, "run"
			rec.Unlock()
			for range txChannel {
				rec.Lock()
				rec.got++
				rec.Unlock()
			}
			rec.Lock()
			defer rec.Unlock()
			if rec.got == rec.count {
				rec.done = "ok"
				return nil
			}
			rec.done = "err"
			return fmt.Errorf("incomplete block")
		}, func(context.Context) {
			// like BlockDownloader.Stop, which takes the state lock that a Cancel holds while it calls CancelBlockRequest
			atomic.AddInt64(&s.onStops, 1)
			s.dlMu.Lock()
			s.dlMu.Unlock()
		})
		if err != nil {
			return op + " => req=busy"
		}
		s.blk = rec
		s.mu.Lock()
		before := s.taken
		s.mu.Unlock()
		s.waitFor(settleWait, func() bool {
			for _, m := range s.recv[before:] {
				if m.cmd == "getdata" {
					return true
				}
			}
			return false
		})
		s.takeSent(0, false)
		return op + " => req=ok"
	case "reqheaders":
		if s.dead {
			return op + " => dead"
		}
		if s.cancelPending() {
			return op + " => req=locked"
		}
		if err := s.node.RequestHeaders(hx.Ctx()); err != nil {
			return op + " => req=busy"
		}
		s.mu.Lock()
		before := s.taken
		s.mu.Unlock()
		s.waitFor(settleWait, func() bool {
			for _, m := range s.recv[before:] {
				if m.cmd == "getheaders" {
					return true
				}
			}
			return false
		})
		s.takeSent(0, false)
		return op + " => req=ok"
	case "cancelblock":
		h, ok := a.Hex("hdr")
		if !ok || len(h) != 80 {
			break
		}
		if s.dead {
			return op + " => dead"
		}
		if s.cancelPending() {
			return op + " => started=locked"
		}
		var hash bitcoin.Hash32
		copy(hash[:], sha256d(h))
		ch := make(chan bool, 1)
		go func() { ch <- s.node.CancelBlockRequest(hx.Ctx(), hash) }()
		select {
		case r := <-ch:
			// an in-progress cancel closes the connection: see whether the node hung up
			if s.waitFor(40*time.Millisecond, func() bool { return false }) == "closed" {
				s.dead = true
				return op + " => started=" + b2s(r) + " closed=1 run=" + s.waitRun(runReturnMax)
			}
			return op + " => started=" + b2s(r)
		case <-hx.After(waitOf(a, 300*time.Millisecond)):
			s.cancelCh = ch
			return op + " => started=hung"
		}
	case "blockstate":
		// the handler thread runs beside the read loop: let its record settle
		last := ""
		for i := 0; i < 40; i++ {
			cur := s.blk.show()
			if cur == last {
				break
			}
			last = cur
			time.Sleep(2 * time.Millisecond)
		}
		busy := "?"
		if s.dead || !s.cancelPending() {
			busy = b2s(s.node.IsBusy())
		}
		return op + fmt.Sprintf(" => bh=%s onstop=%d busy=%s", s.blk.show(), atomic.LoadInt64(&s.onStops), busy)
	case "closecancel":
		// the peer drops while the download is being cancelled: like BlockDownloader.Cancel the harness holds the
		// "state lock" while it calls CancelBlockRequest; the node's run() meanwhile calls the request's on-stop
		// function (BlockDownloader.Stop), which takes that lock. Neither may wait for the other with the node
		// mutex held.
		h, ok := a.Hex("hdr")
		if !ok || len(h) != 80 {
			break
		}
		if s.hung || s.dead || s.cancelPending() {
			return s.stepInnerClose(op, a, " started=dead")
		}
		var hash bitcoin.Hash32
		copy(hash[:], sha256d(h))
		before := atomic.LoadInt64(&s.onStops)
		s.dlMu.Lock()
		s.conn.Close()
		hx.Until(2*time.Second, func() bool {
			select {
			case <-s.done:
				return true
			default:
			}
			return atomic.LoadInt64(&s.onStops) > before
		})
		ch := make(chan bool, 1)
		go func() { ch <- s.node.CancelBlockRequest(hx.Ctx(), hash) }()
		started := ""
		select {
		case r := <-ch:
			started = b2s(r)
		case <-hx.After(300 * time.Millisecond):
			started = "hung"
			s.cancelCh = ch
		}
		s.dlMu.Unlock()
		return s.stepInnerClose(op, a, " started="+started)
	case "close":
		return s.stepInnerClose(op, a, "")
	}
	return op + " => bad-op"
}

// stepInnerClose is the `close` op; `pre` is put in front of its observation.
func (s *session) stepInnerClose(op string, a hx.Args, pre string) string {
	{
		if s.hung {
			return op + " =>" + pre + " run=hung hh=[] st=" + flags(s.node)
		}
		if !s.dead {
			s.conn.Close()
		}
		wasDead := s.dead
		s.dead = true
		run := s.waitRun(waitOf(a, runReturnMax))
		if run == "hung" {
			s.hung = true
		}
		_, hh := s.log.take()
		if wasDead {
			hh = nil
		}
		tail := ""
		if run == "returned" {
			if wasDead && s.endTold {
				tail = fmt.Sprintf(" onstop=%d stopped=%s bh=%s", atomic.LoadInt64(&s.onStops), b2s(s.node.IsStopped()), s.blk.show())
			} else {
				tail = s.endTail()
			}
		}
		return op + " =>" + pre + " run=" + run + " hh=" + showHH(hh) + " st=" + flags(s.node) + tail
	}
}

func runWorker() {
	lim := syscall.Rlimit{Cur: workerLimit, Max: workerLimit}
	var cur syscall.Rlimit
	if err := syscall.Getrlimit(syscall.RLIMIT_AS, &cur); err == nil && cur.Max != ^uint64(0) && cur.Max < workerLimit {
		lim = syscall.Rlimit{Cur: cur.Max, Max: cur.Max}
	}
	syscall.Setrlimit(syscall.RLIMIT_AS, &lim)
	w := &worker{}
	hx.Lines(w.step)
	w.s.finish()
}

// ---- parent: isolates the real code in a child process ----

type child struct {
	cmd   *exec.Cmd
	in    io.WriteCloser
	out   *bufio.Reader
	errF  *os.File
	lines chan string
}

func startChild() *child {
	c := &child{}
	c.cmd = exec.Command(os.Args[0], "worker")
	c.cmd.Env = append(os.Environ(), "GOTRACEBACK=single")
	c.in, _ = c.cmd.StdinPipe()
	so, _ := c.cmd.StdoutPipe()
	c.errF, _ = os.CreateTemp("", "node-worker-*.err")
	c.cmd.Stderr = c.errF
	c.out = bufio.NewReaderSize(so, 1<<20)
	c.lines = make(chan string, 16)
	if err := c.cmd.Start(); err != nil {
		fmt.Fprintln(os.Stderr, "cannot start worker:", err)
		os.Exit(3)
	}
	go func() {
		for {
			l, err := c.out.ReadString('\n')
			if len(l) > 0 && strings.HasSuffix(l, "\n") {
				c.lines <- strings.TrimSuffix(l, "\n")
			}
			if err != nil {
				close(c.lines)
				return
			}
		}
	}()
	return c
}

// firstPanicLine returns the first line of what the dead worker wrote to stderr.
func (c *child) firstPanicLine() string {
	c.errF.Seek(0, 0)
	r := bufio.NewReader(io.LimitReader(c.errF, 1<<16))
	for {
		l, err := r.ReadString('\n')
		l = strings.TrimSpace(l)
		if strings.HasPrefix(l, "panic:") || strings.HasPrefix(l, "fatal error:") || strings.HasPrefix(l, "runtime:") {
			return l
		}
		if err != nil {
			return l
		}
	}
}

func (c *child) kill() {
	c.in.Close()
	if os.Getenv("GOCOVERDIR") != "" { // bin/coveraudit: let the worker leave by itself so that its counters are written
		done := make(chan struct{})
		go func() { c.cmd.Wait(); close(done) }()
		select {
		case <-done:
		case <-time.After(3 * time.Second):
			c.cmd.Process.Kill()
			<-done
		}
	} else {
		c.cmd.Process.Kill()
		c.cmd.Wait()
	}
	os.Remove(c.errF.Name())
	c.errF.Close()
}

// runScript feeds one script (from its init line to the line before the next init) to the worker
// and returns the output lines; doubt = the worker could not tell on which side of the tx request
// timeout an op fell (the script is then run again).
var hungOps int

func runScript(c **child, lines []string) (out []string, doubt bool) {
	dead := false
	for _, line := range lines {
		if line == "" || strings.HasPrefix(line, "#") {
			out = append(out, line)
			continue
		}
		op := hx.OpPart(line)
		if dead {
			out = append(out, op+" => dead")
			continue
		}
		if *c == nil {
			*c = startChild()
		}
		io.WriteString((*c).in, op+"\n")
		var res string
		ok := false
		timedOut := false
		// an op that gets no answer: the worker hangs (a deadlock in the real code, say). The first few cost 15 s of
		// harness time each, after that 3 s: an implementation that hangs on every other script must not keep a
		// quick check busy for half an hour
		limit := 15 * time.Second
		if hungOps >= 3 {
			limit = 3 * time.Second
		}
		select {
		case res, ok = <-(*c).lines:
		case <-hx.After(limit):
			hungOps++
			timedOut = true
		}
		if ok {
			if strings.HasSuffix(res, " #timing-doubt") {
				doubt = true
			}
			out = append(out, res)
			continue
		}
		// the worker died (process abort in the real code) or hung
		(*c).cmd.Process.Kill()
		err := (*c).cmd.Wait()
		code := -1
		if ee, isExit := err.(*exec.ExitError); isExit {
			code = ee.ExitCode()
		}
		text := strings.ReplaceAll((*c).firstPanicLine(), " ", "_")
		if len(text) > 160 {
			text = text[:160]
		}
		if timedOut {
			text = "HUNG:the_op_got_no_answer_(the_node_is_blocked,_e.g._on_its_own_mutex);_worker_killed"
		}
		os.Remove((*c).errF.Name())
		(*c).errF.Close()
		*c = nil
		key := "sync"
		if strings.HasPrefix(op, "ping ") {
			key = "pong"
		}
		if strings.HasPrefix(op, "polltx") {
			key = "req"
		}
		out = append(out, fmt.Sprintf("%s => %s=crash #exit=%d_%s", op, key, code, text))
		dead = true
	}
	return out, doubt
}

func runParent() {
	in := bufio.NewScanner(os.Stdin)
	in.Buffer(make([]byte, 1<<20), 1<<28)
	w := bufio.NewWriterSize(os.Stdout, 1<<16)
	defer w.Flush()
	var c *child
	var script []string
	flush := func() {
		if len(script) == 0 {
			return
		}
		var out []string
		for attempt := 0; attempt < 8; attempt++ {
			var doubt bool
			out, doubt = runScript(&c, script)
			if !doubt {
				break
			}
		}
		for _, l := range out {
			fmt.Fprintln(w, l)
		}
		w.Flush()
		script = script[:0]
	}
	for in.Scan() {
		line := in.Text()
		if strings.HasPrefix(hx.OpPart(line), "init") {
			flush()
		}
		script = append(script, line)
	}
	flush()
	if c != nil {
		c.kill()
	}
}

func main() {
	if len(os.Args) < 2 {
		fmt.Fprintln(os.Stderr, "usage: node run | worker | gen <seed> <scripts> <tier> <profile>")
		os.Exit(2)
	}
	switch os.Args[1] {
	case "run":
		runParent()
	case "worker":
		runWorker()
	case "gen":
		seed, _ := strconv.ParseUint(os.Args[2], 10, 64)
		n, _ := strconv.Atoi(os.Args[3])
		profile := "c13"
		if len(os.Args) > 5 {
			profile = os.Args[5]
		}
		gen(seed, n, os.Args[4], profile)
	}
}
