package main

import (
	"github.com/tokenized/bitcoin_reader"
	"github.com/tokenized/bitcoin_reader/headers"
	"github.com/tokenized/pkg/storage"
)

// newRealRepo is the production header repository (in-memory storage, genesis only) used by the
// `repo=real` scripts: VerifyHeader accepts only the real BSV split header and ProcessHeader is
// the real one. Only used to confirm reachability of crashes behind the HeaderRepository interface.
func newRealRepo() bitcoin_reader.HeaderRepository {
	repo := headers.NewRepository(headers.DefaultConfig(), storage.NewMockStorage())
	repo.DisableDifficulty()
	repo.InitializeWithGenesis()
	return repo
}
