// Command sync is the correspondence harness for C05 (block synchronisation order).
//
// It drives the REAL NodeManager.synchronizeBlocks (through the verif hook, or through
// TriggerBlockSynchronize for the restart-flag ops) against a REAL headers.Repository, the
// repository's MockBlockTxManager (processed marker) and a REAL BlockManager whose BlockRequestor
// is a scripted source (deliver / no node / drop mid-block / wrong block / hang until released).
//
// The header repository is the environment of the property: after every op that can change it the
// harness reads the best chain back (block ids by height) and the in-memory window and writes them
// INTO THE OP TEXT (chain=[..] window=k), so the model replays the same view.
//
//	sync run            < scripts > observations      (scripts run concurrently, output in order)
//	sync gen <seed> <n> <tier>      > scripts
package main

import (
	"bufio"
	"bytes"
	"context"
	"encoding/hex"
	"fmt"
	"os"
	"sort"
	"strconv"
	"strings"
	"sync"
	"time"

	"brvharness/internal/hx"

	"github.com/google/uuid"
	"github.com/pkg/errors"
	"github.com/tokenized/bitcoin_reader"
	"github.com/tokenized/bitcoin_reader/headers"
	"github.com/tokenized/pkg/bitcoin"
	"github.com/tokenized/pkg/merkle_proof"
	"github.com/tokenized/pkg/storage"
	"github.com/tokenized/pkg/wire"
	"github.com/tokenized/threads"
)

const genesisCoinbaseHex = "01000000010000000000000000000000000000000000000000000000000000000000000000ffffffff4d04ffff001d0104455468652054696d65732030332f4a616e2f32303039204368616e63656c6c6f72206f6e206272696e6b206f66207365636f6e64206261696c6f757420666f722062616e6b73ffffffff0100f2052a01000000434104678afdb0fe5548271967f1a67130b7105cd6a828e03909a67962e0ea1f61deb649f6bc3f4cef38c4f35504e51ec112de5c384df7ba0b8d578a4c702b6bf11d5fac00000000"

const (
	pollWait   = 12500 * time.Millisecond // the code polls every 10 s
	roundBound = 5 * time.Second
	quietTime  = 300 * time.Millisecond
)

type blk struct {
	id     int
	parent int
	header *wire.BlockHeader
	hash   bitcoin.Hash32
	tx     *wire.MsgTx
	txid   bitcoin.Hash32

	delivering bool // a correct delivery is running or has succeeded (w.mu)
}

type hung struct {
	b       *blk
	handler bitcoin_reader.HandleBlock
	c       *canceller
}

type roundH struct {
	done      chan string
	interrupt chan interface{}
}

type world struct {
	ctx   context.Context
	cfg   *bitcoin_reader.Config
	repo  *headers.Repository
	btm   *bitcoin_reader.MockBlockTxManager
	bm    *bitcoin_reader.BlockManager
	bmInt chan interface{}
	nm    *bitcoin_reader.NodeManager

	mu       sync.Mutex // guards everything below
	blocks   []*blk
	byHash   map[bitcoin.Hash32]int
	byTxid   map[bitcoin.Hash32]int
	outcomes []string
	reqs     []string
	cb       []string
	conf     []string
	hung     *hung
	hungCh   chan struct{}
	last     time.Time
	events   int
	dups     int

	rnd        *roundH
	threadMode bool
	lastPanic  string

	injMu sync.Mutex
	inj   *injection
}

func (w *world) touch() { // w.mu held
	w.last = time.Now()
	w.events++
}

// ---- scripted block source --------------------------------------------------------------------

type canceller struct {
	id        uuid.UUID
	w         *world
	mu        sync.Mutex
	started   bool
	cancelled bool
}

func (c *canceller) ID() uuid.UUID { return c.id }

func (c *canceller) CancelBlockRequest(ctx context.Context, hash bitcoin.Hash32) bool {
	c.mu.Lock()
	c.cancelled = true
	st := c.started
	c.mu.Unlock()
	c.w.mu.Lock()
	c.w.touch()
	c.w.mu.Unlock()
	return st
}

func (w *world) RequestBlock(ctx context.Context, hash bitcoin.Hash32,
	handler bitcoin_reader.HandleBlock, onStop bitcoin_reader.OnStop) (bitcoin_reader.BlockRequestCanceller, error) {

	w.mu.Lock()
	defer w.mu.Unlock()
	w.touch()
	id, known := w.byHash[hash]
	if !known {
		w.reqs = append(w.reqs, "?")
		return nil, bitcoin_reader.ErrNodeNotAvailable
	}
	b := w.blocks[id]
	if b.delivering {
		// The block manager's select can take its retry tick although the completion of this very
		// block is already signalled (both cases ready); such a request is answered "no node" and
		// only counted, so the scripted outcomes stay aligned with the requests that matter.
		w.dups++
		return nil, bitcoin_reader.ErrNodeNotAvailable
	}
	w.reqs = append(w.reqs, strconv.Itoa(id))
	out := "ok"
	if len(w.outcomes) > 0 {
		out = w.outcomes[0]
		w.outcomes = w.outcomes[1:]
	}
	c := &canceller{id: uuid.New(), w: w}
	switch out {
	case "nonode":
		return nil, bitcoin_reader.ErrNodeNotAvailable
	case "hang":
		w.hung = &hung{b: b, handler: handler, c: c}
		select {
		case w.hungCh <- struct{}{}:
		default:
		}
		return c, nil
	case "drop":
		go w.deliver(nil, b.header, nil, handler, c)
	case "wrong":
		o := w.otherHeader(b)
		go w.deliver(nil, o, nil, handler, c)
	default:
		b.delivering = true
		go w.deliver(b, b.header, b.tx, handler, c)
	}
	return c, nil
}

// otherHeader returns a header that is not b's. w.mu held.
func (w *world) otherHeader(b *blk) *wire.BlockHeader {
	for _, o := range w.blocks {
		if o.id != b.id && o.id != 0 {
			return o.header
		}
	}
	h := *b.header
	h.Nonce += 7777777
	return &h
}

// deliver calls the block handler like a node would: header, tx count 1, then the coinbase tx, or
// (tx == nil) the channel closes before the announced tx arrives (node dropped mid-block).
func (w *world) deliver(b *blk, header *wire.BlockHeader, tx *wire.MsgTx, handler bitcoin_reader.HandleBlock, c *canceller) {
	failed := func() {
		if b != nil {
			w.mu.Lock()
			b.delivering = false
			w.mu.Unlock()
		}
	}
	c.mu.Lock()
	if c.cancelled {
		c.mu.Unlock()
		failed()
		return
	}
	c.started = true
	c.mu.Unlock()
	ch := make(chan *wire.MsgTx, 1)
	if tx != nil {
		ch <- tx
	}
	close(ch)
	var err error = errors.New("panic")
	func() {
		defer func() { recover() }()
		err = handler(w.ctx, header, 1, ch)
	}()
	if err != nil {
		failed()
	}
	w.mu.Lock()
	w.touch()
	w.mu.Unlock()
}

// ---- recording tx processor ---------------------------------------------------------------------

type processor struct{ w *world }

func (p *processor) ProcessTx(ctx context.Context, tx *wire.MsgTx) (bool, error) { return true, nil }
func (p *processor) CancelTx(ctx context.Context, txid bitcoin.Hash32) error      { return nil }
func (p *processor) AddTxConflict(ctx context.Context, txid, c bitcoin.Hash32) error {
	return nil
}
func (p *processor) ConfirmTx(ctx context.Context, txid bitcoin.Hash32, blockHeight int,
	proof *merkle_proof.MerkleProof) error {
	p.w.mu.Lock()
	defer p.w.mu.Unlock()
	p.w.touch()
	id, ok := p.w.byTxid[txid]
	if !ok {
		p.w.conf = append(p.w.conf, fmt.Sprintf("?@%d", blockHeight))
		return nil
	}
	p.w.conf = append(p.w.conf, fmt.Sprintf("%d@%d", id, blockHeight))
	return nil
}
func (p *processor) UpdateTxChainDepth(ctx context.Context, txid bitcoin.Hash32, d uint32) error {
	return nil
}
func (p *processor) ProcessCoinbaseTx(ctx context.Context, blockHash bitcoin.Hash32, tx *wire.MsgTx) error {
	p.w.mu.Lock()
	defer p.w.mu.Unlock()
	p.w.touch()
	id, ok := p.w.byHash[blockHash]
	if !ok {
		p.w.cb = append(p.w.cb, "?")
		return nil
	}
	p.w.cb = append(p.w.cb, strconv.Itoa(id))
	return nil
}

// ---- world ----------------------------------------------------------------------------------

func newWorld(start int, mbd int) *world {
	w := &world{
		ctx:    hx.Ctx(),
		byHash: map[bitcoin.Hash32]int{},
		byTxid: map[bitcoin.Hash32]int{},
		hungCh: make(chan struct{}, 1),
		last:   time.Now(),
	}
	w.cfg = bitcoin_reader.DefaultConfig()
	w.cfg.StartBlockHeight = start
	hcfg := headers.DefaultConfig()
	hcfg.MaxBranchDepth = mbd
	w.repo = headers.NewRepository(hcfg, storage.NewMockStorage())
	w.repo.DisableDifficulty()
	w.repo.InitializeWithGenesis()

	gh, _ := w.repo.Header(w.ctx, 0)
	gtx := &wire.MsgTx{}
	raw, _ := hex.DecodeString(genesisCoinbaseHex)
	if err := gtx.Deserialize(bytes.NewReader(raw)); err != nil {
		panic("genesis coinbase: " + err.Error())
	}
	g := &blk{id: 0, parent: -1, header: gh, hash: *gh.BlockHash(), tx: gtx, txid: *gtx.TxHash()}
	w.blocks = []*blk{g}
	w.byHash[g.hash] = 0
	w.byTxid[g.txid] = 0

	w.btm = bitcoin_reader.NewMockBlockTxManager()
	w.bm = bitcoin_reader.NewBlockManager(w.btm, w, 1, time.Millisecond)
	w.bmInt = make(chan interface{})
	go func() {
		defer func() { recover() }()
		w.bm.Run(w.ctx, w.bmInt)
	}()
	w.nm = bitcoin_reader.NewNodeManager("/brv/", w.cfg, &injRepo{Repository: w.repo, w: w}, nil)
	w.nm.SetBlockManager(w.btm, w.bm, &processor{w})
	return w
}

func (w *world) close() {
	if w == nil {
		return
	}
	go func() {
		defer func() { recover() }()
		if w.rnd != nil {
			close(w.rnd.interrupt)
		}
		w.nm.Stop(w.ctx)
		close(w.bmInt)
	}()
}

func (w *world) addBlock(parent int) (*blk, error) {
	w.mu.Lock()
	id := len(w.blocks)
	p := w.blocks[parent]
	w.mu.Unlock()

	tx := wire.NewMsgTx(1)
	var zero bitcoin.Hash32
	tx.AddTxIn(wire.NewTxIn(wire.NewOutPoint(&zero, 0xffffffff),
		bitcoin.Script([]byte{4, byte(id), byte(id >> 8), byte(id >> 16), byte(id >> 24), 3, 'b', 'r', 'v'})))
	tx.AddTxOut(wire.NewTxOut(5000000000, bitcoin.Script([]byte{0x51})))
	txid := *tx.TxHash()
	h := &wire.BlockHeader{
		Version:    1,
		PrevBlock:  p.hash,
		MerkleRoot: txid,
		Timestamp:  p.header.Timestamp + 600,
		Bits:       0x1d00ffff,
		Nonce:      uint32(id),
	}
	b := &blk{id: id, parent: parent, header: h, hash: *h.BlockHash(), tx: tx, txid: txid}
	// register before the repository can hand the hash to the sync round
	w.mu.Lock()
	w.blocks = append(w.blocks, b)
	w.byHash[b.hash] = id
	w.byTxid[txid] = id
	w.mu.Unlock()
	if err := w.repo.ProcessHeader(w.ctx, h); err != nil {
		return b, err
	}
	return b, nil
}

// view reads the best chain (ids by height) and the lowest height still held in memory.
func (w *world) view() string { return w.viewSuffix("") }

// viewSuffix: chain<sfx>=[ids by height] window<sfx>=k and, when the repository still knows blocks
// that are not on the best chain, side<sfx>=[id:height:parent,...].
func (w *world) viewSuffix(sfx string) string {
	tip := w.repo.Height()
	ids := make([]string, 0, tip+1)
	hashes := make([]bitcoin.Hash32, 0, tip+1)
	for h := 0; h <= tip; h++ {
		hash, err := w.repo.Hash(w.ctx, h)
		if err != nil || hash == nil {
			ids = append(ids, "?")
			hashes = append(hashes, bitcoin.Hash32{})
			continue
		}
		w.mu.Lock()
		id, ok := w.byHash[*hash]
		w.mu.Unlock()
		if ok {
			ids = append(ids, strconv.Itoa(id))
		} else {
			ids = append(ids, "?")
		}
		hashes = append(hashes, *hash)
	}
	window := tip
	for k := 0; k < tip; k++ {
		if p, _ := w.repo.PreviousHash(hashes[k+1]); p != nil {
			window = k
			break
		}
	}
	out := fmt.Sprintf("chain%s=%s window%s=%d", sfx, hx.List(ids), sfx, window)
	onChain := map[bitcoin.Hash32]bool{}
	for _, h := range hashes {
		onChain[h] = true
	}
	w.mu.Lock()
	bl := append([]*blk{}, w.blocks...)
	w.mu.Unlock()
	var side []string
	for _, b := range bl {
		if onChain[b.hash] {
			continue
		}
		hh := w.repo.HashHeight(b.hash)
		if hh == -1 {
			continue
		}
		p, _ := w.repo.PreviousHash(b.hash)
		if p == nil {
			continue
		}
		w.mu.Lock()
		pid, ok := w.byHash[*p]
		w.mu.Unlock()
		if !ok {
			continue
		}
		side = append(side, fmt.Sprintf("%d:%d:%d", b.id, hh, pid))
	}
	if len(side) > 0 {
		out += fmt.Sprintf(" side%s=%s", sfx, hx.List(side))
	}
	return out
}

func errClass(err error) string {
	if err == nil {
		return "ok"
	}
	c := errors.Cause(err)
	switch c {
	case headers.ErrUnknownHeader:
		return "err:unknown-header"
	case headers.ErrBeyondMaxBranchDepth:
		return "err:max-branch-depth"
	case headers.ErrWrongChain:
		return "err:wrong-chain"
	}
	return "err:" + strings.ReplaceAll(firstN(err.Error(), 40), " ", "_")
}

func firstN(s string, n int) string {
	if len(s) > n {
		return s[:n]
	}
	return s
}

func roundClass(err error) string {
	if err == nil {
		return "ok"
	}
	if errors.Cause(err) == threads.Interrupted {
		return "interrupted"
	}
	msg := err.Error()
	switch {
	case strings.HasPrefix(msg, "header hash"):
		return "err:header-hash"
	case strings.HasPrefix(msg, "previous header hash"):
		return "err:prev-hash"
	case strings.HasPrefix(msg, "fetch block txids"):
		return "err:fetch"
	}
	return "err:other"
}

func (w *world) startRound() {
	r := &roundH{done: make(chan string, 1), interrupt: make(chan interface{})}
	w.rnd = r
	go func() {
		defer func() {
			if p := recover(); p != nil {
				w.mu.Lock()
				w.lastPanic = fmt.Sprint(p)
				w.mu.Unlock()
				r.done <- "panic"
			}
		}()
		r.done <- roundClass(w.nm.VerifSynchronizeBlocks(w.ctx, r.interrupt))
	}()
}

// settle waits until the direct-mode round returned, or a request hangs at the source, or `bound`
// passed with neither (the round is blocked with nothing outstanding at the source).
func (w *world) settle(bound time.Duration) string {
	r := w.rnd
	if r == nil {
		return "none"
	}
	select {
	case res := <-r.done:
		w.rnd = nil
		return res
	case <-w.hungCh:
		return "pending"
	case <-hx.After(bound):
		return "stalled"
	}
}

// settleThread: thread mode has no completion signal (the thread belongs to the NodeManager), so
// quiescence = a request hangs at the source, or nothing happened at source/processor for quietTime.
func (w *world) settleThread(bound time.Duration) string {
	// idle time and the bound are counted in harness running time (see hx.Until): a nap of 5 ms is
	// charged with at most 10 ms, so CPU starvation cannot make a busy manager look quiet
	w.mu.Lock()
	w.last = time.Now()
	seen := w.last
	w.mu.Unlock()
	idle := time.Duration(0)
	for {
		select {
		case <-w.hungCh:
			return "pending"
		default:
		}
		w.mu.Lock()
		if w.last != seen {
			seen = w.last
			idle = 0
		}
		h := w.hung != nil
		w.mu.Unlock()
		if !h && idle > quietTime {
			return "quiet"
		}
		if bound <= 0 {
			if h {
				return "pending"
			}
			return "quiet"
		}
		t0 := time.Now()
		time.Sleep(5 * time.Millisecond)
		el := time.Since(t0)
		if el > 10*time.Millisecond {
			el = 10 * time.Millisecond
		}
		idle += el
		bound -= el
	}
}

func (w *world) flush(ret string) string {
	w.mu.Lock()
	defer w.mu.Unlock()
	s := fmt.Sprintf("reqs=%s cb=%s conf=%s ret=%s", hx.List(w.reqs), hx.List(w.cb), hx.List(w.conf), ret)
	w.reqs, w.cb, w.conf = nil, nil, nil
	if ret == "pending" && w.hung != nil {
		s += fmt.Sprintf(" pend=%d", w.hung.b.id)
	}
	if w.dups > 0 {
		s += fmt.Sprintf(" #dup=%d", w.dups)
		w.dups = 0
	}
	return s
}

func parseOutcomes(s string) ([]string, bool) {
	if len(s) < 2 || s[0] != '[' || s[len(s)-1] != ']' {
		return nil, false
	}
	inner := s[1 : len(s)-1]
	if inner == "" {
		return []string{}, true
	}
	var out []string
	for _, p := range strings.Split(inner, ",") {
		name, cnt := p, 1
		if i := strings.IndexByte(p, '*'); i >= 0 {
			name = p[:i]
			n, err := strconv.Atoi(p[i+1:])
			if err != nil || n < 0 || n > 1000 {
				return nil, false
			}
			cnt = n
		}
		switch name {
		case "ok", "nonode", "drop", "wrong", "hang":
		default:
			return nil, false
		}
		for j := 0; j < cnt; j++ {
			out = append(out, name)
		}
	}
	return out, true
}

func (w *world) setOutcomes(a hx.Args) bool {
	s, ok := a["src"]
	if !ok {
		s = "[]"
	}
	outs, ok := parseOutcomes(s)
	if !ok {
		return false
	}
	w.mu.Lock()
	w.outcomes = outs
	w.mu.Unlock()
	return true
}

func (w *world) drainHung() {
	select {
	case <-w.hungCh:
	default:
	}
}

// baseOp strips the fields the harness itself writes into op texts.
func baseOp(verb string, a hx.Args, keys ...string) string {
	parts := []string{verb}
	for _, k := range keys {
		if v, ok := a[k]; ok {
			parts = append(parts, k+"="+v)
		}
	}
	return strings.Join(parts, " ")
}

func (w *world) busy() bool {
	w.mu.Lock()
	h := w.hung != nil
	w.mu.Unlock()
	return w.rnd != nil || h
}

// applyHdr feeds n new headers to the real repository, on top of the best-chain block `fork`
// below the tip or of block id `at`.
func (w *world) applyHdr(a hx.Args) (string, bool) {
	n, ok := a.Int("n")
	if !ok || n < 0 || n > 5000 {
		return "", false
	}
	parent := -1
	if d, ok := a.Int("fork"); ok {
		tip := w.repo.Height()
		ph := tip - int(d)
		if d < 0 || ph < 0 {
			return "", false
		}
		hash, err := w.repo.Hash(w.ctx, ph)
		if err != nil {
			return "", false
		}
		w.mu.Lock()
		id, known := w.byHash[*hash]
		w.mu.Unlock()
		if !known {
			return "", false
		}
		parent = id
	} else if at, ok := a.Int("at"); ok {
		w.mu.Lock()
		nb := len(w.blocks)
		w.mu.Unlock()
		if at < 0 || int(at) >= nb {
			return "", false
		}
		parent = int(at)
	} else {
		return "", false
	}
	res := "ok"
	for i := 0; i < int(n); i++ {
		b, err := w.addBlock(parent)
		if err != nil {
			res = errClass(err)
			break
		}
		parent = b.id
	}
	return res, true
}

// ---- header repository seen by the NodeManager: the real one, plus a scripted change of the real
// repository "right after the k-th call of <kind> returns during this round" ------------------------

type injection struct {
	kind  string
	k     int
	args  hx.Args
	count int
	fired bool
	after string // view after the change, for the op text
	res   string
}

type injRepo struct {
	*headers.Repository
	w *world
}

func (w *world) afterCall(kind string) {
	w.injMu.Lock()
	inj := w.inj
	fire := false
	if inj != nil && !inj.fired && inj.kind == kind {
		inj.count++
		if inj.count == inj.k {
			inj.fired = true
			fire = true
		}
	}
	w.injMu.Unlock()
	if fire {
		res, ok := w.applyHdr(inj.args)
		if !ok {
			res = "bad"
		}
		v := w.viewSuffix("2")
		w.injMu.Lock()
		inj.res = res
		inj.after = v
		w.injMu.Unlock()
	}
}

func (r *injRepo) LastHash() bitcoin.Hash32 {
	res := r.Repository.LastHash()
	r.w.afterCall("LastHash")
	return res
}

func (r *injRepo) HashHeight(hash bitcoin.Hash32) int {
	res := r.Repository.HashHeight(hash)
	r.w.afterCall("HashHeight")
	return res
}

func (r *injRepo) PreviousHash(hash bitcoin.Hash32) (*bitcoin.Hash32, int) {
	a, b := r.Repository.PreviousHash(hash)
	r.w.afterCall("PreviousHash")
	return a, b
}

func (r *injRepo) Hash(ctx context.Context, height int) (*bitcoin.Hash32, error) {
	a, b := r.Repository.Hash(ctx, height)
	r.w.afterCall("Hash")
	return a, b
}

func (r *injRepo) Height() int {
	res := r.Repository.Height()
	r.w.afterCall("Height")
	return res
}

// parseInject: `inject=<Kind>#<k>:<key>=<v>,<key>=<v>`
func parseInject(s string) (*injection, bool) {
	i := strings.IndexByte(s, ':')
	j := strings.IndexByte(s, '#')
	if i < 0 || j < 0 || j > i {
		return nil, false
	}
	kind := s[:j]
	switch kind {
	case "LastHash", "HashHeight", "PreviousHash", "Hash", "Height":
	default:
		return nil, false
	}
	k, err := strconv.Atoi(s[j+1 : i])
	if err != nil || k < 1 || k > 1000 {
		return nil, false
	}
	args := hx.Args{}
	for _, kv := range strings.Split(s[i+1:], ",") {
		if e := strings.IndexByte(kv, '='); e > 0 {
			args[kv[:e]] = kv[e+1:]
		}
	}
	if _, ok := args.Int("n"); !ok {
		return nil, false
	}
	return &injection{kind: kind, k: k, args: args}, true
}

func step(wp **world, line string) string {
	op := hx.OpPart(line)
	verb, a := hx.Parse(op)
	if verb == "init" {
		(*wp).close()
		start, ok := a.Int("start")
		if !ok || start < 0 {
			start = 0
		}
		mbd, ok := a.Int("mbd")
		if !ok {
			mbd = 100000
		}
		*wp = newWorld(int(start), int(mbd))
		return baseOp("init", a, "start", "mbd") + " " + (*wp).view() + " => ok"
	}
	w := *wp
	if w == nil {
		return op + " => bad-op"
	}
	switch verb {
	case "hdr":
		res, ok := w.applyHdr(a)
		if !ok {
			break
		}
		return baseOp("hdr", a, "fork", "at", "n") + " " + w.view() + " r=" + res + " => ok"
	case "prune":
		d, ok := a.Int("depth")
		if !ok || d < 0 {
			break
		}
		res, _ := hx.Guard(func() string { return errClass(w.repo.CleanWithDepth(w.ctx, int(d))) })
		return baseOp("prune", a, "depth") + " " + w.view() + " r=" + res + " => ok"
	case "processed":
		var ids []int
		if hs, ok := a.NatList("h"); ok {
			for _, h := range hs {
				hash, err := w.repo.Hash(w.ctx, h)
				if err != nil {
					continue
				}
				w.mu.Lock()
				id, known := w.byHash[*hash]
				w.mu.Unlock()
				if known {
					ids = append(ids, id)
				}
			}
		} else if l, ok := a.NatList("ids"); ok {
			ids = l
		} else {
			break
		}
		w.mu.Lock()
		nb := len(w.blocks)
		w.mu.Unlock()
		var good []int
		for _, id := range ids {
			if id >= 0 && id < nb {
				w.mu.Lock()
				hash := w.blocks[id].hash
				w.mu.Unlock()
				w.btm.AppendBlockTxIDs(w.ctx, hash, nil)
				good = append(good, id)
			}
		}
		return baseOp("processed", a, "h") + " ids=" + hx.IntList(good) + " => ok"
	case "round":
		if w.busy() || w.threadMode || !w.setOutcomes(a) {
			break
		}
		var inj *injection
		if spec, has := a["inject"]; has {
			var ok bool
			if inj, ok = parseInject(spec); !ok {
				break
			}
		}
		bound := roundBound
		if ms, ok := a.Int("wait"); ok && ms > 0 && ms <= 20000 {
			bound = time.Duration(ms) * time.Millisecond
		}
		w.drainHung()
		w.injMu.Lock()
		w.inj = inj
		w.injMu.Unlock()
		w.startRound()
		ret := w.settle(bound)
		opText := baseOp("round", a, "src", "wait", "inject")
		obs := w.flush(ret)
		if inj != nil {
			w.injMu.Lock()
			w.inj = nil
			fired, after, res := inj.fired, inj.after, inj.res
			w.injMu.Unlock()
			if fired {
				opText += " " + after + " r2=" + res
				obs = insertBeforeNote(obs, " inj=1")
			} else {
				obs = insertBeforeNote(obs, " inj=0")
			}
		}
		return opText + " => " + obs + w.pnote()
	case "release":
		w.mu.Lock()
		h := w.hung
		w.hung = nil
		w.mu.Unlock()
		if h == nil {
			break
		}
		if _, has := a["src"]; has {
			if !w.setOutcomes(a) {
				w.mu.Lock()
				w.hung = h
				w.mu.Unlock()
				break
			}
		}
		w.drainHung()
		w.mu.Lock()
		h.b.delivering = true
		w.mu.Unlock()
		go w.deliver(h.b, h.b.header, h.b.tx, h.handler, h.c)
		var ret string
		if w.threadMode {
			ret = w.settleThread(roundBound)
		} else {
			ret = w.settle(roundBound)
		}
		return op + " => " + w.flush(ret) + w.pnote()
	case "poll":
		// wait for the code's own 10 s timer
		if w.threadMode {
			w.mu.Lock()
			ev := w.events
			w.mu.Unlock()
			hx.Until(pollWait, func() bool {
				w.mu.Lock()
				changed := w.events != ev
				w.mu.Unlock()
				return changed
			})
			w.mu.Lock()
			if w.hung != nil && w.hung.c.isCancelled() {
				w.hung = nil
			}
			w.mu.Unlock()
			ret := w.settleThread(roundBound)
			return op + " => " + w.flush(ret) + w.pnote()
		}
		if w.rnd == nil {
			break
		}
		w.drainHung()
		r := w.rnd
		var ret string
		select {
		case res := <-r.done:
			w.rnd = nil
			ret = res
			w.mu.Lock()
			w.hung = nil
			w.mu.Unlock()
		case <-hx.After(pollWait):
			w.mu.Lock()
			h := w.hung != nil
			w.mu.Unlock()
			if h {
				ret = "pending"
			} else {
				ret = "stalled"
			}
		}
		return op + " => " + w.flush(ret) + w.pnote()
	case "interrupt":
		if w.rnd == nil || w.threadMode {
			break
		}
		r := w.rnd
		close(r.interrupt)
		var ret string
		select {
		case res := <-r.done:
			ret = res
		case <-hx.After(roundBound):
			ret = "stalled"
		}
		w.rnd = nil
		w.mu.Lock()
		w.hung = nil
		w.mu.Unlock()
		return op + " => " + w.flush(ret) + w.pnote()
	case "startup", "trigger":
		if w.rnd != nil || !w.setOutcomes(a) {
			break
		}
		w.threadMode = true
		w.drainHung()
		if verb == "startup" {
			w.nm.VerifMarkStartupDelayComplete(w.ctx)
		} else {
			w.nm.TriggerBlockSynchronize(w.ctx)
		}
		w.mu.Lock()
		h := w.hung != nil
		w.mu.Unlock()
		var ret string
		if h {
			// a round is blocked at the source: the trigger can only have set the restart flag
			time.Sleep(20 * time.Millisecond)
			ret = "pending"
		} else {
			ret = w.settleThread(roundBound)
		}
		return op + " => " + w.flush(ret) + w.pnote()
	case "state":
		w.mu.Lock()
		bl := append([]*blk{}, w.blocks...)
		w.mu.Unlock()
		var ids []int
		for _, b := range bl {
			if _, exists, _ := w.btm.FetchBlockTxIDs(w.ctx, b.hash); exists {
				ids = append(ids, b.id)
			}
		}
		sort.Ints(ids)
		return op + " => processed=" + hx.IntList(ids)
	}
	return op + " => bad-op"
}

// insertBeforeNote adds a field to an observation in front of a trailing ` #note`.
func insertBeforeNote(obs, field string) string {
	if i := strings.Index(obs, " #"); i >= 0 {
		return obs[:i] + field + obs[i:]
	}
	return obs + field
}

func (c *canceller) isCancelled() bool {
	c.mu.Lock()
	defer c.mu.Unlock()
	return c.cancelled
}

// pnote: panic text of a direct-mode round, as a trailing note the model does not print.
func (w *world) pnote() string {
	w.mu.Lock()
	defer w.mu.Unlock()
	if w.lastPanic == "" {
		return ""
	}
	t := w.lastPanic
	w.lastPanic = ""
	return " #" + strings.ReplaceAll(firstN(t, 80), " ", "_")
}

// ---- runner: scripts run concurrently, output stays in input order -------------------------------

func runScript(lines []string) []string {
	var w *world
	out := make([]string, 0, len(lines))
	for _, l := range lines {
		if l == "" || strings.HasPrefix(l, "#") {
			out = append(out, l)
			continue
		}
		res, ptxt := hx.Guard(func() string { return step(&w, l) })
		if res == "panic" {
			res = hx.OpPart(l) + " => panic #" + strings.ReplaceAll(firstN(ptxt, 80), " ", "_")
		}
		out = append(out, res)
	}
	w.close()
	return out
}

func run() {
	in := bufio.NewScanner(os.Stdin)
	in.Buffer(make([]byte, 1<<20), 1<<28)
	var scripts [][]string
	var pre []string
	for in.Scan() {
		l := in.Text()
		if strings.HasPrefix(l, "init") {
			scripts = append(scripts, []string{l})
		} else if len(scripts) == 0 {
			pre = append(pre, l)
		} else {
			scripts[len(scripts)-1] = append(scripts[len(scripts)-1], l)
		}
	}
	out := bufio.NewWriterSize(os.Stdout, 1<<16)
	defer out.Flush()
	for _, l := range pre {
		if l == "" || strings.HasPrefix(l, "#") {
			fmt.Fprintln(out, l)
		} else {
			fmt.Fprintln(out, hx.OpPart(l)+" => bad-op")
		}
	}
	// worker pool; scripts that wait for the code's 10 s poll are started first
	results := make([]chan []string, len(scripts))
	var order []int
	for pass := 0; pass < 2; pass++ {
		for i, sc := range scripts {
			slow := false
			for _, l := range sc {
				if strings.HasPrefix(l, "poll") {
					slow = true
				}
			}
			if slow == (pass == 0) {
				order = append(order, i)
			}
		}
	}
	for i := range scripts {
		results[i] = make(chan []string, 1)
	}
	next := make(chan int, len(scripts))
	for _, i := range order {
		next <- i
	}
	close(next)
	for k := 0; k < 8; k++ {
		go func() {
			for i := range next {
				results[i] <- runScript(scripts[i])
			}
		}()
	}
	for i := range scripts {
		for _, l := range <-results[i] {
			fmt.Fprintln(out, l)
		}
		out.Flush()
	}
}

func main() {
	if len(os.Args) < 2 {
		fmt.Fprintln(os.Stderr, "usage: sync run | gen <seed> <scripts> <tier>")
		os.Exit(2)
	}
	switch os.Args[1] {
	case "run":
		run()
	case "gen":
		seed, _ := strconv.ParseUint(os.Args[2], 10, 64)
		n, _ := strconv.Atoi(os.Args[3])
		gen(seed, n, os.Args[4])
	}
}

// ---- generator ----------------------------------------------------------------------------------

func failures(r *hx.Rng, max int) []string {
	var out []string
	n := r.Intn(max + 1)
	for i := 0; i < n; i++ {
		out = append(out, []string{"nonode", "drop", "wrong"}[r.Intn(3)])
	}
	return out
}

// srcPattern: per expected request a few failures followed by a delivery.
func srcPattern(r *hx.Rng, blocks int, failPct int) string {
	var out []string
	for i := 0; i < blocks; i++ {
		if r.Chance(failPct) {
			out = append(out, failures(r, 4)...)
		}
		out = append(out, "ok")
	}
	return "[" + strings.Join(out, ",") + "]"
}

func heightsList(hs []int) string { return hx.IntList(hs) }

func genProcessed(r *hx.Rng, start, tip int) []int {
	var hs []int
	if tip < 0 {
		return hs
	}
	switch r.Pick(30, 25, 15, 10, 10, 10) {
	case 0: // nothing
	case 1: // contiguous from start up to p
		p := start + r.Intn(tip-start+2)
		for h := start; h <= p && h <= tip; h++ {
			hs = append(hs, h)
		}
	case 2: // random holes
		for h := 0; h <= tip; h++ {
			if r.Chance(35) {
				hs = append(hs, h)
			}
		}
	case 3: // block directly below the tip
		if tip >= 1 {
			hs = append(hs, tip-1)
		}
	case 4: // tip itself
		hs = append(hs, tip)
	case 5: // something below the start height
		if start >= 1 {
			hs = append(hs, r.Intn(start))
		}
	}
	return hs
}

func gen(seed uint64, scripts int, tier string) {
	// hx.Rng is a counter-based generator: consecutive seeds give the same stream shifted by one
	// draw, so spread the seeds far apart
	r := hx.NewRng(seed*0x2545F4914F6CDD1D + 0x9A3F)
	slowBudget := 2
	if tier == "thorough" {
		slowBudget = 30
	}
	maxLen := 14
	if tier == "thorough" {
		maxLen = 40
	}
	for sidx := 0; sidx < scripts; sidx++ {
		start := r.Intn(9)
		if r.Chance(15) {
			start = 0
		}
		tip := 0
		switch r.Pick(20, 10, 10, 8, 5, 47) {
		case 0:
			tip = start
		case 1:
			tip = start + 1
		case 2:
			tip = start - 1
		case 3:
			tip = start + 2
		case 4:
			tip = 0
		case 5:
			tip = start + r.Intn(maxLen)
		}
		if tip < 0 {
			tip = 0
		}
		fmt.Printf("init start=%d\n", start)
		if tip > 0 {
			fmt.Printf("hdr fork=0 n=%d\n", tip)
		}
		// optional side branches / reorgs before the round
		if r.Chance(25) && tip >= 2 {
			d := 1 + r.Intn(min(tip, 4))
			k := d - 1 + r.Intn(3) // shorter, equal or longer than the replaced part
			if k > 0 {
				fmt.Printf("hdr fork=%d n=%d\n", d, k)
				if k > d {
					tip = tip - d + k
				}
			}
		}
		if r.Chance(12) && tip >= 2 {
			fmt.Printf("prune depth=%d\n", r.Intn(tip+1))
		}
		hs := genProcessed(r, start, tip)
		if len(hs) > 0 || r.Chance(10) {
			fmt.Printf("processed h=%s\n", heightsList(hs))
		}
		fam := r.Pick(32, 20, 9, 5, 8, 4, 7, 25)
		if fam == 6 && slowBudget == 0 {
			fam = 0
		}
		switch fam {
		case 0: // plain round(s)
			fmt.Println("round")
			fmt.Println("state")
		case 1: // failures then recovery
			fmt.Printf("round src=%s\n", srcPattern(r, tip+2, 60))
			fmt.Println("state")
		case 2: // new headers arrive while a request is outstanding
			k := r.Intn(3)
			pat := []string{}
			for i := 0; i < k; i++ {
				pat = append(pat, "ok")
			}
			pat = append(pat, "hang")
			fmt.Printf("round src=[%s]\n", strings.Join(pat, ","))
			fmt.Printf("hdr fork=0 n=%d\n", 1+r.Intn(3))
			fmt.Println("release")
			fmt.Println("state")
		case 3: // interrupt while waiting
			fmt.Println("round src=[hang]")
			fmt.Println("interrupt")
			fmt.Println("state")
		case 4: // restart flag: trigger while the first round is outstanding
			fmt.Println("startup src=[hang]")
			fmt.Printf("hdr fork=0 n=%d\n", 1+r.Intn(2))
			if r.Chance(80) {
				fmt.Println("trigger")
			}
			if r.Chance(30) {
				fmt.Println("trigger")
			}
			fmt.Printf("release src=%s\n", srcPattern(r, tip+4, 30))
			fmt.Println("state")
			fmt.Println("trigger")
			fmt.Println("state")
		case 5: // source outage long enough to end the block manager
			fmt.Println("round src=[nonode*40] wait=700")
			fmt.Println("interrupt")
			fmt.Println("state")
		case 7: // the header repository changes BETWEEN the round's own reads of it
			kind := []string{"LastHash", "HashHeight", "PreviousHash", "Hash", "Height"}[r.Pick(30, 20, 30, 12, 8)]
			if kind == "Hash" && tip >= 2 {
				fmt.Printf("prune depth=%d\n", r.Intn(2)) // the fallback by height is only used for pruned headers
			}
			k := 1 + r.Intn(3)
			if (kind == "LastHash" || kind == "HashHeight") && r.Chance(85) {
				k = 1 // a round calls these once
			}
			var change string
			if r.Chance(50) || tip < 1 {
				change = fmt.Sprintf("fork=0,n=%d", 1+r.Intn(2)) // new headers on the tip
			} else {
				d := 1 + r.Intn(min(tip, 3)) // reorg replacing the last d blocks
				change = fmt.Sprintf("fork=%d,n=%d", d, d+1+r.Intn(2))
			}
			src := ""
			if r.Chance(25) {
				src = " src=" + srcPattern(r, tip+3, 40)
			}
			fmt.Printf("round%s inject=%s#%d:%s\n", src, kind, k, change)
			fmt.Println("state")
		case 6: // the outstanding block leaves the best chain: needs the code's own 10 s poll
			slowBudget--
			k := r.Intn(2)
			pat := []string{}
			for i := 0; i < k; i++ {
				pat = append(pat, "ok")
			}
			pat = append(pat, "hang")
			fmt.Printf("round src=[%s]\n", strings.Join(pat, ","))
			d := 1 + r.Intn(tip+1)
			fmt.Printf("hdr fork=%d n=%d\n", d, d+1+r.Intn(2))
			fmt.Println("poll")
			fmt.Println("state")
		}
		// a later round continues (recovery / new best chain)
		if r.Chance(70) && fam != 3 {
			if r.Chance(40) {
				fmt.Printf("hdr fork=0 n=%d\n", 1+r.Intn(3))
			}
			switch fam {
			case 4:
				fmt.Println("trigger")
			case 5:
				fmt.Println("round wait=400")
			default:
				fmt.Println("round")
			}
			fmt.Println("state")
		}
	}
}

func min(a, b int) int {
	if a < b {
		return a
	}
	return b
}
