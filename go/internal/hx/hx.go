// Package hx holds helpers shared by the correspondence harnesses: a replayable PRNG, the
// `key=value` line protocol, a silent logging context and panic capture.
package hx

import (
	"bufio"
	"context"
	"encoding/hex"
	"fmt"
	"os"
	"sort"
	"strconv"
	"strings"
	"time"

	"github.com/tokenized/logger"
)

// Ctx returns a context whose logger discards everything.
func Ctx() context.Context {
	return logger.ContextWithNoLogger(context.Background())
}

// Rng is splitmix64: every random choice of a run derives from one seed.
type Rng struct{ s uint64 }

func NewRng(seed uint64) *Rng { return &Rng{s: seed*0x9E3779B97F4A7C15 + 0x1234567} }

func (r *Rng) Next() uint64 {
	r.s += 0x9E3779B97F4A7C15
	z := r.s
	z = (z ^ (z >> 30)) * 0xBF58476D1CE4E5B9
	z = (z ^ (z >> 27)) * 0x94D049BB133111EB
	return z ^ (z >> 31)
}

// Intn returns a value in [0,n).
func (r *Rng) Intn(n int) int {
	if n <= 0 {
		return 0
	}
	return int(r.Next() % uint64(n))
}

// Chance is true with probability pct/100.
func (r *Rng) Chance(pct int) bool { return r.Intn(100) < pct }

// Pick returns an index chosen by weights.
func (r *Rng) Pick(weights ...int) int {
	total := 0
	for _, w := range weights {
		total += w
	}
	x := r.Intn(total)
	for i, w := range weights {
		if x < w {
			return i
		}
		x -= w
	}
	return len(weights) - 1
}

// Words splits a line into the verb and its key=value arguments.
type Args map[string]string

func Parse(line string) (string, Args) {
	ws := strings.Fields(line)
	if len(ws) == 0 {
		return "", Args{}
	}
	a := Args{}
	for _, w := range ws[1:] {
		if i := strings.IndexByte(w, '='); i >= 0 {
			a[w[:i]] = w[i+1:]
		}
	}
	return ws[0], a
}

func (a Args) Int(k string) (int64, bool) {
	v, ok := a[k]
	if !ok {
		return 0, false
	}
	n, err := strconv.ParseInt(v, 10, 64)
	return n, err == nil
}

func (a Args) Uint(k string) (uint64, bool) {
	v, ok := a[k]
	if !ok {
		return 0, false
	}
	n, err := strconv.ParseUint(v, 10, 64)
	return n, err == nil
}

func (a Args) Hex(k string) ([]byte, bool) {
	v, ok := a[k]
	if !ok {
		return nil, false
	}
	return Unhex(v)
}

// NatList parses "[1,2,3]".
func (a Args) NatList(k string) ([]int, bool) {
	v, ok := a[k]
	if !ok || len(v) < 2 {
		return nil, false
	}
	inner := v[1 : len(v)-1]
	if inner == "" {
		return []int{}, true
	}
	var out []int
	for _, p := range strings.Split(inner, ",") {
		n, err := strconv.Atoi(p)
		if err != nil {
			return nil, false
		}
		out = append(out, n)
	}
	return out, true
}

// Hex encodes bytes; the empty string is "-".
func Hex(b []byte) string {
	if len(b) == 0 {
		return "-"
	}
	return hex.EncodeToString(b)
}

func Unhex(s string) ([]byte, bool) {
	if s == "-" {
		return []byte{}, true
	}
	b, err := hex.DecodeString(s)
	return b, err == nil
}

// SortedList formats a multiset of strings canonically: "[a,b,c]".
func SortedList(xs []string) string {
	ys := append([]string{}, xs...)
	sort.Strings(ys)
	return "[" + strings.Join(ys, ",") + "]"
}

func List(xs []string) string { return "[" + strings.Join(xs, ",") + "]" }

func IntList(xs []int) string {
	ss := make([]string, len(xs))
	for i, x := range xs {
		ss[i] = strconv.Itoa(x)
	}
	return List(ss)
}

// Guard runs f and reports a panic as ("panic", text).
func Guard(f func() string) (out string, panicText string) {
	defer func() {
		if r := recover(); r != nil {
			out = "panic"
			panicText = fmt.Sprint(r)
		}
	}()
	return f(), ""
}

// Lines calls f for every input line; output is flushed per line so a crash loses nothing.
func Lines(f func(line string) string) {
	in := bufio.NewScanner(os.Stdin)
	in.Buffer(make([]byte, 1<<20), 1<<28)
	out := bufio.NewWriterSize(os.Stdout, 1<<16)
	defer out.Flush()
	for in.Scan() {
		line := in.Text()
		if line == "" || strings.HasPrefix(line, "#") {
			fmt.Fprintln(out, line)
			continue
		}
		res := f(line)
		fmt.Fprintln(out, res)
		out.Flush()
	}
}

// OpPart returns the op text of an "op => obs" line.
func OpPart(line string) string {
	if i := strings.Index(line, " => "); i >= 0 {
		return line[:i]
	}
	return line
}

// Patient waiting. The bounds of the harnesses are budgets of time in which the harness itself could
// run, not of wall-clock time: on a machine that is busy with other work a wait gets longer instead of
// ending in a spurious "timed out" (which a check would have to report as a violation). Every nap of
// one millisecond is charged with the time it really took, but with at most maxCharge.
const maxCharge = 2 * time.Millisecond

// Until waits until cond holds or the budget is used up and reports cond().
func Until(budget time.Duration, cond func() bool) bool {
	for budget > 0 {
		if cond() {
			return true
		}
		t0 := time.Now()
		time.Sleep(time.Millisecond)
		el := time.Since(t0)
		if el > maxCharge {
			el = maxCharge
		}
		budget -= el
	}
	return cond()
}

// After is time.After on the patient clock.
func After(budget time.Duration) <-chan struct{} {
	ch := make(chan struct{})
	go func() {
		Until(budget, func() bool { return false })
		close(ch)
	}()
	return ch
}
