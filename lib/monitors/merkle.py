"""Monitor for C04: decides, from the calls the recording TxProcessor / BlockTxManager saw, whether a
confirmation (or coinbase processing, or recording of the block's txids) was issued for a block that
was not fully verified, or with a merkle proof that does not verify.

Independent reference: a plain level-by-level merkle tree over an injective 64-bit term digest
(leaf id -> digest, (l, r) -> digest). The harness prints every hash inside a proof as the digest of
its term, so proofs are re-verified here without trusting MerkleProof.Verify (whose native result is
printed too and must agree). Used only to find failing inputs."""
import brv

M = (1 << 64) - 1


def leaf_digest(n):
    x = ((n + 1) * 0x9E3779B97F4A7C15) & M
    return x ^ (x >> 31)


def node_digest(a, b):
    x = (a * 0xBF58476D1CE4E5B9 + (b ^ (b >> 29)) * 0x94D049BB133111EB + 0x632BE59BD9B4E019) & M
    x ^= x >> 32
    x = (x * 0xD6E8FEB86659FD93) & M
    return x ^ (x >> 32)


def plain_root(ids):
    """textbook root: pair up, duplicate the last of an odd level; None for the empty list."""
    if not ids:
        return None
    level = [leaf_digest(i) for i in ids]
    while len(level) > 1:
        if len(level) % 2:
            level.append(level[-1])
        level = [node_digest(level[i], level[i + 1]) for i in range(0, len(level), 2)]
    return level[0]


def recompute(txid, index, path, dups):
    """textbook verification of (index, siblings, duplicate markers): the root it commits to, or
    None when a right-hand node is paired with itself (not a position in any tree)."""
    h = leaf_digest(txid)
    path = list(path)
    dups = list(dups)
    layer = 1
    while path or (dups and dups[0] == layer):
        if dups and dups[0] == layer:
            dups.pop(0)
            other = h
        else:
            other = path.pop(0)
        left = index % 2 == 0
        if not left and other == h:
            return None
        h = node_digest(h, other) if left else node_digest(other, h)
        index //= 2
        layer += 1
    if dups:
        return None
    return h


def _kv(op):
    ws = op.split()
    return ws[0], dict(w.split("=", 1) for w in ws[1:] if "=" in w)


def _list(s):
    inner = s.strip()[1:-1]
    return [int(x) for x in inner.split(",")] if inner else []


def _parse_confirm(c):
    # c<id>@<height>#<index>[path][dups]=<verify>[!]
    bad_ptr = c.endswith("!")
    if bad_ptr:
        c = c[:-1]
    head, rest = c[1:].split("@", 1)
    height, rest = rest.split("#", 1)
    if rest.startswith("nil"):
        return dict(txid=head, height=int(height), nil=True, bad_ptr=bad_ptr)
    idx, rest = rest.split("[", 1)
    path_s, rest = rest.split("]", 1)
    dups_s, rest = rest[1:].split("]", 1)
    verify = rest[1:]
    path = [None if x == "?" else int(x) for x in path_s.split(",")] if path_s else []
    dups = [int(x) for x in dups_s.split(",")] if dups_s else []
    return dict(txid=head, height=int(height), index=int(idx), path=path, dups=dups, verify=verify,
                nil=False, bad_ptr=bad_ptr)


def check_block(op, obs):
    """[(sig, text)] for one `block` line."""
    hits = []
    _, a = _kv(op)
    o = dict(w.split("=", 1) for w in obs.split() if "=" in w)
    if obs.split()[:1] == ["bad-op"] or "ret" not in o:
        return hits
    n = int(a["n"])
    recv = _list(a["recv"])
    rel = set(_list(a["rel"]))
    count = int(a["count"])
    height = int(a["height"])
    perr = None if a["perr"] == "-" else int(a["perr"])
    ret = o["ret"]
    if ret == "panic" or o.get("complete") == "panic":
        return [("handler-panic", f"HandleBlock crashed on `{op[:100]}`")]
    calls = [] if o.get("calls", "-") == "-" else o["calls"].split(";")

    header_root = plain_root(list(range(n)))
    verified = (a["hdr"] == "ok" and len(recv) == count and plain_root(recv) == header_root)
    cancelled = a["pre"] == "1" or a["cend"] == "1" or (a["cancel"] != "-" and int(a["cancel"]) < len(recv))
    proc_failed = perr is not None and perr < len(recv)

    ptx = [c for c in calls if c.startswith("p")]
    cbs = [c for c in calls if c.startswith("cb")]
    cfs = [c for c in calls if c.startswith("c") and not c.startswith("cb") and not c.startswith("canceltx") and not c.startswith("conflict")]
    aps = [c for c in calls if c.startswith("ap")]
    other = [c for c in calls if c.startswith(("canceltx", "conflict", "depth", "fetch"))]
    desc = f"n={n} recv={a['recv'][:60]} count={count} hdr={a['hdr']}"

    # 1. nothing is issued for a block that is not fully verified, or after a failure / cancellation
    if (cbs or cfs or aps) and not verified:
        why = ("header is not the requested one" if a["hdr"] != "ok" else
               f"received {len(recv)} txs, announced {count}" if len(recv) != count else
               "merkle root of the received txs differs from the header's")
        hits.append(("unverified-confirm",
                     f"{len(cfs)} ConfirmTx / {len(cbs)} ProcessCoinbaseTx / {len(aps)} AppendBlockTxIDs issued although {why} ({desc})"))
    if (cbs or cfs or aps) and (cancelled or proc_failed):
        hits.append(("confirm-after-abort",
                     f"calls {[c[:12] for c in (cbs + cfs + aps)][:4]} issued although the download was "
                     f"{'cancelled' if cancelled else 'failed in ProcessTx'} ({desc})"))
    if other:
        hits.append(("unexpected-call", f"unexpected processor/store calls {other[:3]}"))
    if a["hdr"] != "ok" and calls and a["pre"] != "1":
        hits.append(("wrong-block-processed", f"calls {calls[:3]} made for a header that is not the requested block"))

    # 2. every confirmation carries a proof that verifies against the header for exactly that txid
    want = [recv[k] for k in range(len(recv)) if k in rel]
    for c in cfs:
        p = _parse_confirm(c)
        if p["nil"]:
            hits.append(("bad-proof", f"ConfirmTx({p['txid']}) without a proof"))
            continue
        if p["txid"] == "?":
            hits.append(("bad-proof", "ConfirmTx for a txid that is not a received transaction"))
            continue
        txid = int(p["txid"])
        if p["height"] != height:
            hits.append(("wrong-height", f"ConfirmTx({txid}) at height {p['height']}, block height is {height}"))
        dup_in_block = len(set(recv)) != len(recv)
        sig = "dup-txid-proof" if dup_in_block else "bad-proof"
        if None in p["path"]:
            hits.append((sig, f"proof of tx {txid} contains a hash that is no node of the block's merkle tree ({desc})"))
            continue
        got = recompute(txid, p["index"], p["path"], p["dups"])
        if got is None or got != header_root:
            hits.append((sig, f"ConfirmTx(tx {txid}, index {p['index']}) carries a proof that does not recompute the header's merkle root ({desc})"))
        elif p["verify"] != "ok":
            hits.append((sig, f"MerkleProof.Verify() of the proof of tx {txid} returned {p['verify']} ({desc})"))
        if got is not None and got == header_root and p["verify"] == "ok" and \
                not (0 <= p["index"] < len(recv) and recv[p["index"]] == txid):
            hits.append((sig, f"proof of tx {txid} has index {p['index']}, which is not a position of that tx ({desc})"))
        if p["verify"] == "ok" and (got is None or got != header_root):
            hits.append(("verify-disagrees", f"MerkleProof.Verify() accepted a proof of tx {txid} that does not recompute the header root"))
        if p["bad_ptr"]:
            hits.append(("bad-proof", f"proof of tx {txid} does not carry the block's header/hash/txid"))

    # 3. confirmations = the relevant transactions, once each, in block order
    got_ids = []
    for c in cfs:
        t = _parse_confirm(c)["txid"]
        got_ids.append(int(t) if t != "?" else -1)
    if ret == "ok" and o.get("complete") == "ok":
        if not verified:
            hits.append(("unverified-accept", f"HandleBlock reported success for an unverified block ({desc})"))
        if got_ids != want:
            hits.append(("confirm-set", f"confirmed {got_ids[:8]} but the relevant transactions are {want[:8]} ({desc})"))
        if len(cbs) != 1 or (recv and cbs[0].rstrip("!") != f"cb{recv[0]}") or cbs[0].endswith("!"):
            hits.append(("coinbase", f"coinbase calls {cbs[:2]}, expected one for tx {recv[0] if recv else '-'} with the block hash"))
        exp_ap = "ap[" + ",".join(str(x) for x in want) + "]"
        if aps != [exp_ap]:
            hits.append(("append-set", f"recorded {aps[:2]}, expected {exp_ap[:60]}"))
        if [c for c in ptx] != [f"p{x}" for x in recv]:
            hits.append(("process-set", "ProcessTx calls are not the received transactions in order"))
    else:
        # partial issue is only possible after full verification (errors of ConfirmTx / store); still in order
        if got_ids != want[:len(got_ids)]:
            hits.append(("confirm-set", f"confirmed {got_ids[:8]}, not a prefix of the relevant {want[:8]} ({desc})"))
        if aps and ret != "store-err":
            hits.append(("append-set", f"block txids recorded although HandleBlock returned {ret}"))
    # a verified, undisturbed block must succeed (otherwise "only when" would be met by doing nothing)
    undisturbed = (not cancelled and not proc_failed and a["cberr"] == "0" and a["sterr"] == "0"
                   and (a["cferr"] == "-" or int(a["cferr"]) >= len(want)))
    # (a block that repeats transactions may be rejected although its root matches: a proof of a repeated
    #  relevant tx does not verify; a duplicate-free verified block must be accepted)
    if verified and undisturbed and ret != "ok" and not (ret == "proof-err" and len(set(recv)) != len(recv)):
        hits.append(("verified-rejected", f"fully verified block rejected with {ret} ({desc})"))
    if ret == "proof-err" and (cbs or cfs or aps):
        hits.append(("confirm-after-abort", f"calls issued although a merkle proof did not verify ({desc})"))
    if len(set(got_ids)) != len(got_ids) and len(set(recv)) == len(recv):
        hits.append(("confirm-twice", f"a transaction was confirmed twice: {got_ids[:8]}"))
    return hits


def monitor(script):
    hits = []
    for line in script:
        op = brv.op_part(line)
        if not op.startswith("block"):
            continue
        obs = brv.strip_note(brv.obs_part(line))
        hits += check_block(op, obs)
    return hits


def nontrivial(script):
    for line in script:
        op = brv.op_part(line)
        if op.startswith("block"):
            _, a = _kv(op)
            if len(_list(a.get("recv", "[]"))) >= 1:
                return True
    return False
