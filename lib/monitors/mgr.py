"""Monitor for the `mgr` stream (request routing of NodeManager over several live connections).

Evaluates the PROPERTIES on what the implementation did, from the harness's ground truth only:
`gt=` (what every node's PEER has sent: f fresh, h handshake done, v accepted verification header,
x connection over), `got=` (what the scripted peers received) and `sync=` (which connections answered
the barrier ping). The flags the harness read from the nodes (`fl=`, IsReady() & co) are NOT trusted
here, except bit 16 which records an action of the harness itself (it closed that node's outgoing
channel for the duration of the call).

C13: a peer that has not completed the handshake AND proven its chain never receives a routed
     getheaders (`ghreq`; the node's own verify / initial requests are `ghver` / `ghinit`), getdata
     or tx. Beyond the letter of C13 an independent reference of the routing rule (first verified,
     idle, running node with the data, round robin from the offset; stopped nodes dropped when the
     scan meets them) is compared with who was asked and with the manager's scan state.
C15: after hostile bytes on connection k the process lives, k is closed (its Run returned) or still
     in sync, and every other connection that was in sync still is.
"""
import brv

ROUTING = ("reqheaders", "reqtxs", "reqblock", "sendtx")
REQUEST_TOKENS = ("ghreq", "gdb", "gdt", "tx", "gh?", "gd?")
TIP = 4


def _kv(text):
    ws = text.split()
    return (ws[0] if ws else ""), dict(w.split("=", 1) for w in ws[1:] if "=" in w)


def _natlist(s):
    s = s.strip()
    if not (s.startswith("[") and s.endswith("]")):
        return None
    inner = s[1:-1]
    return [int(x) for x in inner.split(",")] if inner else []


def _got(s):
    out = []
    for item in (s[1:-1].split(",") if len(s) > 2 else []):
        i, tok = item.split(":", 1)
        out.append((int(i), tok))
    return out


def height_of(b):
    if 0 <= b < 10:
        return 100 + b
    if 10 <= b < 15:
        return 92 + b
    return None


def _is_request(tok):
    return tok == "tx" or tok.startswith(("ghreq", "gdb", "gdt", "gh?", "gd?", "other."))


class Ref:
    """what the harness's ground truth says about every node."""

    def __init__(self, n):
        self.stage = ["f"] * n
        self.req = [None] * n        # outstanding block request
        self.last_req = [None] * n   # lastRequestedBlock
        self.last_hdr = [None] * n   # lastHeaderHash
        self.pend = {}               # txid -> nodes that announced it and were not asked yet

    def add(self):
        for l in (self.stage, self.req, self.last_req, self.last_hdr):
            l.append(None)
        self.stage[-1] = "f"

    def has_block(self, i, b):
        h = height_of(b)
        if h is None or self.last_req[i] == b or self.last_hdr[i] is None:
            return False
        if self.last_hdr[i] == b:
            return True
        lh = height_of(self.last_hdr[i])
        return lh is not None and lh >= h

    def available(self, i, b=None):
        return self.stage[i] == "v" and self.req[i] is None and (b is None or self.has_block(i, b))


def _next_node(ref, order, off, b, closed):
    """reference of nextNode on the ground truth: returns (order', off', chosen or None)."""
    order = list(order)
    looped = False
    while True:
        if off >= len(order):
            if looped or not order:
                return order, off, None
            off, looped = 0, True
        i = order[off]
        if ref.stage[i] == "x" and i not in closed:
            del order[off]
            continue
        if ref.available(i, b):
            return order, off + 1, i
        off += 1


def monitor(script):
    hits = []

    def hit(sig, text):
        hits.append((sig, text))

    ref = None
    order, off = [], 0
    prev_sync = ""
    has_tx = True
    for line in script:
        op = brv.op_part(line)
        verb, a = _kv(op)
        oraw = brv.strip_note(brv.obs_part(line))
        _, o = _kv("x " + oraw)
        first = oraw.split(" ", 1)[0] if oraw else ""
        if "panic" in oraw.split() or first == "panic":
            sig = "C13:routing-call-panicked" if verb in ROUTING else "C15:panic-in-process"
            hit(sig, f"`{op[:80]}` panicked: {line[-160:]}")
            return hits
        if first == "err=hung":
            hit("C13:routing-call-hung", f"`{op[:70]}` did not return (the manager spins or is blocked with its mutex held)")
            return hits
        if first == "bad-op" or "gt" not in o:
            continue
        gt, sync = o["gt"], o["sync"]
        got = _got(o.get("got", "[]"))
        nodes_after, off_after = _natlist(o["nodes"]), int(o["off"])
        if verb == "init":
            ref = Ref(len(gt))
            order, off = list(range(len(gt))), 0
            has_tx = a.get("tx") != "0"
            prev_sync = sync
            continue
        if ref is None:
            continue
        n_before = len(ref.stage)
        stage_before = list(ref.stage)
        skip = first == "skip"
        target = int(a["i"]) if a.get("i", "").isdigit() else None
        closed_now = set()

        # ---- what may be received, by op ------------------------------------------------------
        if verb in ROUTING and not skip:
            fl = _natlist(a.get("fl", "[]")) or []
            closed_now = {i for i, f in enumerate(fl) if f & 16}
            for i, tok in got:
                if _is_request(tok) and (i >= n_before or stage_before[i] != "v"):
                    st = stage_before[i] if i < n_before else "?"
                    hit("C13:unready-node-selected",
                        f"`{op[:70]}`: node {i} received {tok} but its peer is at stage '{st}' "
                        "(f=no handshake, h=handshake only, x=connection over): not verified")
        else:
            for i, tok in got:
                ok = (verb == "hs" and tok == "ghver" and i == target) or \
                     (verb == "verify" and tok == "ghinit" and i == target) or \
                     (verb == "busy" and tok.startswith("gdb") and i == target)
                if not ok:
                    sig = "C13:request-outside-routing" if _is_request(tok) else "C13:unexpected-message"
                    hit(sig, f"`{op[:70]}`: node {i} sent {tok} to its peer (stage '{stage_before[i] if i < n_before else '?'}')")

        # ---- reference routing ------------------------------------------------------------------
        if verb in ROUTING and not skip:
            b = int(a["b"]) if verb == "reqblock" else None
            exp_got, exp_order, exp_off = [], order, off
            if verb == "sendtx":
                exp_got = [(i, "tx") for i in order if ref.available(i) and i not in closed_now]
            elif verb == "reqblock" and height_of(b) is None:
                pass
            elif verb == "reqtxs" and not has_tx:
                pass
            else:
                stamped = set()
                for _ in range(len(order) + 2):
                    exp_order, exp_off, i = _next_node(ref, exp_order, exp_off, b, closed_now)
                    if i is None:
                        break
                    if verb == "reqtxs":
                        txs = sorted(t for t, ns in ref.pend.items() if i in ns and t not in stamped)
                        if not txs:
                            break
                        for t in txs:
                            ref.pend[t].remove(i)
                            stamped.add(t)
                        if i in closed_now:
                            continue
                        exp_got = [(i, "gdt" + ".".join(map(str, txs)))]
                        break
                    if verb == "reqblock":
                        ref.req[i], ref.last_req[i] = b, b
                        if i in closed_now:
                            continue
                        exp_got = [(i, f"gdb{b}")]
                        break
                    if i in closed_now:
                        # the real loop may ask the closing node again until its run() has cleared isReady;
                        # the harness only closes a node when another one is available behind it
                        continue
                    exp_got = [(i, "ghreq")]
                    break
            if sorted(got) != sorted(exp_got):
                hit("C13:routing-differs-from-reference",
                    f"`{op[:70]}`: peers received {got}, the routing rule on the ground truth (stages {''.join(stage_before)}, "
                    f"scan order {order} offset {off}) gives {exp_got}")
            elif verb != "sendtx" and (nodes_after != exp_order or off_after != exp_off):
                hit("C13:scan-state-differs-from-reference",
                    f"`{op[:70]}`: manager holds nodes={nodes_after} off={off_after}, reference nodes={exp_order} off={exp_off} "
                    f"(before: nodes={order} off={off}, stages {''.join(stage_before)})")
            elif verb == "sendtx" and (nodes_after != order or off_after != off):
                hit("C13:scan-state-differs-from-reference", f"`{op[:70]}`: SendTx changed the scan state to nodes={nodes_after} off={off_after}")
            for i in closed_now:
                ref.stage[i] = "x"

        # ---- C15 ----------------------------------------------------------------------------------
        if verb == "hostile" and not skip:
            out = a.get("out", "?")
            if out != "alive" and o.get("run") != "returned":
                hit("C15:run-not-returned", f"`{op[:70]}`: connection {target} ended but the node's Run did not return ({o.get('run')})")
            if out == "stuck":
                hit("C15:connection-stuck", f"`{op[:70]}`: node {target} neither answered the next ping nor closed the connection")
            if out == "alive" and target is not None and target < len(sync) and sync[target] != "1":
                hit("C15:connection-stuck", f"`{op[:70]}`: node {target} kept the connection but is out of sync")
        if verb == "stallstop" and not skip:
            st = o.get("sendtx")
            if o.get("stop") == "hung":
                hit("C15:stop-never-returns",
                    f"`{op[:70]}`: BitcoinNode.Stop did not return on a node whose outgoing queue is full behind a stalled peer: "
                    "the connection cannot be closed, Run does not return, a sender stays parked on the queue")
                return hits
            if st == "panic":
                hit("C15:parked-sender-hit-by-close",
                    f"`{op[:70]}`: a NodeManager.SendTx parked on the full outgoing queue of a stalled peer panicked (send on closed "
                    "channel) when the node was stopped: nothing recovers a panic in the caller's goroutine, the process would end")
            elif st != "ok":
                hit("C15:parked-sender-never-released", f"`{op[:70]}`: SendTx parked on the stalled peer's queue did not return after the node was stopped ({st})")
            if o.get("run") != "returned":
                hit("C15:run-not-returned", f"`{op[:70]}`: the stalled node was stopped but its Run did not return ({o.get('run')})")
        for j in range(min(len(prev_sync), len(sync))):
            if j == target and verb in ("hostile", "stop", "drop", "verify", "stallstop"):
                continue
            if j in closed_now:
                continue
            if prev_sync[j] == "1" and sync[j] != "1":
                if verb == "hostile":
                    hit("C15:other-connection-disturbed",
                        f"`{op[:70]}`: connection {j} was in sync before the hostile bytes on connection {target} and is "
                        f"{'closed' if sync[j] == '-' else 'silent'} after them")
                else:
                    hit("C15:connection-lost-without-cause", f"`{op[:70]}`: connection {j} (stage '{gt[j]}') went from in-sync to '{sync[j]}'")
        if verb == "add" and not skip and sync[-1:] != "1":
            hit("C15:connection-lost-without-cause", f"`{op[:70]}`: the new connection is not in sync")

        # ---- follow the ground truth ------------------------------------------------------------
        while len(ref.stage) < len(gt):
            ref.add()
        for j, c in enumerate(gt):
            ref.stage[j] = c
        if not skip and target is not None and target < n_before:
            if verb == "announce" and first == "ok":
                ref.last_hdr[target] = TIP if a.get("b") == "e" else int(a["b"])
            elif verb == "busy" and o.get("r") == "ok":
                ref.req[target] = ref.last_req[target] = int(a["b"])
            elif verb == "deliver" and first == "ok":
                ref.req[target] = None
        if verb == "addtx" and first == "ok":
            frm = _natlist(a["from"])
            rest = []
            for i in frm[1:]:
                if i not in rest:
                    rest.append(i)
            ref.pend[int(a["t"])] = rest
        order, off = nodes_after, off_after
        prev_sync = sync
    return hits


def nontrivial(script):
    verbs = [brv.op_part(l).split(" ", 1)[0] for l in script]
    return len(script) >= 5 and any(v in ROUTING for v in verbs)


def monitor_c13(script):
    return [h for h in monitor(script) if h[0].startswith("C13:")]


def monitor_c15(script):
    return [h for h in monitor(script) if h[0].startswith("C15:")]
