"""Monitor for C02: the NETWORK's proof-of-work rules (compact encoding, CheckProofOfWork, the
144-block difficulty adjustment of Bitcoin Cash Nov-2017 / Bitcoin SV) as an independent Python
reference, evaluated on what the implementation reported. Used only to find failing inputs.

The reference is a transcription of the reference node's pow.cpp / arith_uint256.cpp written
separately from lean/BRV/Spec/DAA.lean; offline it can only be cross-checked against the 2822 real
main-net headers of the two fixture files (done on every run through the `want=` fields).

Signatures:
  bits-panic            ProcessHeader (or Target / MedianTimeAndWork, which it calls) crashed. A panic of a
                        DIRECT call of bitcoin.ConvertToDifficulty / NewBranch / Branch.Add on a word of
                        effective length 1 is an observation of the dependency (ProcessHeader refuses such
                        bits before anything is computed from them since fix 192cc38), not a violation
  real-header-rejected  a real main-net header was not accepted
  real-target-mismatch  Target for a real position differs from the real header's bits
  target-median-tie     Target differs from the network only through the median tie order
  target-negative-span  ... only through the unsigned time span (lastTime < firstTime)
  target-inversion      ... only through the work->target formula (2^256/(W+1) vs (2^256-W)/W)
  target-mismatch       any other difference (combinations are named a+b)
  median-tie            MedianTimeAndWork picks another block than GetSuitableBlock
  encode-mismatch       ConvertToBits differs from GetCompact (with the powLimit cap)
  work-mismatch         ConvertToWork differs from GetBlockProof's formula
  accept-bad-bits       header accepted although its bits encode a negative or zero target (sign bit set /
                        mantissa shifted out): the code reads the sign bit as magnitude and wraps exponent 0
  pow-not-met           header accepted although hash > target encoded in bits
  accept-wrong-bits     header accepted at height >= 556767 with bits != network DAA bits
  accepted-unknown-prev header accepted although its previous header is not held
"""
import itertools

import brv

POW_LIMIT = 2**224 - 1
DAA_HEIGHT = 556767
SPACING = 600
M256 = 2**256


def _kv(op):
    ws = op.split()
    return ws[0], dict(w.split("=", 1) for w in ws[1:] if "=" in w)


def _obs(line):
    o = brv.strip_note(brv.obs_part(line))
    return dict(w.split("=", 1) for w in o.split() if "=" in w), o


# ---- arith_uint256 compact form --------------------------------------------------------------

def set_compact(bits):
    size = (bits >> 24) & 0xff
    word = bits & 0x007fffff
    if size <= 3:
        value = word >> (8 * (3 - size))
    else:
        value = (word << (8 * (size - 3))) % M256
    negative = word != 0 and (bits & 0x00800000) != 0
    overflow = word != 0 and (size > 34 or (word > 0xff and size > 33) or (word > 0xffff and size > 32))
    return value, negative, overflow


def get_compact(t):
    size = (t.bit_length() + 7) // 8
    if size <= 3:
        c = t << (8 * (3 - size))
    else:
        c = t >> (8 * (size - 3))
    if c & 0x00800000:
        c >>= 8
        size += 1
    return c | (size << 24)


def bits_valid(bits):
    v, neg, ovf = set_compact(bits)
    return not neg and not ovf and v != 0


def block_proof(bits):
    v, neg, ovf = set_compact(bits)
    if neg or ovf or v == 0:
        return 0
    return (M256 - 1 - v) // (v + 1) + 1


# ---- the difficulty adjustment -----------------------------------------------------------------

def suitable(b0, b1, b2):
    """GetSuitableBlock: blocks = [pprev->pprev, pprev, pindex]; entries are (time, work)."""
    bl = [b0, b1, b2]
    if bl[0][0] > bl[2][0]:
        bl[0], bl[2] = bl[2], bl[0]
    if bl[0][0] > bl[1][0]:
        bl[0], bl[1] = bl[1], bl[0]
    if bl[1][0] > bl[2][0]:
        bl[1], bl[2] = bl[2], bl[1]
    return bl[1]


def stable_median(b0, b1, b2):
    return sorted([b0, b1, b2], key=lambda b: b[0])[1]   # Python's sort is stable


def daa_bits(lasts, firsts, dev=()):
    """Required bits from the two triples of (time, chainwork), oldest first. `dev` switches on
    deviations used only to NAME a mismatch: 'tie', 'span', 'inv'."""
    med = stable_median if "tie" in dev else suitable
    last = med(*lasts)
    first = med(*firsts)
    work = (last[1] - first[1]) * SPACING
    ts = last[0] - first[0]
    if "span" in dev:
        ts %= 2**32
    if ts > 288 * SPACING:
        ts = 288 * SPACING
    elif ts < 72 * SPACING:
        ts = 72 * SPACING
    work //= ts
    if work <= 0:
        return None
    if "inv" in dev:
        target = (M256 - 1 - work) // (work + 1) + 1
    else:
        target = (M256 - work) // work
    if target > POW_LIMIT:
        target = POW_LIMIT
    return get_compact(target)


def name_target_mismatch(lasts, firsts, got):
    for n in (1, 2, 3):
        for dev in itertools.combinations(("tie", "span", "inv"), n):
            if daa_bits(lasts, firsts, dev) == got:
                names = dict(tie="median-tie", span="negative-span", inv="inversion")
                return "target-" + "+".join(names[d] for d in dev)
    return "target-mismatch"


class Chain:
    """free branches of the harness: name -> (parent name, parent height, [(time, bits, chainwork)])."""

    def __init__(self):
        self.b = {}

    def new(self, name, parent, ph, t, bits, acc=None):
        base = 0
        if parent is not None:
            e = self.at(parent, ph)
            base = e[2] if e else 0
        self.b[name] = [parent, ph, [(t, bits, base + block_proof(bits), acc)]]

    def add(self, name, t, bits, acc=None):
        """acc: accumulated work the implementation reported (used only to tell blocks apart)."""
        hd = self.b[name][2]
        hd.append((t, bits, hd[-1][2] + block_proof(bits), acc))

    def height(self, name):
        p, ph, hd = self.b[name]
        return ph + len(hd)

    def at(self, name, h):
        while name is not None and name in self.b:
            p, ph, hd = self.b[name]
            if h > ph:
                off = h - ph - 1
                return hd[off] if 0 <= off < len(hd) else None
            name = p
        return None

    def window(self, name, h):
        """(lasts, firsts, clean) for the target of height h, or None when data is missing."""
        es = [self.at(name, x) for x in range(h - 147, h)]
        if any(e is None for e in es):
            return None
        clean = all(bits_valid(e[1]) for e in es)
        tw = [(e[0], e[2]) for e in es]
        return tw[144:147], tw[0:3], clean


def monitor(script):
    hits = []
    seen = set()

    def hit(sig, text):
        if sig not in seen:
            seen.add(sig)
            hits.append((sig, text))

    ch = Chain()
    # repository side: hash -> (height, time, bits, chainwork, prev hash)
    held = {}
    diff_on = True

    def check_target(name, h, got_bits, what):
        w = ch.window(name, h)
        if w is None:
            return
        lasts, firsts, clean = w
        if not clean:
            return
        exp = daa_bits(lasts, firsts)
        if exp is not None and exp != got_bits:
            sig = name_target_mismatch(lasts, firsts, got_bits)
            hit(sig, f"{what}: implementation requires bits 0x{got_bits:08x}, the network's algorithm 0x{exp:08x} "
                     f"(last three (time,work) {[(t, hex(w_)) for t, w_ in lasts]}, first three {[(t, hex(w_)) for t, w_ in firsts]})")

    for line in script:
        op = brv.op_part(line)
        verb, a = _kv(op)
        o, oraw = _obs(line)
        words = oraw.split()
        panicked = "panic" in words or o.get("d") == "panic"
        if oraw.startswith("bad-op"):
            continue
        if verb == "init":
            ch, held, diff_on = Chain(), {}, True
        elif verb == "cvt":
            bits = int(a["bits"])
            if panicked:
                continue        # dependency observation; ProcessHeader's guard keeps it unreachable
            d = int(o["d"], 16)
            if d < M256 and int(o["w"], 16) != (M256 - 1 - d) // (d + 1) + 1:
                hit("work-mismatch", f"ConvertToWork({hex(d)[:40]}) = {o['w'][:40]}")
            if d < M256 and int(o["rb"]) != get_compact(min(d, POW_LIMIT)):
                hit("encode-mismatch", f"ConvertToBits({hex(d)[:40]}, MaxBits) = 0x{int(o['rb']):08x}, network 0x{get_compact(min(d, POW_LIMIT)):08x}")
        elif verb == "tobits":
            t = int(a["t"], 16)
            if panicked:
                pass
            elif 0 <= t < M256 and int(a["max"]) == 0x1d00ffff and int(o["bits"]) != get_compact(min(t, POW_LIMIT)):
                hit("encode-mismatch", f"ConvertToBits({hex(t)[:40]}, MaxBits) = 0x{int(o['bits']):08x}, network 0x{get_compact(min(t, POW_LIMIT)):08x}")
        elif verb == "towork":
            d = int(a["d"], 16)
            if 0 <= d < M256:
                if panicked:
                    hit("work-mismatch", f"ConvertToWork crashes on a 256-bit value: {line[-90:]}")
                elif int(o["w"], 16) != (M256 - 1 - d) // (d + 1) + 1:
                    hit("work-mismatch", f"ConvertToWork({hex(d)[:40]}) = {o['w'][:40]}")
        elif verb in ("branch", "add", "addt", "run"):
            if verb == "addt" and "tb" in o and o["tb"].isdigit() and a["name"] in ch.b:
                check_target(a["name"], ch.height(a["name"]) + 1, int(o["tb"]), f"Target for the next header of branch {a['name']}")
            if words[:1] != ["ok"]:
                continue
            acc = int(o["acc"], 16) if "acc" in o else None
            if verb == "branch":
                ch.new(a["name"], None if a["parent"] == "-" else a["parent"], int(a["ph"]), int(a["t"]), int(a["bits"]), acc)
            elif verb == "run":
                n = int(a["n"])
                for k in range(n):
                    ch.add(a["name"], (int(a["t"]) + k * int(a["dt"])) % 2**32, int(a["bits"]), acc if k == n - 1 else None)
            else:
                ch.add(a["name"], int(a["t"]), int(a["bits"]), acc)
        elif verb == "target":
            if panicked:
                hit("bits-panic", f"Branch.Target crashed: {line[-90:]}")
                continue
            if "bits" not in o:
                continue
            got = int(o["bits"])
            if "want" in a and got != int(a["want"]):
                hit("real-target-mismatch", f"Target at real height {a['h']} gives 0x{got:08x}, the real header has 0x{int(a['want']):08x}")
            if a["name"] in ch.b:
                check_target(a["name"], int(a["h"]), got, f"Target(height {a['h']}) on branch {a['name']}")
                if "want" in a:
                    w = ch.window(a["name"], int(a["h"]))
                    if w and w[2] and daa_bits(w[0], w[1]) != int(a["want"]):
                        hit("reference-disagrees-with-mainnet", f"the monitor's own reference does not reproduce real bits at {a['h']}")
        elif verb == "median":
            if "t" not in o or a["name"] not in ch.b:
                continue
            h = int(a["h"])
            es = [ch.at(a["name"], x) for x in (h - 2, h - 1, h)]
            if any(e is None for e in es) or not all(bits_valid(e[1]) for e in es):
                continue
            exp = suitable(*[(e[0], k) for k, e in enumerate(es)])     # (time, index 0..2)
            if int(o["t"]) != exp[0]:
                hit("median-tie", f"median time at {h}: implementation {o['t']}, network {exp[0]}")
                continue
            gotw = int(o["w"], 16)
            got_idx = [k for k, e in enumerate(es) if e[0] == int(o["t"]) and e[3] == gotw]
            if len(got_idx) == 1 and got_idx[0] != exp[1]:
                hit("median-tie", f"heights {h-2}..{h} have times {[e[0] for e in es]}: MedianTimeAndWork takes the work of height "
                                  f"{h-2+got_idx[0]}, the network's GetSuitableBlock that of height {h-2+exp[1]}")
        elif verb == "repo":
            held, diff_on = {}, True
        elif verb == "diff":
            diff_on = a.get("on") != "0"
        elif verb == "mock":
            if panicked:
                continue
            held = {int(a["hash"], 16): (int(a["h"]), int(a["t"]), int(a["bits"]), int(a["work"], 16), int(a["prev"], 16))}
        elif verb == "ph":
            bits, hash_, prev = int(a["bits"]), int(a["hash"], 16), int(a["prev"], 16)
            if panicked:
                hit("bits-panic", f"ProcessHeader crashes the process on a header with bits 0x{bits:08x}: {line[-100:]}")
                continue
            if a.get("real") == "1" and words[:1] != ["ok"]:
                hit("real-header-rejected", f"real main-net header {a['hash'][:24]}.. rejected: {oraw}")
            if words[:1] != ["ok"] or hash_ in held:
                continue
            if prev not in held:
                hit("accepted-unknown-prev", f"header {a['hash'][:24]}.. accepted, previous header not held")
                continue
            ph_, _, _, pwork, _ = held[prev]
            height = ph_ + 1
            held[hash_] = (height, int(a["t"]), bits, pwork + block_proof(bits), prev)
            if not diff_on:
                continue
            v, neg, ovf = set_compact(bits)
            if neg or (v == 0 and not ovf):
                hit("accept-bad-bits", f"header at height {height} accepted with bits 0x{bits:08x}, which encode a "
                                       f"{'negative' if neg else 'zero'} target (no hash can meet it)")
            elif ovf:
                pass    # target above 2^256: the hash cannot exceed it (the network rejects it as above powLimit)
            elif hash_ > v:
                hit("pow-not-met", f"header at height {height} accepted with hash {a['hash'][:24]}.. above the target of bits 0x{bits:08x}")
            if height >= DAA_HEIGHT:
                anc = []
                cur = prev
                while len(anc) < 147 and cur in held:
                    anc.append(held[cur])
                    cur = held[cur][4]
                if len(anc) == 147 and all(bits_valid(e[2]) for e in anc):
                    anc.reverse()          # heights height-147 .. height-1
                    tw = [(e[1], e[3]) for e in anc]
                    exp = daa_bits(tw[144:147], tw[0:3])
                    if exp is not None and exp != bits:
                        hit("accept-wrong-bits", f"header at height {height} accepted with bits 0x{bits:08x}, the network requires 0x{exp:08x}")
    return hits


def nontrivial(script):
    verbs = {}
    for l in script:
        v = brv.op_part(l).split(" ", 1)[0]
        verbs[v] = verbs.get(v, 0) + 1
    if verbs.get("ph", 0) >= 100:
        return True
    if verbs.get("target", 0) + verbs.get("addt", 0) >= 5 and verbs.get("add", 0) + verbs.get("addt", 0) + verbs.get("run", 0) >= 100:
        return True
    return verbs.get("cvt", 0) + verbs.get("tobits", 0) + verbs.get("towork", 0) >= 100
