"""Monitor for the header repository properties (C01, C03, C07–C12, C17, C19).

An independent Spec-level reference: the set of defined headers with parent links and per-header
work (a tree), "accepted", "best tip", "ancestor". It is evaluated on what the implementation
reported (verdicts, tips, subscriber streams, dumps). Each hit is (signature, text) where the
signature starts with the property id it belongs to, e.g. `C09:height`.
"""
import re

import brv

ALL256 = 2**256 - 1


def convert_to_difficulty(bits):
    length = (bits >> 24) & 0xff
    if bits & 0x00ff0000 == 0:
        length = (length - 1) & 0xff
        bits = (bits << 8) & 0xffffffff
    if length == 1:
        return None  # the Go code panics
    b = [0] * length
    if length > 0:
        b[0] = (bits >> 16) & 0xff
    if length >= 1:
        b[1] = (bits >> 8) & 0xff
    if length > 2:
        b[2] = bits & 0xff
    return int.from_bytes(bytes(b), "big") if b else 0


def block_work(bits):
    d = convert_to_difficulty(bits)
    if d is None:
        return None
    return (ALL256 ^ d) // (d + 1) + 1


def kv(op):
    ws = op.split()
    return ws[0], dict(w.split("=", 1) for w in ws[1:] if "=" in w)


def parse_list(s):
    s = s.strip()
    inner = s[1:-1]
    return [x for x in inner.split(",") if x != ""] if inner else []


def parse_obs(o):
    return dict(w.split("=", 1) for w in o.split() if "=" in w)


class Dump:
    def __init__(self, o):
        d = parse_obs(o)
        self.h = int(d["h"])
        self.tip = d["tip"]
        self.work = int(d["work"])
        self.hh = {}
        for e in parse_list(d["hh"]):
            i, h = e.split(":")
            self.hh[int(i)] = int(h)
        self.ch = {}
        for e in parse_list(d["ch"]):
            p = e.split(":")
            self.ch[int(p[0])] = ("unknown",) if len(p) == 2 else (int(p[1]), p[2] == "1")
        self.gh = {}
        for e in parse_list(d["gh"]):
            p = e.split(":")
            self.gh[int(p[0])] = (":".join(p[1:]),) if len(p) < 4 else (p[1], int(p[2]), p[3] == "1")
        self.ph = {}
        for e in parse_list(d["ph"]):
            p = e.split(":")
            self.ph[int(p[0])] = None if p[1] == "nil" else (p[1], int(p[2]))
        self.at = {}
        for e in parse_list(d["at"]):
            k, v = e.split(":", 1)
            self.at[int(k)] = v
        self.rg = d.get("rg", "")
        self.raw = o


class Mon:
    def __init__(self):
        self.hits = []
        self.seen = set()

    def hit(self, sig, text):
        if sig not in self.seen:
            self.seen.add(sig)
            self.hits.append((sig, text))


def monitor(script):
    m = Mon()
    defs = {}              # id -> (prev, bits, time)
    maxdepth = 144
    main_net = False
    split_on = True
    accepted = {0}         # ids the repository has accepted (session) / restored
    invalid = set()        # currently marked ids
    chain = [0]            # best chain reconstructed from the subscriber stream (ids by height)
    chain_valid = True
    tip = dict(h=0, tip="0", work=None)
    last_dump = None
    prev_line_kind = None
    prev_dump_for = {}     # kind -> dump before a maintenance op / refused sub
    special_heights = {}   # id -> fixed height (MockLatest)
    base_height = {0: 0}
    latest_mode = False
    saved_tip = None
    prev_saved_is_current = False
    accepted_before_load = set()
    relearn = False
    accepted_at_save = {0}
    accepted_ever = {0}
    ever_marked = set()
    cfg_pending = []       # headers.Config.InvalidHeaderHashes as last set by `cfginv`
    cfg_active = set()     # ... as installed in the invalid list by the last Load (minus what was unmarked since)
    prune_floor = -10**9
    loaded_once = False
    errored = {}                  # id -> internal-error verdict of its submission (C01, third sentence)
    blocks = {}            # header id -> number of transactions of the block it commits to
    deep_marks = set()     # marks of headers at/below the in-memory window: known to be ineffective
    min_depth = 10000

    def height(i):
        # true height in the tree of definitions; None if the ancestry is not rooted
        path = []
        cur = i
        while cur not in base_height:
            if cur not in defs or cur in path:
                return None
            path.append(cur)
            cur = defs[cur][0]
        h = base_height[cur]
        for p in reversed(path):
            h += 1
            base_height[p] = h
        return base_height[i]

    base_work = {0: block_work(0x1d00ffff)}   # genesis (test and main net): bits 0x1d00ffff

    def cumwork(i):
        path = []
        cur = i
        while cur not in base_work:
            if cur not in defs:
                return None
            path.append(cur)
            cur = defs[cur][0]
        w = base_work[cur]
        for p in reversed(path):
            bw = block_work(defs[p][1])
            if bw is None:
                return None
            w += bw
            base_work[p] = w
        return base_work[i]

    def is_anc(a, b):
        """a is an ancestor-or-equal of b in the tree of definitions."""
        ha, hb = height(a), height(b)
        if ha is None or hb is None or ha > hb:
            return False
        cur = b
        for _ in range(hb - ha):
            cur = defs[cur][0]
        return cur == a

    def under_invalid(i):
        return any(x in defs or x == 0 for x in invalid) and any(is_anc(x, i) for x in invalid if height(x) is not None)

    def apply_stream(evs):
        nonlocal chain, chain_valid
        if not chain_valid:
            return
        for e in evs:
            if e == "?":
                chain_valid = False
                continue
            e = int(e)
            if e not in defs:
                chain_valid = False
                continue
            p = defs[e][0]
            if p in chain:
                k = chain.index(p)
                chain = chain[:k + 1] + [e]
            else:
                m.hit("C07:detached", f"stream announced header {e} whose parent {p} is not in the subscriber's chain")
                chain_valid = False

    def check_dump(d, line, sampled=False):
        nonlocal chain, chain_valid, accepted
        tipid = int(d.tip) if d.tip != "?" else None
        if sampled:
            # a sampled dump (very long chains): every listed entry is checked, adjacency only where both heights are listed
            for k, v in d.at.items():
                if k > d.h:
                    continue
                if not v.lstrip("-").isdigit():
                    if not latest_mode:
                        m.hit("C01:at-missing", f"Hash({k}) on the best chain (tip height {d.h}) returned `{v}`")
                    continue
                kid = int(v)
                th = height(kid)
                if th is not None and th != k:
                    m.hit("C01:at-height", f"Hash({k}) = {kid} whose true height is {th}")
                nxt = d.at.get(k + 1)
                if nxt is not None and nxt.lstrip("-").isdigit() and int(nxt) in defs and defs[int(nxt)][0] != kid and k + 1 <= d.h:
                    m.hit("C01:unlinked", f"header at height {k+1} ({nxt}) has prev {defs[int(nxt)][0]} but Hash({k}) = {kid}")
                if chain_valid and k < len(chain) and chain[k] != kid:
                    m.hit("C07:chain-mismatch", f"chain reconstructed from the stream has {chain[k]} at height {k}, the repository reports {kid}")
            if d.at.get(d.h) is not None and d.at[d.h].isdigit() and tipid is not None and int(d.at[d.h]) != tipid:
                m.hit("C01:tip-at", f"Hash(tip height {d.h}) = {d.at[d.h]} but LastHash = {d.tip}")
            if chain_valid and (len(chain) - 1 != d.h or (tipid is not None and chain[-1] != tipid)):
                m.hit("C07:chain-mismatch", f"chain reconstructed from the stream ends at {chain[-1]} (height {len(chain)-1}), the repository reports tip {d.tip} (height {d.h})")
        # ---- C01/C17: GetHeaders(start, max) serves the best chain and nothing above its tip
        for part in (d.rg.split(";") if d.rg else []):
            mm = re.match(r"\[?(-?\d+)\+(\d+):\[([^\]]*)\]", part.strip())
            if not mm:
                continue
            a, ids = int(mm.group(1)), [x.strip() for x in mm.group(3).split(",") if x.strip()]
            for i, x in enumerate(ids):
                hgt = a + i
                if hgt > d.h:
                    what = "marked invalid or built on a marked header" if (x.lstrip("-").isdigit() and any(
                        is_anc(iv, int(x)) for iv in invalid)) else "not on the best chain"
                    m.hit("C17:getheaders-beyond-tip" if "marked" in what else "C01:getheaders-beyond-tip",
                          f"GetHeaders({a}, {mm.group(2)}) returned header {x} at height {hgt} above the tip (height {d.h}): {what}")
                    break
                want = d.at.get(hgt)
                if want is not None and want.lstrip("-").isdigit() and x != want:
                    m.hit("C01:getheaders-mismatch", f"GetHeaders({a}, {mm.group(2)}) has {x} at height {hgt}, Hash({hgt}) = {want}")
                    break
            else:
                # ---- C09: a range stops early although the next height is served by Hash(height)
                nreq = int(mm.group(2))
                if a >= 0 and len(ids) < min(nreq, d.h - a + 1):
                    nxt = d.at.get(a + len(ids))
                    if nxt is not None and nxt.lstrip("-").isdigit():
                        m.hit("C09:getheaders-short", f"GetHeaders({a}, {nreq}) returned {len(ids)} headers and stops below height {a + len(ids)} (tip height {d.h}), "
                              f"which Hash({a + len(ids)}) = {nxt} serves")
        # ---- C01: linked ancestry, maximal work
        ids_at = []
        ok_at = not sampled
        for k in (range(min(d.at) if d.at else 0, d.h + 1) if not sampled else []):
            v = d.at.get(k)
            if v is None or not v.lstrip("-").isdigit():
                if not latest_mode:
                    m.hit("C01:at-missing", f"Hash({k}) on the best chain (tip height {d.h}) returned `{v}`")
                ok_at = False
                ids_at.append(None)
                continue
            ids_at.append(int(v))
        if d.at.get(d.h + 1) not in ("beyond",) and not (sampled and (d.h + 1) not in d.at):
            m.hit("C01:beyond", f"Hash(tip+1) returned {d.at.get(d.h + 1)}")
        if ok_at:
            if ids_at[0] != 0 and not latest_mode:
                m.hit("C01:genesis", f"Hash(0) = {ids_at[0]}, not genesis")
            if ids_at[-1] != tipid:
                m.hit("C01:tip-at", f"Hash(tip height {d.h}) = {ids_at[-1]} but LastHash = {d.tip}")
            for k in range(1, len(ids_at)):
                if ids_at[k] in defs and defs[ids_at[k]][0] != ids_at[k - 1]:
                    m.hit("C01:unlinked", f"header at height {k} ({ids_at[k]}) has prev {defs[ids_at[k]][0]} but Hash({k-1}) = {ids_at[k-1]}")
                    break
        if tipid is not None:
            tw = cumwork(tipid)
            if tw is not None and tw != d.work and not latest_mode:
                m.hit("C01:work-value", f"reported accumulated work {d.work} != cumulative work of the tip {tw}")
            th = height(tipid)
            if th is not None and th != d.h:
                m.hit("C01:tip-height", f"reported height {d.h} != true height of tip {th}")
        # every known header: not heavier than the tip (unless under an invalid mark)
        for i, hgt in d.hh.items():
            if hgt == -1 or i not in accepted:
                continue
            w = cumwork(i)
            if w is not None and w > d.work and not under_invalid(i):
                m.hit("C01:not-heaviest", f"accepted header {i} has cumulative work {w} > reported tip work {d.work} (tip {d.tip})")
                break
        # third sentence: a submission that returned an error, whose header is nevertheless held
        for i in sorted(errored):
            if d.hh.get(i, -1) == -1 or i in accepted:
                continue
            w = cumwork(i)
            if w is not None and w > d.work and not under_invalid(i):
                m.hit("C01:error-left-heavier-unreported",
                      f"the submission of header {i} returned `{errored[i]}` but the header is held (HashHeight {d.hh[i]}) and its chain has cumulative work {w} > reported tip work {d.work} (tip {d.tip})")
                break
        # ---- C17: marked headers and what is built on them are off the best chain
        if invalid:
            def under_shallow(v):
                return any(is_anc(x, v) for x in invalid if x not in deep_marks and height(x) is not None)
            for k, v in enumerate(ids_at):
                if v is not None and v in defs and under_invalid(v):
                    if under_shallow(v):
                        m.hit("C17:on-best-chain", f"header {v} (height {k}) is marked invalid or built on a marked header but is on the reported best chain")
                    else:
                        m.hit("C17:deep-mark-ineffective", f"header {v} (height {k}) is under a mark placed at or below the in-memory window and stays on the reported best chain")
                    break
            for i, c in d.ch.items():
                if c[0] != "unknown" and c[1] and i in defs and under_shallow(i):
                    m.hit("C17:reported-in-chain", f"CheckHeader({i}) reports in-most-work-chain for a header under an invalid mark")
                    break
        # ---- C09: lookups agree with the tree
        tip_anc = set()
        if tipid is not None:
            cur = tipid
            while cur in defs and cur not in tip_anc:
                tip_anc.add(cur)
                cur = defs[cur][0]
            tip_anc.add(cur)
        for i in d.hh:
            th = height(i)
            known = i in accepted
            if not known:
                # never accepted (or dropped by a load): must be unknown
                if d.hh[i] != -1 and i not in dropped:
                    m.hit("C09:phantom", f"HashHeight({i}) = {d.hh[i]} but {i} was never accepted")
                continue
            if th is None:
                continue
            if d.hh[i] != th:
                m.hit("C09:height", f"HashHeight({i}) = {d.hh[i]}, true height {th}")
            c = d.ch.get(i)
            onbest = tipid is not None and i in tip_anc
            if c is not None:
                if c[0] == "unknown":
                    m.hit("C09:check-unknown", f"CheckHeader({i}) = unknown for an accepted header")
                else:
                    if c[0] != th:
                        m.hit("C09:check-height", f"CheckHeader({i}) height {c[0]}, true height {th}")
                    if c[1] != onbest:
                        kind = "flag-false-on-best" if onbest else "flag-true-off-best"
                        m.hit("C09:" + kind, f"CheckHeader({i}) in-most-work-chain={c[1]} but ancestor-of-tip={onbest}")
            g = d.gh.get(i)
            if g is not None and len(g) == 3:
                if g[0] != str(i):
                    m.hit("C09:get-wrong-header", f"GetHeader({i}) returned header {g[0]}")
                if g[1] != th:
                    m.hit("C09:get-height", f"GetHeader({i}) height {g[1]}, true height {th}")
                if g[2] != onbest:
                    m.hit("C09:get-flag", f"GetHeader({i}) in-most-work-chain={g[2]} but ancestor-of-tip={onbest}")
            elif g is not None and onbest:
                m.hit("C09:get-best-unavailable", f"GetHeader({i}) = {g[0]} for a best-chain header")
            p = d.ph.get(i)
            if p is not None and i in defs:
                if p[0] != str(defs[i][0]) or p[1] != th - 1:
                    m.hit("C09:previous", f"PreviousHash({i}) = {p}, true predecessor {defs[i][0]} at {th-1}")
        # ---- C07: the stream reconstructs the chain
        if chain_valid and ok_at:
            if chain != ids_at:
                m.hit("C07:chain-mismatch", f"chain reconstructed from the stream (tip {chain[-1]}, len {len(chain)}) differs from the reported best chain (tip {ids_at[-1]}, len {len(ids_at)})")
        if ok_at:
            chain, chain_valid = list(ids_at), True
        elif sampled and not chain_valid:
            pass

    dropped = set()   # ids that a load legitimately may have dropped (tracked loosely)
    pending_cmp = None  # (kind, dump) to compare with the next dump

    for line in script:
        op = brv.op_part(line)
        oraw = brv.strip_note(brv.obs_part(line))
        verb, a = kv(op)
        o = parse_obs(oraw)
        if oraw.startswith("bad-op"):
            continue
        if "panic" in oraw.split() or o.get("v") == "panic" or o.get("r") == "panic":
            pid = {"sub": "C02", "mark": "C17", "unmark": "C17", "clean": "C10", "cleand": "C10", "save": "C11",
                   "load": "C12", "loadd": "C12", "loc": "C19", "dump": "C09"}.get(verb, "C01")
            m.hit(f"{pid}:panic-{verb}", f"`{op}` crashed the implementation: {line[-160:]}")
            break
        if verb == "init":
            maxdepth = int(a.get("maxdepth", 144))
            main_net = a.get("net") == "main"
            split_on = a.get("split", "on") != "off"
        elif verb == "hdr":
            defs[int(a["id"])] = (int(a["prev"]), int(a["bits"]), int(a["time"]))
            if a.get("blk") == "1":
                blocks[int(a["id"])] = int(a.get("mr", 0))
        elif verb == "latest":
            latest_mode = True
            i = int(a["id"])
            base_height.clear()
            base_work.clear()
            base_height[i] = int(a["height"])
            base_work[i] = int(a["work"])
            accepted = {i}
            chain, chain_valid = [i], False
        elif verb == "sub":
            i = int(a["id"])
            v = o.get("v")
            evs = parse_list(o.get("ev", "[]"))
            before = dict(tip)
            if "h" in o:
                tip = dict(h=int(o["h"]), tip=o["tip"], work=int(o["work"]))
            if o.get("evdiff") == "1":
                m.hit("C07:subscribers-differ", "two subscribers received different streams for one submission")
            apply_stream(evs)
            # ---- C03: only the BSV chain (main net, split protection on)
            if main_net and split_on:
                th = height(i)
                if v == "ok" and i == 900004:
                    m.hit("C03:foreign-accepted", f"the BCH split header was accepted (`{op}`)")
                if v == "ok" and th == 556767 and i != 900005:
                    m.hit("C03:non-bsv-at-split-height", f"header {i} was accepted at height 556767 although it is not the BSV split header")
                if i == 900005 and v != "ok" and i in defs and defs[i][0] in accepted and i not in invalid:
                    m.hit("C03:bsv-refused", f"the BSV split header was refused with `{v}` although its parent is held")
            if v == "toodeep" and i in accepted and not relearn and i not in dropped:
                m.hit("C08:known-refused", f"re-submission of the accepted header {i} was answered `toodeep` instead of already known")
            if v == "ok":
                was = i in accepted
                if i in invalid and not was:
                    m.hit("C17:marked-accepted", f"header {i} is marked invalid but its submission was accepted")
                if i in cfg_active and not was and i not in accepted_ever:
                    m.hit("C17:configured-invalid-accepted", f"header {i} is in the configured invalid hashes the last Load installed but its submission was accepted")
                accepted.add(i)
                accepted_ever.add(i)
                if was and not relearn and (evs or (before["work"] is not None and before != tip)):
                    m.hit("C08:resubmit-changed", f"re-submitting accepted header {i} changed the tip or emitted events {evs}")
            else:
                # C08: a refusal changes nothing
                if evs:
                    m.hit("C08:refusal-emits", f"submission of {i} answered `{v}` but announced {evs}")
                if before["work"] is not None and before != tip:
                    m.hit("C08:refusal-moves-tip", f"submission of {i} answered `{v}` but the tip moved {before} -> {tip}")
            # C07 after every submission: stream chain tip = reported tip
            if chain_valid and tip["tip"] != "?" and (chain[-1] != int(tip["tip"]) or len(chain) - 1 != tip["h"]) and not latest_mode:
                m.hit("C07:tip-mismatch", f"after `{op}` (v={v}) the stream's chain ends at {chain[-1]} (height {len(chain)-1}) but the reported tip is {tip['tip']} (height {tip['h']})")
                chain_valid = False
            # C01 third sentence: an error never leaves a strictly heavier accepted chain unreported
            # (the header may have been added before the error: checked at the next dump via HashHeight)
            if v is not None and v.startswith("err:") and i in defs:
                errored[i] = v
            elif v == "ok":
                errored.pop(i, None)
            # C11 / C08: a header whose parent the repository reports as known, within the fork-depth limit and
            # the retained depth, is never answered "unknown" (after a Load: the side branch was not restored)
            if v == "unknown" and i in defs and not relearn and not latest_mode:
                p = defs[i][0]
                hp = height(p)
                lim = min(maxdepth, min_depth - 1)
                if (p in accepted and p not in dropped and hp is not None and before["work"] is not None
                        and before["h"] - hp <= lim and hp >= prune_floor and last_dump is not None and last_dump.hh.get(p, -1) == hp
                        and not any(x == p or is_anc(x, p) for x in ever_marked if height(x) is not None)):
                    pid = "C11:attach-lost-after-load" if loaded_once else "C08:held-parent-unknown"
                    m.hit(pid, f"submission of {i} answered `unknown` although its parent {p} (height {hp}, tip height {before['h']}) is reported as held" +
                          (" after Load: the branch holding it was not restored" if loaded_once else ""))
            # C08 reference verdict
            if i in defs and v is not None:
                p = defs[i][0]
                exp = None
                if i in accepted and v != "ok":
                    pass
                if p not in accepted and i not in accepted:
                    exp = {"unknown", "wrongchain"}
                    # a mark at or below the in-memory window removes nothing (known finding C17:deep-mark-ineffective):
                    # what it was meant to remove is still held, so its children are not orphans
                    under_deep = any(x == p or (height(x) is not None and is_anc(x, p)) for x in deep_marks)
                    if v not in exp and v not in ("badwork", "badbits") and not under_deep:
                        m.hit("C08:verdict-orphan", f"submission of {i} whose parent {p} was never accepted answered `{v}`")
                if v.startswith("err:"):
                    m.hit("C08:verdict-internal-error", f"submission of {i} answered with an internal error `{v}`, not one of the reference verdicts")
        if verb in ("cleand", "loadd", "crashclean") and "d" in a:
            min_depth = min(min_depth, int(a["d"]))
        # heights at or above this floor were never eligible for pruning from memory
        if verb in ("clean", "cleand", "load", "loadd", "crashclean", "crashsave"):
            dd = int(a["d"]) if "d" in a else 10000
            if "ld" in a:
                dd = min(dd, int(a["ld"]))
            hs = [x for x in (tip.get("h"), int(o["h"]) if "h" in o else None) if x is not None]
            if hs:
                prune_floor = max(prune_floor, max(hs) - dd)
        if verb in ("loadd", "crashsave", "crashclean") and "ld" in a:
            min_depth = min(min_depth, int(a["ld"]))
        if verb in ("clean", "cleand", "save"):
            if "h" in o:
                newtip = dict(h=int(o["h"]), tip=o["tip"], work=int(o["work"]))
                if tip["work"] is not None and newtip != tip:
                    pid = "C10" if verb != "save" else "C11"
                    m.hit(f"{pid}:tip-changed", f"`{op}` changed the reported tip {tip} -> {newtip}")
                tip = newtip
            if "ev" in o and parse_list(o["ev"]):
                m.hit("C07:maintenance-emits", f"`{op}` announced headers {o['ev']}")
            if o.get("r", "ok") != "ok":
                pid = "C10" if verb != "save" else "C11"
                m.hit(f"{pid}:{verb}-error", f"`{op}` failed: {oraw[:80]}")
            if last_dump is not None and prev_line_kind == "dump":
                pending_cmp = (verb, last_dump)
        elif verb in ("load", "loadd"):
            if o.get("r") != "ok":
                m.hit("C11:load-error", f"`{op}` failed on storage written by Save/Clean: {oraw[:80]}")
            else:
                newtip = dict(h=int(o["h"]), tip=o["tip"], work=int(o["work"]))
                if tip["work"] is not None and newtip["work"] < tip["work"] and saved_tip is not None and newtip["work"] < saved_tip["work"]:
                    m.hit("C11:tip-regressed", f"loaded repository reports tip {newtip}, saved was {saved_tip}")
                if saved_tip is not None and prev_saved_is_current and newtip != saved_tip:
                    m.hit("C11:tip-differs", f"Load right after Save reports tip {newtip}, before it was {saved_tip}")
                tip = newtip
                chain_valid = False
                if last_dump is not None and prev_line_kind == "save-after-dump":
                    pending_cmp = ("load", last_dump)
                # what the repository knows is re-learnt at the next dump
                accepted_before_load = set(accepted)
                accepted = set(accepted_at_save)
                relearn = True
                loaded_once = True
                cfg_active = set(cfg_pending)
        elif verb in ("crashsave", "crashclean"):
            if o.get("r", "ok") != "ok":
                m.hit("C12:op-error", f"`{op}` failed: {oraw[:60]}")
            if "h" in o:
                newtip = dict(h=int(o["h"]), tip=o["tip"], work=int(o["work"]))
                if tip["work"] is not None and newtip != tip:
                    m.hit("C10:tip-changed" if verb == "crashclean" else "C11:tip-changed", f"`{op}` changed the reported tip {tip} -> {newtip}")
                tip = newtip
            base = saved_tip["work"] if saved_tip is not None else None
            for e in parse_list(o.get("p", "[]")):
                f = e.split(":")
                k = f[0]
                if f[1] != "ok":
                    m.hit("C12:load-fails", f"`{op}`: loading the storage image after {k} of {len(parse_list(o.get('ev','[]')))} writes {o.get('ev')} -> {f[1]}")
                    continue
                hh, tt, ww, linked = int(f[2]), f[3], int(f[4]), f[5]
                if linked != "1":
                    evs_w = parse_list(o.get("ev", "[]"))[:int(k)]
                    p0 = parse_list(o.get("p", "[]"))[0].split(":")
                    stale = len(p0) >= 5 and (f[2], f[3], f[4]) == (p0[2], p0[3], p0[4])
                    if (stale and any(x.startswith("M") for x in evs_w) and not any(x.startswith("B") for x in evs_w)
                            and (str(tip["tip"]) != tt)):
                        # main-chain files of the NEW best chain next to the root branch file of the OLD one
                        m.hit("C12:main-files-ahead-of-root-branch",
                              f"`{op}`: after {k} writes (main files written, root branch file not yet) the load reports the previously stored tip {tt} "
                              f"(height {hh}) with history served from the new chain's files: not linked from genesis")
                    else:
                        m.hit("C12:unlinked", f"`{op}`: after {k} writes the loaded best chain (tip {tt} height {hh}) is not linked from genesis")
                if base is not None and ww < base:
                    m.hit("C12:work-regressed", f"`{op}`: after {k} writes the loaded tip work {ww} < work at the last completed Save {base}")
                if tt != "?" and int(tt) in defs:
                    tw = cumwork(int(tt))
                    if tw is not None and tw != ww and not latest_mode:
                        m.hit("C12:work-value", f"`{op}`: after {k} writes loaded tip {tt} reports work {ww}, true cumulative work {tw}")
                    if int(tt) not in accepted_ever:
                        m.hit("C12:unaccepted-tip", f"`{op}`: after {k} writes the loaded tip {tt} was never accepted")
            if verb == "crashsave":
                saved_tip = dict(tip)
                prev_saved_is_current = True
                accepted_at_save = set(accepted)
        elif verb == "loc" and "loc" in o:
            mx = int(a["max"])
            raw = o["loc"]
            is_set = raw.startswith("set")
            ids = parse_list(raw[3:] if is_set else raw)
            if len(set(ids)) != len(ids):
                m.hit("C19:duplicate", f"`{op}` returned a hash twice: {raw}")
            if not ids:
                m.hit("C19:empty-after-deep-mark" if invalid else "C19:empty", f"`{op}` returned an empty locator")
                continue
            if latest_mode and main_net and not invalid:
                # main net above a mocked header: best-chain hashes <= max, plus at most one fork-point hash per configured
                # split (two on main net); only exact without side branches
                kids2 = {}
                for x in accepted:
                    if x in defs:
                        kids2[defs[x][0]] = kids2.get(defs[x][0], 0) + 1
                if all(v == 1 for v in kids2.values()) and len(ids) > max(mx, 1) + 2:
                    m.hit("C19:too-many", f"`{op}` returned {len(ids)} hashes on a chain without side branches, more than max={mx} plus the two split fork points")
            if chain_valid and not latest_mode:
                cset = {str(x) for x in chain}
                onbest = [x for x in ids if x in cset]
                for x in ids:
                    if x == "?" or (x not in cset and int(x) < 900000 and int(x) not in accepted_ever):
                        m.hit("C19:foreign-entry", f"`{op}` contains {x}, which is neither on the best chain, a split fork point nor an accepted side-branch base")
                if not is_set:
                    hs = [chain.index(int(x)) for x in onbest]
                    if any(hs[i] <= hs[i + 1] for i in range(len(hs) - 1)):
                        m.hit("C19:order", f"`{op}`: best-chain entries are not strictly descending in height: {list(zip(onbest, hs))}")
                    want = chain[-2] if len(chain) >= 2 else chain[0]
                    if not onbest or int(onbest[0]) != want:
                        m.hit("C19:first", f"`{op}`: first best-chain entry is {onbest[:1]}, expected the tip's parent {want}")
                kids = {}
                for x in accepted:
                    if x in defs:
                        kids[defs[x][0]] = kids.get(defs[x][0], 0) + 1
                linear = all(v == 1 for v in kids.values()) and not invalid
                # side-branch bases (incl. the bases of branches the best chain descends from) are
                # extra entries, so the bound on best-chain hashes is only exact without forks
                if linear and len(onbest) > max(mx, 1):
                    m.hit("C19:too-many", f"`{op}` has {len(onbest)} best-chain hashes, more than max={mx}")
        elif verb == "proof" and "r" in o:
            bid, n, ti = int(a["block"]), int(a["n"]), int(a["tx"])
            mut = a.get("mut", "none")
            form = a.get("form", "header")
            target = bid
            if mut.startswith("other:"):
                target = int(mut[6:])
            # `otherhash:` only changes the claimed block hash of a proof that also carries the header:
            # the header decides, so the proof is still about `bid`
            # merkle path shape of leaf ti in a tree of n leaves: number of sibling hashes
            plen, width, pos = 0, n, ti
            while width > 1:
                if not (pos == width - 1 and width % 2 == 1):
                    plen += 1
                pos //= 2
                width = (width + 1) // 2
            tampered = (mut in ("txid", "unknownhash", "noblock")
                        or (mut.startswith("path:") and int(mut[5:]) < plen)
                        or (mut.startswith("index:") and int(mut[6:]) != 0)
                        or (mut.startswith("otherhash:") and form != "both")
                        or (mut.startswith("other:") and not (target in defs and defs.get(target) is not None and
                                                                blocks.get(target) == blocks.get(bid) and target == bid)))
            committed = blocks.get(bid) == n
            if o["r"] == "ok":
                if tampered or not committed:
                    m.hit("C18:accepted-tampered", f"`{op}` verified although the proof was altered ({mut}) or the header does not commit to that block")
                elif target not in accepted and target not in dropped and not relearn:
                    m.hit("C18:accepted-unknown-header", f"`{op}` verified against header {target}, which the repository never accepted")
                else:
                    th = height(target)
                    if th is not None and int(o["h"]) != th:
                        m.hit("C18:wrong-height", f"`{op}` reports height {o['h']}, true height {th}")
                    if chain_valid and th is not None:
                        onbest = th < len(chain) and chain[th] == target
                        if (o["longest"] == "1") != onbest:
                            m.hit("C18:wrong-flag", f"`{op}` reports in-most-work-chain={o['longest']} but header {target} on best chain = {onbest}")
            else:
                if (not tampered and committed and target in accepted and chain_valid and not relearn
                        and height(target) is not None and height(target) < len(chain) and chain[height(target)] == target
                        and form == "header"):
                    m.hit("C18:rejected-honest", f"`{op}` is an honest proof for a best-chain header but was answered {o['r']}")
        elif verb == "verify" and "v" in o:
            i = int(a["id"])
            if main_net and ((o["v"] == "ok") != (i == 900005)):
                m.hit("C03:verify", f"VerifyHeader({i}) answered `{o['v']}`: only the BSV split header (900005) verifies a peer")
        elif verb == "vloc" and "loc" in o:
            ids = parse_list(o["loc"])
            if len(set(ids)) != len(ids):
                m.hit("C19:duplicate-verify", f"verify-only locator contains a hash twice: {o['loc']}")
        elif verb == "mark":
            i = int(a["id"])
            invalid.add(i)
            ever_marked.add(i)
            saved_tip = None   # the work at the last Save may legitimately be lost to the mark
            hi = height(i)
            # at or below the in-memory window: the window is relative to the highest tip a maintenance operation saw
            # (prune_floor), not to the present tip, which earlier marks may have lowered
            if o.get("r", "ok") != "ok" or (hi is not None and i in accepted and
                                            (tip["h"] - hi >= min_depth - 1 or hi <= prune_floor)):
                deep_marks.add(i)
            # the marked header and everything built on it leave the accepted set
            gone = {x for x in accepted if height(i) is not None and is_anc(i, x)}
            accepted = accepted - gone
            dropped = dropped | gone   # their heights may legitimately stay in the long-lived map
            if "h" in o:
                tip = dict(h=int(o["h"]), tip=o["tip"], work=int(o["work"]))
            chain_valid = False
        elif verb == "unmark":
            invalid.discard(int(a["id"]))
            cfg_active.discard(int(a["id"]))
        elif verb == "cfginv":
            cfg_pending = [int(x) for x in parse_list(a.get("ids", "[]"))]
        elif verb == "dump":
            d = Dump(oraw)
            sampled = "step" in a and int(a["step"]) > 1
            if relearn:
                relearn = False
                accepted = {i for i, h in d.hh.items() if h != -1}
                if sampled:
                    accepted |= {i for i in accepted_at_save if i not in d.hh}
                dropped = accepted_before_load - accepted
                # C11: everything on the best chain and every retrievable side header must still be known
            check_dump(d, line, sampled)
            if pending_cmp is not None and sampled:
                # compare what both dumps list
                kind, before = pending_cmp
                pid = "C11" if kind in ("load", "save") else "C10"
                if (before.h, before.tip, before.work) != (d.h, d.tip, d.work):
                    m.hit(f"{pid}:{kind}-tip", f"tip before `{kind}` {(before.h, before.tip)} and after {(d.h, d.tip)} differ")
                ks = [k for k in before.at if k in d.at and before.at[k] != d.at[k]]
                if ks:
                    m.hit(f"{pid}:{kind}-at", f"`{kind}` changed Hash(height) at heights {ks[:6]}: {[(before.at.get(k), d.at.get(k)) for k in ks[:3]]}")
                for i in before.hh:
                    if i in d.hh and before.hh[i] != d.hh[i] and before.hh[i] != -1:
                        onbest = before.ch.get(i, (None, False))[-1] is True
                        if kind != "load" or onbest or d.hh[i] != -1:
                            m.hit(f"{pid}:{kind}-height", f"`{kind}` changed HashHeight({i}) {before.hh[i]} -> {d.hh[i]}")
                            break
                for i in before.ch:
                    if i in d.ch and before.ch[i] != d.ch[i] and before.ch[i][0] != "unknown" and (kind != "load" or d.ch[i][0] != "unknown"):
                        m.hit(f"{pid}:{kind}-check", f"`{kind}` changed CheckHeader({i}) {before.ch[i]} -> {d.ch[i]}")
                        break
                pending_cmp = None
            if pending_cmp is not None:
                kind, before = pending_cmp
                pid = "C11" if kind == "load" else ("C11" if kind == "save" else "C10")
                if (before.h, before.tip, before.work) != (d.h, d.tip, d.work):
                    m.hit(f"{pid}:{kind}-tip", f"tip before `{kind}` {(before.h, before.tip)} and after {(d.h, d.tip)} differ")
                if before.at != d.at:
                    ks = [k for k in before.at if before.at.get(k) != d.at.get(k)]
                    m.hit(f"{pid}:{kind}-at", f"`{kind}` changed Hash(height) at heights {ks[:6]}: {[(before.at.get(k), d.at.get(k)) for k in ks[:3]]}")
                for i in before.hh:
                    if before.hh[i] != d.hh.get(i) and before.hh[i] != -1:
                        onbest = before.ch.get(i, (None, False))[-1] is True
                        if kind != "load" or onbest or d.hh.get(i) not in (-1, None):
                            m.hit(f"{pid}:{kind}-height", f"`{kind}` changed HashHeight({i}) {before.hh[i]} -> {d.hh.get(i)}")
                            break
                for i in before.ch:
                    if before.ch[i] != d.ch.get(i) and before.ch[i][0] != "unknown" and (kind != "load" or d.ch.get(i, ("unknown",))[0] != "unknown"):
                        m.hit(f"{pid}:{kind}-check", f"`{kind}` changed CheckHeader({i}) {before.ch[i]} -> {d.ch.get(i)}")
                        break
                pending_cmp = None
            last_dump = d
            tip = dict(h=d.h, tip=d.tip, work=d.work)
        if verb not in ("dump", "clean", "cleand", "save", "load", "loadd"):
            pending_cmp = None
        # bookkeeping for "dump; save; load; dump" and "dump; clean; dump"
        if verb == "dump":
            prev_line_kind = "dump"
        elif verb == "save" and prev_line_kind == "dump":
            accepted_at_save = set(accepted)
            prev_line_kind = "save-after-dump"
            saved_tip = dict(tip)
            prev_saved_is_current = True
        elif verb == "save":
            accepted_at_save = set(accepted)
            prev_line_kind = "save"
            saved_tip = dict(tip)
            prev_saved_is_current = True
        else:
            if verb in ("sub", "mark", "unmark", "clean", "cleand"):
                prev_saved_is_current = False
            prev_line_kind = verb
    return m.hits


def nontrivial(script):
    subs = sum(1 for l in script if l.startswith("sub "))
    return subs >= 8
