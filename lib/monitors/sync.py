"""Monitor for C05: the property itself, evaluated on what the implementation did.

Reference (independent of the Lean model and of the Go code): at the moment a synchronisation round
starts, with best chain `chain` (ids by height), start height `start` and processed set P, the
round must request exactly chain[f..tip] in this order, where f = max(start, q+1) and q is the
highest height whose best-chain block is in P (nothing when the tip is processed or tip < start);
each block once, with its true height; it may stop early only because the script made it
(outstanding request, interrupt, block left the best chain, source outage). A block that left the
best chain while outstanding must end the round at the next poll; the reader must never stall or
crash; a trigger during a round must be followed by another round.
When the header repository changes between two of the round's own reads (scripted `inject=`), the
reference is unchanged: the round is judged against the best chain at its first read (whose tip the
round's LastHash call returned), every requested hash must carry ITS OWN height."""
import json

import brv


def _no_download_limit():
    try:
        return int(json.loads((brv.WORK / "facts.json").read_text())["ints"]["noDownloadLimit"])
    except Exception:
        return 20


def _expand_src(src):
    out = []
    for p in src.strip("[]").split(","):
        if not p:
            continue
        name, _, cnt = p.partition("*")
        out += [name] * (int(cnt) if cnt.isdigit() else 1)
    return out


def _is_outage(src, reqs, limit):
    """the one known way the block manager ends itself: the initial request plus limit+1 retry ticks
    (limit+2 RequestBlock calls for the same block) were ALL answered "no node available"."""
    need = limit + 2
    outs = _expand_src(src)
    run = best = 0
    for o in outs:
        run = run + 1 if o == "nonode" else 0
        best = max(best, run)
    return best >= need and len(reqs) >= need and len(set(reqs[-need:])) == 1


def _kv(text):
    ws = text.split()
    return (ws[0] if ws else ""), dict(w.split("=", 1) for w in ws[1:] if "=" in w)


def _ilist(s):
    s = s.strip()
    inner = s[1:-1]
    return [x for x in inner.split(",")] if inner else []


def _expected(chain, start, processed):
    tip = len(chain) - 1
    if tip < 0 or tip < start or chain[tip] in processed:
        return []
    q = -1
    for h in range(tip, -1, -1):
        if chain[h] in processed:
            q = h
            break
    f = max(start, q + 1)
    return [(chain[h], h) for h in range(f, tip + 1)]


def _collapse(reqs):
    out = []
    for r in reqs:
        if not out or out[-1] != r:
            out.append(r)
    return out


class _Round:
    def __init__(self, chain, start, processed, thread, window):
        self.chain = list(chain)
        self.start = start
        self.expected = _expected(chain, start, processed)
        self.seen = []          # distinct requests so far
        self.last_req = None
        self.thread = thread
        self.bad = False
        self.tip = len(chain) - 1
        # lowest header the walk-back has to READ (only used to name the finding): the processed
        # block below the first expected one, the block at the start height itself, or — when the
        # tip is at the start height — its predecessor
        self.need = None
        if self.expected:
            f = self.expected[0][1]
            self.need = f - 1 if f >= 1 and (chain[f - 1] in processed or self.tip == start) else f
        self.window = window


def monitor(script):
    hits = []
    sigs = set()

    def hit(sig, text):
        if sig not in sigs:
            sigs.add(sig)
            hits.append((sig, text))

    start = 0
    chain = []
    window = 0
    processed = set()
    rnd = None             # round in flight (or None)
    pending = None         # id outstanding at the source
    thread = False
    trigger_in_round = False
    mgr_dead = False
    stale = False
    limit = _no_download_limit()

    def new_round(proc=None):
        return _Round(chain, start, processed if proc is None else proc, thread, window)

    def below(r, what, line):
        # the known boundary: tip height == start height, block start-1 unprocessed
        if r.tip == r.start:
            hit("below-start-at-boundary", f"tip height == start height {r.start}: {what} below the start height: {line}")
        else:
            hit("below-start", f"{what} below the start height {r.start} (tip {r.tip}): {line}")

    def feed(r, line, o, over):
        """account the observations of one op to round r; returns the (possibly new) round."""
        nonlocal processed
        before = set(processed)
        reqs = _ilist(o.get("reqs", "[]"))
        cbs = _ilist(o.get("cb", "[]"))
        confs = _ilist(o.get("conf", "[]"))
        # processing: coinbase order, heights
        for c in cbs:
            if c in processed:
                hit("processed-twice", f"block {c} was processed although already recorded as processed: {line}")
            processed.add(c)
        for c in confs:
            bid, h = c.split("@")
            if bid.isdigit() and (int(h) >= len(r.chain) or r.chain[int(h)] != bid) and not r.thread:
                hit("wrong-height", f"block {bid} was processed with height {h}, its best-chain height differs: {line}")
            if int(h) < r.start:
                below(r, f"block {bid} at height {h} was processed", line)
        # requests
        for q in reqs:
            if q == r.last_req:
                continue            # retry of the outstanding block
            r.last_req = q
            if r.bad:
                continue
            idx = len(r.seen)
            if r.thread and idx >= len(r.expected) and len(r.seen) == len(r.expected):
                # the restart flag started another round: plan again from the present state
                # (everything requested so far has completed, see cb accounting above)
                nr = new_round(before | {x for x, _ in r.seen})
                nr.last_req = q
                r = nr
                idx = 0
            if q in r.chain and r.chain.index(q) < r.start:
                below(r, f"requested block {q} at height {r.chain.index(q)}", line)
                r.bad = True
                continue
            if q in [x for x, _ in r.seen]:
                hit("repeat", f"block {q} requested twice in one round: {line}")
                r.bad = True
                continue
            if q in processed and q not in cbs:
                hit("already-processed", f"requested block {q} is already recorded as processed: {line}")
                r.bad = True
                continue
            if q not in r.chain:
                hit("off-chain", f"requested block {q} is not on the best chain the round started from: {line}")
                r.bad = True
                continue
            if idx >= len(r.expected) or r.expected[idx][0] != q:
                want = r.expected[idx][0] if idx < len(r.expected) else "nothing"
                hit("order", f"request #{idx + 1} of the round is block {q} (height {r.chain.index(q)}), expected {want}; "
                             f"chain={r.chain} start={r.start}: {line}")
                r.bad = True
                continue
            r.seen.append(r.expected[idx])
        if over and not r.bad and len(r.seen) < len(r.expected):
            tip = len(r.chain) - 1
            if not r.seen:
                if r.need is not None and r.window > r.need:
                    hit("window-lost", f"round returned without requesting anything: the walk-back needs the header at height {r.need} "
                                       f"but only heights >= {r.window} are in memory; blocks at heights {r.expected[0][1]}..{tip} stay unprocessed: {line}")
                elif tip == 0:
                    hit("genesis-skipped", f"round returned without requesting anything; the only block (genesis, height 0 >= start) is unprocessed: {line}")
                else:
                    hit("sync-skipped", f"round returned without requesting anything although blocks {[x for x, _ in r.expected][:6]}.. "
                                        f"(heights {r.expected[0][1]}..{tip}) are unprocessed: {line}")
            else:
                hit("stopped-early", f"round ended after {len(r.seen)} of {len(r.expected)} blocks with no scripted reason: {line}")
        return r

    for line in script:
        op = brv.op_part(line)
        verb, a = _kv(op)
        raw = brv.obs_part(line)
        o_txt = brv.strip_note(raw)
        _, o = _kv("x " + o_txt)
        if o_txt.startswith("bad-op"):
            continue
        if o_txt.startswith("panic"):
            hit("harness-panic", f"op crashed: {line[:200]}")
            return hits
        if " #dup=" in raw:
            try:
                n = int(raw.split(" #dup=")[1].split()[0])
            except ValueError:
                n = 0
            if n >= 3:
                hit("re-request-completed", f"a block whose download had completed was requested {n} more times: {line[:160]}")
        if verb == "init":
            start = int(a.get("start", 0))
            chain = _ilist(a.get("chain", "[]"))
            window = int(a.get("window", 0))
            processed = set()
            rnd, pending, thread, trigger_in_round, mgr_dead, stale = None, None, False, False, False, False
            continue
        if verb in ("hdr", "prune"):
            if "chain" in a:
                chain = _ilist(a["chain"])
                window = int(a.get("window", 0))
            continue
        if verb == "processed":
            processed |= set(_ilist(a.get("ids", "[]")))
            continue
        if verb == "state":
            got = set(_ilist(o.get("processed", "[]")))
            if got != processed:
                hit("processed-set", f"recorded processed set {sorted(got, key=int)} differs from what was processed {sorted(processed, key=int)}")
                processed = got
            continue
        ret = o.get("ret", "")
        if ret == "panic":
            hit("sync-panic", f"the synchronisation round crashed ({raw.split(' #')[-1][:60]}): {op}")
            rnd, pending = None, None
            continue
        if verb == "round":
            rnd = new_round()
            over = ret in ("ok", "interrupted") or ret.startswith("err")
            src = a.get("src", "")
            outage = _is_outage(src, _ilist(o.get("reqs", "[]")), limit)
            rnd = feed(rnd, line, o, over and not outage and not mgr_dead and not stale)
            if ret == "stalled":
                if outage:
                    mgr_dead = True
                    hit("source-outage-wedges", f"{limit + 2} consecutive 'no node available' answers ended the block manager; the waiting round is never told and does not return: {op}")
                elif stale:
                    pass  # behind the request an interrupted round left in the block manager (interrupt = shutdown)
                else:
                    hit("stalled", f"round neither returned nor has a request outstanding: {line[:200]}")
            pending = o.get("pend")
            if over:
                rnd = None
            if "chain2" in a:
                # the repository changed between two of the round's own reads (inject=): the round
                # above was judged against the chain whose tip its LastHash call returned; later
                # rounds see the new one
                chain = _ilist(a["chain2"])
                window = int(a.get("window2", 0))
        elif verb in ("startup", "trigger"):
            thread = True
            if rnd is None:
                rnd = new_round()
            elif ret == "pending":
                trigger_in_round = True
            rnd = feed(rnd, line, o, ret == "quiet")
            pending = o.get("pend")
            if ret == "quiet":
                rnd = None
        elif verb == "release":
            if rnd is None:
                continue
            over = ret in ("ok", "quiet")
            rnd = feed(rnd, line, o, over)
            pending = o.get("pend")
            if ret == "stalled":
                hit("stalled", f"round neither returned nor has a request outstanding: {line[:200]}")
            if over:
                if thread and trigger_in_round:
                    tip = len(chain) - 1
                    if tip >= start and chain[tip] not in processed:
                        hit("trigger-lost", f"a trigger arrived during the round but no further round processed the new tip {chain[tip]}: {op}")
                trigger_in_round = False
                rnd = None
        elif verb == "poll":
            if rnd is None:
                continue
            ph = None
            if pending is not None and pending in rnd.chain:
                ph = rnd.chain.index(pending)
            orphaned = ph is not None and (ph >= len(chain) or chain[ph] != pending)
            if orphaned and ret in ("pending", "stalled"):
                if mgr_dead:
                    pass  # already reported as source-outage-wedges; the next poll crashes
                else:
                    hit("orphan-not-abandoned", f"block {pending} left the best chain but its request is still outstanding after the poll: {op}")
            if not orphaned and ret not in ("pending", "stalled"):
                hit("abandoned-on-chain", f"block {pending} is still on the best chain but the round was ended by the poll: {op}")
            if orphaned and not mgr_dead:
                # the round must end with the abort: nothing of the orphaned chain is requested or processed any more
                off = [q for q in _ilist(o.get("reqs", "[]")) + _ilist(o.get("cb", "[]"))
                       if q != pending and q in rnd.chain and (rnd.chain.index(q) >= len(chain) or chain[rnd.chain.index(q)] != q)]
                if off:
                    hit("orphaned-chain-continued",
                        f"after block {pending} left the best chain and its request was aborted, the round went on with blocks {off[:6]} of the orphaned chain: {op}")
            rnd = feed(rnd, line, o, False)
            if ret not in ("pending", "stalled"):
                rnd, pending = None, None
                trigger_in_round = False
        elif verb == "interrupt":
            if pending is not None:
                stale = True
            rnd, pending = None, None
            if ret != "interrupted":
                hit("interrupt-ignored", f"interrupt did not end the round: {line[:160]}")
    return hits


def nontrivial(script):
    verbs = [brv.op_part(l).split(" ", 1)[0] for l in script]
    has_chain = any(("chain=[0," in brv.op_part(l)) for l in script)
    return has_chain and any(v in ("round", "startup") for v in verbs)
