"""Monitor for C06: the property itself, evaluated on what the real TxManager reported.

Reference (per script, time = epoch counter advanced by `adv`, request time-out = `to` epochs):
  * a tx is handed to the processor exactly once after its first delivery, saved iff relevant;
  * a request grant (AddTxID -> true, or inclusion in a GetTxRequests result) for a tx is allowed only
    if the tx was not delivered, no grant for it is younger than the time-out, and - for GetTxRequests -
    the polling node announced it and has not been granted it since; a first announcement, or an
    announcement once the time-out has passed, MUST be granted; a poll that returns fewer than `max`
    txids MUST return every tx that is eligible for that node (retry by each announcing peer);
  * `clean keep=J` forgets every tx whose latest activity is older than epoch J (by design a later
    re-delivery is then processed again).
Used only to find failing inputs."""
import brv


def _kv(op):
    ws = op.split()
    return (ws[0] if ws else ""), dict(w.split("=", 1) for w in ws[1:] if "=" in w)


def _ints(s):
    s = s.strip()
    inner = s[1:-1]
    return [int(x) for x in inner.split(",")] if inner else []


def _pairs(s):
    inner = s.strip()[1:-1]
    out = []
    if inner:
        for item in inner.split(","):
            a, b = item.split(":")
            out.append((int(a), int(b)))
    return out


class _Tx:
    __slots__ = ("delivered", "dlv_epoch", "last_grant", "waiting", "fuzzy")

    def __init__(self):
        self.delivered = False
        self.dlv_epoch = None
        self.last_grant = None
        self.waiting = set()
        self.fuzzy = False      # touched by a concurrent stress op: waiting set unknown


def monitor(script):
    hits = []

    def hit(sig, text):
        hits.append((sig, text))

    to = 1
    epoch = 0
    txs = {}
    exp_proc = []
    exp_saved = []
    rel = {}
    live = False

    def get(t):
        if t not in txs:
            txs[t] = _Tx()
        return txs[t]

    def outstanding(x):
        return x.last_grant is not None and epoch - x.last_grant < to

    for line in script:
        op = brv.op_part(line)
        verb, a = _kv(op)
        oraw = brv.strip_note(brv.obs_part(line)).strip()
        o = dict(w.split("=", 1) for w in oraw.split() if "=" in w)
        if oraw.startswith("panic"):
            hit("panic", f"`{op[:80]}` crashed the implementation: {line[-160:]}")
            return hits
        if oraw.startswith("bad-op") or oraw == "unsupported":
            if verb == "init":
                live = False
            continue
        if verb == "init":
            to = int(a.get("to", 1))
            epoch = 0
            txs, exp_proc, exp_saved, rel = {}, [], [], {}
            live = True
            continue
        if not live:
            continue
        if verb == "ann":
            t, n = int(a["tx"]), int(a["node"])
            x = get(t)
            req = o.get("req") == "1"
            if x.delivered:
                if req:
                    hit("request-after-delivery", f"AddTxID(node {n}, tx {t}) returned true after tx {t} had been delivered")
            else:
                want = not outstanding(x)
                if req and not want:
                    hit("duplicate-request", f"AddTxID(node {n}, tx {t}) returned true while a request granted in epoch {x.last_grant} is outstanding (epoch {epoch}, time-out {to})")
                if not req and want:
                    hit("request-missed", f"AddTxID(node {n}, tx {t}) returned false although no request for tx {t} is outstanding")
            if req:
                x.last_grant = epoch
                x.waiting.discard(n)
            elif not x.delivered:
                x.waiting.add(n)
        elif verb == "dlv":
            t = int(a["tx"])
            x = get(t)
            if t not in rel:
                rel[t] = a.get("rel") == "1"
            if not x.delivered:
                x.delivered = True
                x.dlv_epoch = epoch
                exp_proc.append(t)
                if rel[t]:
                    exp_saved.append(t)
        elif verb == "poll":
            n, mx = int(a["node"]), int(a["max"])
            got = _ints(a.get("got", "[]"))
            if len(set(got)) != len(got):
                hit("duplicate-request", f"GetTxRequests(node {n}) returned a txid twice: {got}")
            elig = {t for t, x in txs.items() if not x.delivered and n in x.waiting and not outstanding(x)}
            for t in got:
                x = get(t)
                if x.delivered:
                    hit("request-after-delivery", f"GetTxRequests(node {n}) returned tx {t} after it had been delivered")
                elif outstanding(x):
                    hit("duplicate-request", f"GetTxRequests(node {n}) returned tx {t} while a request granted in epoch {x.last_grant} is outstanding (epoch {epoch}, time-out {to})")
                elif n not in x.waiting and not x.fuzzy:
                    hit("request-not-announced", f"GetTxRequests(node {n}) returned tx {t}, which node {n} has not announced since its last request")
            if len(got) < mx:
                missing = sorted(t for t in elig - set(got) if not txs[t].fuzzy)
                if missing:
                    hit("retry-missed", f"GetTxRequests(node {n}, max {mx}) returned {len(got)} txids {got[:8]}{'…' if len(got) > 8 else ''} but tx {missing[:12]} announced by node {n} are past the time-out and undelivered")
            for t in got:
                x = get(t)
                x.last_grant = epoch
                x.waiting.discard(n)
        elif verb == "adv":
            epoch += 1
        elif verb == "clean":
            j = int(a["keep"])
            for t in list(txs):
                x = txs[t]
                latest = x.dlv_epoch if x.delivered else x.last_grant
                if latest is None or latest < j:
                    del txs[t]
        elif verb in ("stress", "storm"):
            if "grants" not in o:
                hit("stress-failed", f"stress op did not complete: {oraw[:100]}")
                continue
            fresh = all(t not in txs for t in range(int(a["base"]), int(a["base"]) + int(a["txs"])))
            grants = _pairs(o["grants"])
            late = _ints(o["late"])
            dl = _ints(o["dlv"])
            if late:
                hit("request-after-delivery", f"concurrent run: tx {sorted(set(late))} were granted to a call that started after their delivery had returned")
            per = {}
            for t, n in grants:
                per[t] = per.get(t, 0) + 1
            for t, c in sorted(per.items()):
                x = get(t)
                if x.delivered:
                    hit("request-after-delivery", f"concurrent run: tx {t} granted {c} time(s) although delivered in an earlier op")
                elif to >= 1 and (c > 1 or outstanding(x)):
                    hit("duplicate-request", f"concurrent run: tx {t} was granted {c} time(s) within one instant (time-out {to} epochs, previous grant epoch {x.last_grant})")
            base, n = int(a["base"]), int(a["txs"])
            for t in range(base, base + n):
                x = get(t)
                x.fuzzy = True
                if t in per:
                    x.last_grant = epoch
            if verb == "stress" and fresh and to >= 1 and "wait" in o:
                # a first stress op over fresh txids inside one epoch: nothing times out inside it, so the first
                # announcement of a txid is granted and every announcement answered false records its node; only a
                # txid handed out by a poll of this op (impossible within the time-out) would blur the picture
                waits = _pairs(o["wait"])
                pg = set(_ints(o.get("pg", "[]")))
                for t in range(base, base + n):
                    x = get(t)
                    if t in pg:
                        continue
                    x.waiting = {nd for tt, nd in waits if tt == t}
                    x.fuzzy = False
            if verb == "storm" and a.get("kind") == "ann" and fresh and to >= 1 and not dl:
                # every goroutine w announced every (fresh) txid as node w+1 in the same instant: whoever was not
                # granted the request is an announcer waiting for the time-out — the state is exact, not fuzzy
                g = int(a["g"])
                granted = {}
                for t, nd in grants:
                    granted.setdefault(t, set()).add(nd)
                for t in range(base, base + n):
                    x = get(t)
                    if t not in granted:
                        hit("request-missed", f"concurrent run: none of the {g} simultaneous announcements of the fresh tx {t} was answered true")
                    x.waiting = set(range(1, g + 1)) - granted.get(t, set())
                    x.fuzzy = False
            for t in dl:
                x = get(t)
                if t not in rel:
                    rel[t] = t % 3 == 0
                if not x.delivered:
                    x.delivered = True
                    x.dlv_epoch = epoch
                    exp_proc.append(t)
                    if rel[t]:
                        exp_saved.append(t)
        elif verb == "stale":
            if int(o.get("dup", 0)) > 0:
                hit("stale-stamp-duplicate-request",
                    f"a GetTxRequests call that ran longer than the request time-out handed out {o.get('got')} txids; the "
                    f"{a.get('tail')} it handed out LAST were then announced by another peer and {o.get('dup')} of those "
                    f"announcements were answered `true` at once: two requests for one txid far less than a time-out apart")
        elif verb == "drain":
            if oraw.startswith("stuck"):
                hit("run-stuck", "Run did not consume the transaction channel within 10 s")
                continue
            proc = _ints(o.get("proc", "[]"))
            saved = _ints(o.get("saved", "[]"))
            if sorted(proc) != sorted(exp_proc):
                twice = sorted({t for t in proc if proc.count(t) > exp_proc.count(t)})
                lost = sorted({t for t in exp_proc if proc.count(t) < exp_proc.count(t)})
                if twice:
                    hit("processed-twice", f"ProcessTx was called more than once for tx {twice}: calls {proc}, first deliveries {exp_proc}")
                if lost:
                    hit("processed-missing", f"tx {lost} were delivered but never reached ProcessTx: calls {proc}")
                exp_proc = list(proc)
            if sorted(saved) != sorted(exp_saved):
                hit("saved-mismatch", f"SaveTx calls {saved} differ from the relevant first deliveries {exp_saved}")
                exp_saved = list(saved)
    return hits


def nontrivial(script):
    verbs = [brv.op_part(l).split(" ", 1)[0] for l in script]
    if "stress" in verbs or "storm" in verbs:
        return True
    return len(script) >= 6 and "ann" in verbs and ("dlv" in verbs or "poll" in verbs)
