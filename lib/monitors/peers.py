"""Monitor for C20: an independent reference (abstract address book) evaluated on what the
implementation actually reported. Used only to find failing inputs."""
import brv


def _kv(op):
    ws = op.split()
    return ws[0], dict(w.split("=", 1) for w in ws[1:] if "=" in w)


def wrap32(x):
    return ((x + 2**31) % 2**32) - 2**31


def _parse_peers(s):
    s = s.strip()
    assert s.startswith("[") and s.endswith("]")
    inner = s[1:-1]
    out = []
    if inner:
        for item in inner.split(","):
            a, sc, t = item.rsplit(":", 2)
            out.append((a, int(sc), int(t)))
    return out


def _obs(line):
    o = brv.strip_note(brv.obs_part(line))
    return dict(w.split("=", 1) for w in o.split() if "=" in w), o


def _enc(book):
    b = bytearray([0])
    b += len(book).to_bytes(4, "little", signed=False) if len(book) < 2**32 else b"\0\0\0\0"
    for a, sc, t in book:
        ab = b"" if a == "-" else bytes.fromhex(a)
        b += len(ab).to_bytes(4, "little") + ab + (sc % 2**32).to_bytes(4, "little") + t.to_bytes(4, "little")
    return bytes(b)


def _dec(fb):
    """the records of a well-formed file, in file order; None if the bytes are not version|count|records."""
    try:
        if len(fb) < 5 or fb[0] != 0:
            return None
        n = int.from_bytes(fb[1:5], "little")
        pos, out = 5, []
        for _ in range(n):
            ln = int.from_bytes(fb[pos:pos + 4], "little")
            if pos + 12 + ln > len(fb):
                return None
            ab = fb[pos + 4:pos + 4 + ln]
            sc = int.from_bytes(fb[pos + 4 + ln:pos + 8 + ln], "little", signed=True)
            t = int.from_bytes(fb[pos + 8 + ln:pos + 12 + ln], "little")
            out.append((ab.hex() if ab else "-", sc, t))
            pos += 12 + ln
        return out if pos == len(fb) else None
    except Exception:
        return None


def _full_prefix(book, k):
    """peers fully contained in the first k bytes of the encoding of book."""
    pos = 5
    out = []
    for a, sc, t in book:
        n = 12 + (0 if a == "-" else len(a) // 2)
        if pos + n <= k:
            out.append((a, sc, t))
            pos += n
        else:
            break
    return out


def monitor(script):
    hits = []
    book = []          # ordered list of [addr, score, time]
    saved = None       # list of tuples at last save
    tainted = False    # a hand-made file was loaded: duplicate/score bookkeeping no longer applies
    raw_store = False  # storage holds a hand-made file: loads are only required not to crash

    def find(a):
        for e in book:
            if e[0] == a:
                return e
        return None

    def hit(sig, text):
        hits.append((sig, text))

    for line in script:
        verb, a = _kv(brv.op_part(line))
        o, oraw = _obs(line)
        if "panic" in oraw.split() or o.get("r") == "panic":
            hit("load-panic", f"`{brv.op_part(line)[:80]}` crashed the implementation: {line[-120:]}")
            return hits
        if oraw.startswith("bad-op"):
            continue
        if verb == "init":
            book, saved, tainted, raw_store = [], None, False, False
        elif verb == "add":
            exp = find(a["a"]) is None
            if not tainted and int(o.get("added", -1)) != int(exp):
                hit("add-result", f"Add of {a['a'][:20]} returned {o.get('added')} but address {'not ' if exp else ''}held")
            if o.get("added") == "1":
                book.append([a["a"], 0, 0])
        elif verb in ("score", "time"):
            e = find(a["a"])
            if not tainted and int(o.get("found", -1)) != int(e is not None):
                hit("update-result", f"{verb} on {a['a'][:20]}: found={o.get('found')} but held={e is not None}")
            if o.get("found") == "1":
                if tainted:
                    # with duplicates Go updates the last entry
                    for x in reversed(book):
                        if x[0] == a["a"]:
                            e = x
                            break
                if e is not None:
                    if verb == "score":
                        e[1] = wrap32(e[1] + int(a["d"]))
                    e[2] = int(a["now"])
        elif verb == "get":
            lo, hi = int(a["lo"]), int(a["hi"])
            got = sorted(_parse_peers(o["peers"]))
            exp = sorted((x[0], x[1], x[2]) for x in book if lo <= x[1] and (hi == -1 or x[1] <= hi))
            if got != exp:
                kind = "score-sum" if sorted(g[0] for g in got) == sorted(e[0] for e in exp) else "get-mismatch"
                hit(kind, f"Get({lo},{hi}) returned {got[:4]}.. expected {exp[:4]}..")
            if not tainted and len({g[0] for g in got}) != len(got):
                hit("duplicate-address", f"Get returned an address twice: {got[:6]}")
        elif verb == "count":
            if int(o.get("n", -1)) != len(book):
                hit("count-mismatch", f"Count={o.get('n')} expected {len(book)}")
        elif verb == "save":
            if "file" in o:
                raw_store = False
                saved = [tuple(x) for x in book]
                fb = b"" if o["file"] == "-" else bytes.fromhex(o["file"])
                if tainted:
                    # after a hand-made file was loaded the in-memory ORDER is not observable (peers are printed sorted):
                    # take the order of the records from the file itself when it holds exactly the current book
                    d = _dec(fb)
                    if d is not None and sorted(d) == sorted(saved):
                        saved = d
                if not tainted and fb != _enc(saved):
                    hit("file-format", "saved bytes are not version|count|records of the current book")
        elif verb in ("load", "loadcut") and raw_store:
            book = [list(g) for g in _parse_peers(o["peers"])]
        elif verb == "load":
            got = sorted(_parse_peers(o["peers"]))
            exp = sorted(saved) if saved is not None else []
            if o.get("r") != "ok" or got != exp:
                hit("save-load-mismatch", f"Load after Save: r={o.get('r')} got {got[:4]} expected {exp[:4]}")
            book = [list(x) for x in (saved or [])] if got == exp else [list(g) for g in got]
        elif verb == "loadcut":
            k = int(a["k"])
            got = sorted(_parse_peers(o["peers"]))
            if saved is None:
                exp, expr = [], "ok"
            elif k >= 5:
                exp, expr = sorted(_full_prefix(saved, k)), "ok"
            else:
                exp, expr = [], None
            if got != exp or (expr and o.get("r") != expr) or (expr is None and not o.get("r", "").startswith("err")):
                hit("prefix-mismatch", f"Load of first {k} bytes: r={o.get('r')} kept {len(got)} peers, expected {len(exp)}")
            book = [list(g) for g in (_full_prefix(saved, k) if saved is not None and k >= 5 else [])]
            if got != exp:
                book = [list(g) for g in got]
        elif verb == "loadraw":
            got = _parse_peers(o["peers"])
            book = [list(g) for g in got]
            tainted = True
            raw_store = True
        elif verb == "clear":
            book, saved, tainted, raw_store = [], None, False, False
    return hits


def nontrivial(script):
    verbs = {brv.op_part(l).split(" ", 1)[0] for l in script}
    return len(script) >= 6 and "add" in verbs and ("save" in verbs or "score" in verbs)
