"""Monitors for C13, C14, C15 (component `node`): the properties themselves, evaluated on what the
real node did (observation lines of the `node` harness). Independent of the Lean model. Used only
to find failing inputs."""
import re

import brv

HANDSHAKE_CAP_FALLBACK = 10
GOOD = 0x6D  # spy VerifyHeader accepts headers whose nonce has this top byte
BAD = 0xBD   # spy ProcessHeader rejects headers whose nonce has this top byte


def _kv(op):
    ws = op.split()
    return ws[0], dict(w.split("=", 1) for w in ws[1:] if "=" in w)


def _obs(line):
    raw = brv.obs_part(line)
    note = ""
    i = raw.find(" #")
    if i >= 0:
        raw, note = raw[:i], raw[i + 2:]
    d = {}
    for w in raw.split():
        if "=" in w:
            k, v = w.split("=", 1)
            d[k] = v
    return d, raw, note


def _list(s):
    s = s.strip()
    if s in ("*", ""):
        return []
    inner = s[1:-1]
    return [x for x in inner.split(",") if x] if inner else []


def _hh(s):
    """[[1,2],[3]] -> [[1,2],[3]]"""
    return [[int(x) for x in g.split(",") if x] for g in re.findall(r"\[([0-9,]*)\]", s[1:-1])] if s and s != "[]" else []


def _flags(st):
    m = re.match(r"r(\d)v(\d)h(\d)", st or "")
    if not m:
        return None
    return tuple(c == "1" for c in m.groups())


def _payload(a):
    p = b""
    if "pay" in a and a["pay"] != "-":
        p += bytes.fromhex(a["pay"])
    if "fill" in a:
        n, b = a["fill"].split(":")
        p += bytes([int(b) % 256]) * int(n)
    if "invgen" in a:
        n, base = (int(x) for x in a["invgen"].split(":"))
        cnt = bytes([n]) if n < 0xfd else (b"\xfd" + n.to_bytes(2, "little") if n < 0x10000 else b"\xfe" + n.to_bytes(4, "little"))
        p += cnt + b"".join(b"\x01\x00\x00\x00" + (base + i).to_bytes(8, "little") + bytes(24) for i in range(n))
    if "tail" in a and a["tail"] != "-":
        p += bytes.fromhex(a["tail"])
    return p


# --------------------------------------------------------------------------------------------
# an independent reading of "well-formed P2P message" (C14's quantifier)

def _varint(p, i):
    if i >= len(p):
        return None
    d = p[i]
    if d < 0xfd:
        return d, i + 1
    w = {0xfd: 2, 0xfe: 4, 0xff: 8}[d]
    if i + 1 + w > len(p):
        return None
    v = int.from_bytes(p[i + 1:i + 1 + w], "little")
    if v < {2: 0xfd, 4: 0x10000, 8: 0x100000000}[w]:
        return None
    return v, i + 1 + w


def _tx_end(p, i):
    """index after one serialized transaction starting at i, or None."""
    if i + 4 > len(p):
        return None
    i += 4
    r = _varint(p, i)
    if r is None:
        return None
    n, i = r
    for _ in range(n):
        i += 36
        r = _varint(p, i)
        if r is None:
            return None
        l, i = r
        i += l + 4
        if i > len(p):
            return None
    r = _varint(p, i)
    if r is None:
        return None
    n, i = r
    for _ in range(n):
        i += 8
        r = _varint(p, i)
        if r is None:
            return None
        l, i = r
        i += l
        if i > len(p):
            return None
    i += 4
    return i if i <= len(p) else None


def _wf_payload(cmd, p):
    if cmd in ("verack", "getaddr", "sendheaders", "mempool", "filterclear"):
        return len(p) == 0
    if cmd in ("ping", "pong", "feefilter"):
        return len(p) == 8
    if cmd == "version":
        if not 46 <= len(p) <= 358:
            return False
        if len(p) <= 80:
            return len(p) in (46, 72, 80)
        r = _varint(p, 80)
        if r is None or r[0] > 256 or r[1] + r[0] > len(p):
            return False
        return len(p) - (r[1] + r[0]) in (0, 4, 5)
    if cmd == "headers":
        r = _varint(p, 0)
        return r is not None and r[0] <= 2000 and len(p) == r[1] + 81 * r[0] and all(p[r[1] + 81 * k + 80] == 0 for k in range(r[0]))
    if cmd in ("inv", "getdata", "notfound"):
        r = _varint(p, 0)
        return r is not None and r[0] <= 50000 and len(p) == r[1] + 36 * r[0]
    if cmd == "addr":
        r = _varint(p, 0)
        return r is not None and r[0] <= 1000 and len(p) == r[1] + 30 * r[0]
    if cmd == "tx":
        return _tx_end(p, 0) == len(p)
    if cmd == "block":
        if len(p) < 81:
            return False
        r = _varint(p, 80)
        if r is None:
            return False
        n, i = r
        for _ in range(n):
            i = _tx_end(p, i)
            if i is None:
                return False
        return i == len(p)
    if cmd == "reject":
        r = _varint(p, 0)
        if r is None:
            return False
        l, i = r
        c = p[i:i + l]
        i += l + 1
        r = _varint(p, i)
        if r is None:
            return False
        l, i = r
        i += l
        if c in (b"tx", b"block"):
            i += 32
        return i == len(p)
    if cmd == "protoconf":
        r = _varint(p, 0)
        if r is None or r[0] == 0:
            return False
        i = r[1] + 4
        if r[0] == 1:
            return i == len(p)
        r2 = _varint(p, i)
        return r2 is not None and r2[1] + r2[0] == len(p)
    # commands this reader has no decoder for (getheaders, getblocks, alert, unknown, ...): any payload
    return bool(re.fullmatch(r"[a-z0-9]{1,12}", cmd))


def _whole_frames(buf, prefix_ok):
    """the commands of the classic frames `buf` consists of, or None if it is not a sequence of whole, correctly
    check-summed frames of well-formed messages (prefix_ok: a proper prefix of such a sequence also counts)."""
    import hashlib
    cmds, i = [], 0
    while i < len(buf):
        if len(buf) - i < 24:
            return cmds + ["?"] if prefix_ok and bytes.fromhex("e3e1f3e8").startswith(buf[i:i + 4][:4]) or (prefix_ok and buf[i:i + 4] == bytes.fromhex("e3e1f3e8")) else None
        if buf[i:i + 4] != bytes.fromhex("e3e1f3e8"):
            return None
        name = buf[i + 4:i + 16].rstrip(b"\x00")
        if not re.fullmatch(rb"[a-z0-9]{1,12}", name) or name == b"extmsg":
            return None
        n = int.from_bytes(buf[i + 16:i + 20], "little")
        if n > 1 << 20:
            return None
        if len(buf) - i - 24 < n:
            return cmds + ["?"] if prefix_ok else None
        pl = buf[i + 24:i + 24 + n]
        if hashlib.sha256(hashlib.sha256(pl).digest()).digest()[:4] != buf[i + 20:i + 24]:
            return None
        cmd = name.decode()
        if not _wf_payload(cmd, pl):
            return None
        cmds.append(cmd)
        i += 24 + n
    return cmds


def wellformed(verb, a):
    if verb in ("ping", "expect", "reqblock", "close", "pong", "wait", "polltx", "cancelblock", "blockstate", "reqheaders"):
        return True
    if verb == "msg":
        if any(k in a for k in ("len", "ck", "magic", "cut")):
            return False
        return _wf_payload(a.get("cmd", ""), _payload(a))
    if verb == "ext":
        if any(k in a for k in ("len", "hlen", "cut")):
            return False
        cmd = a.get("cmd", "")
        if cmd in ("tx", "block"):
            return _wf_payload(cmd, _payload(a))
        return bool(re.fullmatch(r"[a-z0-9]{1,12}", cmd))
    return False


# --------------------------------------------------------------------------------------------

def monitor_c13(script):
    hits = []
    if not script:
        return hits
    _, cfg = _kv(brv.op_part(script[0]))
    verify_only = cfg.get("verifyonly") == "1"
    verified = False
    for line in script[1:]:
        op = brv.op_part(line)
        verb, a = _kv(op)
        o, raw, _ = _obs(line)
        if raw in ("dead", "bad-op", "ok") or "crash" in raw:
            if "crash" in raw:
                return hits
            continue
        if verb == "reqblock":
            if o.get("req") == "ok" and not verified:
                hits.append(("selected-before-verified", "a block was requested from a node that is not verified"))
            continue
        fl = _flags(o.get("st"))
        if fl is None:
            continue
        ready, v, hs = fl
        closed = o.get("sync") == "closed" or o.get("pong") == "closed" or verb == "close"
        short = op[:70]
        if ready and not (v and hs):
            hits.append(("ready-before-verified", f"after `{short}` the node is ready (selectable by nextNode) with verified={v} handshake={hs}"))
        fx = _list(o.get("fx", "[]"))
        tx = _list(o.get("tx", "[]"))
        hh = _hh(o.get("hh", "[]"))
        rx = int(o.get("rx", "0") or 0)
        if not v:
            touching = [x for x in fx if x.split(":")[0] in ("PH", "PA", "PG", "US")]
            if touching:
                hits.append(("effect-before-verified", f"`{short}` from an unverified peer reached {touching[:4]}"))
            if rx:
                hits.append(("effect-before-verified", f"`{short}`: a transaction from an unverified peer reached the tx manager"))
            served = [x for x in tx if x.split(":")[0] in ("getdata", "addr")]
            if served:
                hits.append(("effect-before-verified", f"`{short}`: the node acted on an unverified peer's announcement ({served})"))
            if any(g for g in hh):
                hits.append(("header-handler-before-verify",
                             f"`{short}`: the alternate header handler processed headers {[g for g in hh if g][0][:4]} of a peer that was not (and never became) verified"))
        if v and not verified:
            good = [x for x in fx if x.startswith("VH:") and int(x[3:]) >> 24 == GOOD]
            if not good or not hs:
                hits.append(("verified-without-proof",
                             f"`{short}` made the node verified although VerifyHeader accepted nothing (spy calls {fx[:3]}, handshake={hs})"))
        if verify_only and v and not closed and raw != "dead":
            hits.append(("verify-only-stays-connected", f"verify-only node still connected after `{short}` although verification succeeded"))
        verified = v
        if closed:
            break
    return hits


def _legit_close(verb, a, proto_seen):
    """reasons for which the reader may hang up on a well-formed message (policy, not framing)."""
    if verb == "pong":
        return a.get("d", "0") != "0"
    if verb == "msg" and a.get("cmd") == "protoconf":
        return proto_seen >= 1
    if verb == "msg" and a.get("cmd") == "headers":
        p = _payload(a)
        r = _varint(p, 0)
        if r is None:
            return False
        for k in range(r[0]):
            nonce = int.from_bytes(p[r[1] + 81 * k + 76:r[1] + 81 * k + 80], "little")
            if nonce >> 24 == BAD:
                return True
    return False


def monitor_c14(script, cap=HANDSHAKE_CAP_FALLBACK):
    hits = []
    verified = False
    hs_done = False
    sent_v = sent_a = False
    hs_extra = 0
    proto = 0
    rawbuf = b""
    for line in script[1:]:
        op = brv.op_part(line)
        verb, a = _kv(op)
        o, raw, _ = _obs(line)
        if raw in ("dead", "bad-op", "ok"):
            continue
        if verb == "raw" and "hex" in a:
            # pieces of a byte stream: well-formed iff, put together, they are whole classic frames of well-formed
            # messages (a message may reach the node in any number of reads)
            try:
                rawbuf += bytes.fromhex(a["hex"]) if a["hex"] != "-" else b""
            except ValueError:
                return hits
            if a.get("nob") == "1":
                if "crash" in raw:
                    hits.append(("crash-on-wellformed", f"a piece of a well-formed message aborted the process (`{op[:70]}`)"))
                    return hits
                pre = _whole_frames(rawbuf, prefix_ok=True)
                if (o.get("sync") == "closed") and pre and not any(c in ("pong", "protoconf", "headers") for c in pre):
                    hits.append(("closed-on-wellformed", f"connection dropped inside a well-formed message delivered in pieces (`{op[:70]}`)"))
                    return hits
                continue
            whole = _whole_frames(rawbuf, prefix_ok=False)
            rawbuf = b""
            if not whole or any(c in ("version", "verack", "block", "tx", "headers", "inv", "pong", "protoconf") for c in whole):
                return hits  # outside the quantifier (or a message whose effects this monitor follows only as `msg`)
        elif not wellformed(verb, a):
            return hits  # outside the quantifier from here on
        elif rawbuf:
            return hits  # a message begun in pieces was left unfinished
        short = op[:70]
        cmd = a.get("cmd") if verb == "msg" else None
        if cmd in ("version", "verack"):
            if hs_done:
                hs_extra += 1
            else:
                sent_v |= cmd == "version"
                sent_a |= cmd == "verack"
                hs_done = sent_v and sent_a
        res = o.get("sync") or o.get("pong")
        if verified and verb not in ("close", "reqblock", "cancelblock", "blockstate", "reqheaders"):
            if "crash" in raw:
                hits.append(("crash-on-wellformed", f"well-formed `{short}` aborted the process"))
                return hits
            if res == "none":
                if hs_extra > cap:
                    hits.append(("handshake-channel-wedge",
                                 f"after {hs_extra} extra version/verack messages `{short}` is never answered: the read loop is blocked on the handshake channel"))
                else:
                    hits.append(("no-pong-after-wellformed", f"no pong after well-formed `{short}` on an open connection"))
                return hits
            if res == "closed" and not _legit_close(verb, a, proto):
                hits.append(("closed-on-wellformed", f"connection dropped on well-formed `{short}`"))
                return hits
            if verb == "ping" and res not in ("closed", a.get("n")):
                hits.append(("wrong-pong", f"`{short}` answered with {res}"))
                return hits
        if cmd == "protoconf":
            proto += 1
        fl = _flags(o.get("st"))
        if fl is not None:
            verified = fl[1]
        if res == "closed" or verb == "close":
            break
    return hits


def _declared_count_cause(verb, a):
    """True iff the op's payload carries a count / string length that announces more data than the
    payload holds, in a place where the dependency's decoder allocates from it (ReadVarString in
    version / reject / protoconf, the input / output / script counts of MsgTx.BtcDecode)."""
    cmd = a.get("cmd", "")
    if verb not in ("msg", "ext") or (verb == "ext" and cmd != "tx"):
        return False
    p = _payload(a)

    def big(i):
        r = _varint(p, i)
        return r is not None and r[0] > len(p) - r[1]

    def skip(i):
        r = _varint(p, i)
        return None if r is None else r[1] + r[0]

    if cmd == "version":
        return len(p) > 80 and big(80)
    if cmd == "reject":
        if big(0):
            return True
        i = skip(0)
        return i is not None and big(i + 1)
    if cmd == "protoconf":
        r = _varint(p, 0)
        return r is not None and r[0] >= 2 and big(r[1] + 4)
    if cmd == "tx":
        r = _varint(p, 4)
        if r is None:
            return False
        n, i = r
        if n * 41 > len(p) - i:
            return True
        for _ in range(n):
            i += 36
            if big(i):
                return True
            i = skip(i)
            if i is None:
                return False
            i += 4
        r = _varint(p, i)
        if r is None:
            return False
        n, i = r
        if n * 9 > len(p) - i:
            return True
        for _ in range(n):
            i += 8
            if big(i):
                return True
            i = skip(i)
            if i is None:
                return False
        return False
    return False


def monitor_c15(script, cap=HANDSHAKE_CAP_FALLBACK):
    hits = []
    hs_done = False
    sent_v = sent_a = False
    hs_extra = 0
    for line in script[1:]:
        op = brv.op_part(line)
        verb, a = _kv(op)
        o, raw, note = _obs(line)
        if raw in ("dead", "bad-op"):
            continue
        short = op[:80]
        cmd = a.get("cmd") if verb == "msg" else None
        if cmd in ("version", "verack") and not any(k in a for k in ("len", "ck", "magic", "cut")):
            if hs_done:
                hs_extra += 1
            else:
                sent_v |= cmd == "version"
                sent_a |= cmd == "verack"
                hs_done = sent_v and sent_a
        if "crash" in raw:
            declared = int(a.get("len", "0") or 0)
            alloc = "makeslice" in note or "out_of_memory" in note or "cannot_allocate" in note
            fatal_oom = ("out_of_memory" in note or "cannot_allocate" in note) and "panic:" not in note
            if fatal_oom and _declared_count_cause(verb, a) and declared < 2 ** 31:
                hits.append(("alloc-declared-count",
                             f"a count/length inside the payload of `{short}` sizes an allocation in the dependency's decoder and the process aborts: {note[:120]}"))
            elif alloc and declared >= 2 ** 31:
                hits.append(("alloc-declared-length",
                             f"`{short}` declares {declared} bytes; the payload buffer is allocated before anything is received and the process aborts: {note[:120]}"))
            elif "ConvertToDifficulty" in note or "index_out_of_range" in note or "slice_bounds" in note:
                hits.append(("bits-panic", f"`{short}` panics in header processing: {note[:120]}"))
            else:
                hits.append(("process-abort", f"`{short}` aborted the process: {note[:120]}"))
            return hits
        if verb == "close" and o.get("run") == "hung":
            if hs_extra > cap:
                hits.append(("handshake-channel-wedge",
                             f"Run never returns after the peer closed: a handler is blocked on the handshake channel ({hs_extra} extra version/verack)"))
            else:
                hits.append(("run-hung", "Run did not return after the connection closed"))
            return hits
        if (o.get("sync") == "closed" or o.get("pong") == "closed") and o.get("run") == "hung":
            hits.append(("run-hung", f"Run did not return after the node closed the connection on `{short}`"))
            return hits
    return hits


def _bh(s):
    """c3g1drun -> (called, count, got, done)"""
    m = re.fullmatch(r"c(\d+)g(\d+)d(run|ok|err)", s or "")
    if not m:
        return (False, 0, 0, None)
    return (True, int(m.group(1)), int(m.group(2)), m.group(3))


def _frame_complete(buf, hdr_hex):
    """does the byte string hold a complete classic or extended block frame for this header?"""
    if len(buf) < 24:
        return False
    cmd = buf[4:16].rstrip(b"\0")
    if cmd == b"block":
        n = int.from_bytes(buf[16:20], "little")
        return len(buf) >= 24 + n and buf[24:104].hex() == hdr_hex
    if cmd == b"extmsg" and len(buf) >= 44:
        n = int.from_bytes(buf[36:44], "little")
        return buf[24:36].rstrip(b"\0") == b"block" and len(buf) >= 44 + n and buf[44:124].hex() == hdr_hex
    return False


def monitor_c16(script):
    """C16, node side: a request ends in exactly one terminal signal; CancelBlockRequest reports
    whether the handler had started (and returns); one request at a time; IsBusy / IsStopped."""
    hits = []
    out = None          # header (hex) of the outstanding request, as the block manager would know it
    cancelled = False   # ... and whether it was cancelled
    begun = b""         # bytes of a block frame delivered in pieces
    bh = (False, 0, 0, None)   # last handler record seen
    ready = False
    hung = False
    hung_bh = None
    ended = False

    def hit(sig, text):
        hits.append((sig, text))

    for line in script[1:]:
        op = brv.op_part(line)
        verb, a = _kv(op)
        o, raw, _ = _obs(line)
        if raw in ("dead", "bad-op", "ok") or "crash" in raw:
            continue
        short = op[:60]
        fl = _flags(o.get("st"))
        if fl is not None:
            ready = fl[0]
        if "bh" in o:
            bh = _bh(o["bh"])
        if verb == "reqblock":
            r = o.get("req")
            if r == "ok":
                if out is not None:
                    hit("second-request-accepted-while-busy", f"`{short}` accepted although the request for {out[152:160]} is outstanding")
                out, cancelled, begun, bh = a.get("hdr"), False, b"", (False, 0, 0, None)
            elif r == "busy" and out is None:
                hit("request-refused-while-idle", f"`{short}` refused as busy although no request is outstanding")
        elif verb == "reqheaders":
            r = o.get("req")
            if r == "ok" and out is not None:
                hit("second-request-accepted-while-busy", "RequestHeaders accepted while a block request is outstanding")
            elif r == "busy" and out is None:
                hit("request-refused-while-idle", "RequestHeaders refused as busy although no request is outstanding")
        elif verb == "blockstate":
            b = o.get("busy")
            if not ended and b in ("0", "1") and (b == "1") != (out is not None):
                hit("busy-misreported", f"IsBusy={b} while the outstanding request is {out[152:160] if out else None}")
        elif verb == "cancelblock":
            r = o.get("started")
            mine = out is not None and a.get("hdr") == out
            running = mine and bh[0] and bh[3] == "run"
            if r == "hung":
                hung, hung_bh = True, bh
                hit("cancel-blocks-on-stalled-download",
                    f"CancelBlockRequest did not return (300 ms) while the block download is stalled (handler record {o.get('bh', bh)}); it holds the node mutex")
            elif r in ("0", "1"):
                if (r == "1") != bool(running):
                    hit("cancel-misreports-started", f"CancelBlockRequest returned started={r} but the handler {'is running' if running else 'is not running'}")
            if mine and r in ("0", "1", "hung"):
                cancelled = True
            if o.get("closed") == "1":
                ended = True   # an in-progress cancel ends the connection
        elif verb == "closecancel":
            if o.get("started") == "hung":
                hit("cancel-blocks-on-stopping-node",
                    "CancelBlockRequest did not return (300 ms) while the node's run() was calling the request's on-stop function: "
                    "on-stop is called with the node mutex held. A downloader's Cancel holds its state lock while it calls "
                    "CancelBlockRequest and its Stop (the on-stop function) takes that lock: the two wait for each other for ever")
        elif verb in ("msg", "ext") and a.get("cmd") == "block" and out is not None and not any(k in a for k in ("len", "cut", "nob", "hlen", "ck", "magic")):
            p = _payload(a)
            if p[:80].hex() == out:
                res = o.get("sync")
                if res == "ok" and not cancelled:
                    want = _varint(p, 80)
                    if bh[3] != "ok" or (want and bh[1] != want[0]) or bh[2] != bh[1]:
                        if "bh" in o:
                            hit("handler-miscount", f"requested block delivered whole but the handler saw {o.get('bh')}")
                out, begun = None, b""
        elif verb == "raw" and a.get("nob") == "1" and out is not None:
            begun += bytes.fromhex(a.get("hex", "")) if a.get("hex", "-") != "-" else b""
            if _frame_complete(begun, out):
                out, begun = None, b""
        # the end of the connection
        if "onstop" in o and "stopped" in o:
            n = int(o["onstop"])
            if o["stopped"] != "1":
                hit("stopped-not-set", "Run returned but IsStopped() is false")
            if hung and "cancel" in o:
                was_running = hung_bh is not None and hung_bh[0] and hung_bh[3] == "run"
                if o["cancel"] in ("0", "1") and (o["cancel"] == "1") != was_running:
                    hit("cancel-misreports-started",
                        f"CancelBlockRequest answered started={o['cancel']} although the handler had {'started' if was_running else 'not been called'} when it was cancelled")
            if n > 1:
                hit("onstop-spurious", f"onStop invoked {n} times")
            pending = out is not None and not cancelled
            if pending and not bh[0] and n == 0:
                hit("onstop-missing", "the connection ended with an outstanding, uncancelled request whose handler was never called and onStop was not invoked")
            if n >= 1 and not pending:
                hit("onstop-spurious", "onStop invoked although no uncancelled request was outstanding")
            if n >= 1 and bh[0]:
                hit("onstop-spurious", "onStop invoked although the block handler had been started (two terminal signals)")
            if bh[0] and bh[3] == "run":
                hit("block-handler-left-running", f"the connection is gone and Run returned but the block handler is still waiting on its channel ({o.get('bh')})")
            break
    return hits


def nontrivial_c16(script):
    ops = [brv.op_part(l).split(" ", 1)[0] for l in script]
    return "reqblock" in ops and len(script) >= 6


def nontrivial(script):
    ops = [brv.op_part(l).split(" ", 1)[0] for l in script]
    return len(script) >= 5 and ("msg" in ops or "ext" in ops or "raw" in ops)


# --------------------------------------------------------------------------------------------
# C06, the glue between the wire and the tx manager for long inventories (monitor only: the model's association
# lists make 50000-entry inventories too slow for the driver)

def monitor_c06_inv(script):
    hits = []
    requested = set()
    for line in script[1:]:
        op = brv.op_part(line)
        verb, a = _kv(op)
        o, raw, _ = _obs(line)
        if verb != "msg" or a.get("cmd") != "inv" or "invgen" not in a:
            continue
        if "crash" in raw:
            hits.append(("crash-on-long-inventory", f"`{op[:60]}` aborted the process"))
            return hits
        n, base = (int(x) for x in a["invgen"].split(":"))
        fresh = [i for i in range(base, base + n) if i not in requested]
        sent = re.search(r"tx=\[([^\]]*)\]", raw)
        counts = [int(t.split(":")[1]) for t in (sent.group(1).split(",") if sent and sent.group(1) else []) if t.startswith("getdata:")]
        if o.get("sync") != "ok":
            hits.append(("inventory-not-consumed", f"`{op[:60]}`: the connection did not stay in sync ({o.get('sync')})"))
            return hits
        if any(c > 50000 for c in counts):
            hits.append(("getdata-too-long", f"`{op[:60]}`: a getdata with {max(counts)} items (limit 50000)"))
        if sum(counts) != len(fresh):
            hits.append(("announced-not-requested-once",
                         f"`{op[:60]}`: {len(fresh)} transactions were announced for the first time but the getdata messages that "
                         f"followed ask for {counts} = {sum(counts)} items: "
                         + ("some are never requested from this peer although marked as requested" if sum(counts) < len(fresh) else "some are requested twice")))
        requested.update(fresh)
    return hits


def nontrivial_c06_inv(script):
    return any("invgen" in l for l in script)
