"""Monitors for C16: the property itself, evaluated on what the implementation showed.

`monitor` (stream blkdl): one BlockDownloader driven at call granularity. Each observation line is
`op => run=<class> s=<len Started> c=<len Complete> h=<handler> cb=<coinbase calls> [ign=1] [blk=1]`.
`monitor_mgr` (stream blkmgr): one BlockManager with a scripted requestor.
Used only to find failing inputs."""
import brv


def _kv(text):
    ws = text.split()
    return (ws[0] if ws else ""), dict(w.split("=", 1) for w in ws[1:] if "=" in w)


def _obs(line):
    o = brv.strip_note(brv.obs_part(line))
    return dict(w.split("=", 1) for w in o.split() if "=" in w), o


RETURNED = ("ok", "cancelled", "wrong", "fail", "interrupted", "timeout")


def monitor(script):
    hits = []

    def hit(sig, text):
        hits.append((sig, text))

    can = True
    run_called = False
    run_ret = None
    intr = False
    first_cancel = None     # who cancelled first: ("cancel", answered_started) | ("stop",) | ("intr", answer)
    ans = False
    h_called = False
    h_wrong = False
    eos = False
    hold = False
    for line in script:
        verb, a = _kv(brv.op_part(line))
        o, oraw = _obs(line)
        if oraw.startswith("bad-op") or oraw == "ok":
            if verb == "init":
                can = a.get("can", "1") != "0"
            continue
        if "panic" in oraw.split():
            hit("panic", f"`{brv.op_part(line)}` panicked: {line[-120:]}")
            return hits
        if verb == "end":
            if o.get("parked", "0") != "0":
                hit("parked", f"after the script {o.get('parked')} goroutine(s) are still parked in block_downloader.go "
                              f"(a sender blocked on Started/Complete, or a call that never returned)")
            continue
        if "started" in a:
            ans = a["started"] == "t"
        ign = o.get("ign") == "1"
        if verb == "run" and not ign:
            run_called = True
        elif verb == "intr":
            intr = True
        elif verb == "cancel":
            if first_cancel is None:
                first_cancel = ("cancel", ans)
        elif verb == "stop":
            if first_cancel is None:
                first_cancel = ("stop",)
        elif verb == "hstart" and not ign:
            h_called = True
            h_wrong = a.get("hash") == "wrong"
            hold = a.get("hold") == "1"
        elif verb == "heos" and not ign:
            eos = True
        # the first cancellation may also be Run's own Cancel (interrupt branch)
        # (a Run that is still pending at rest after the interrupt has taken the interrupt branch)
        if run_called and intr and first_cancel is None:
            first_cancel = ("intr", ans)

        # ---- the property ----
        if o.get("blk") == "1":
            hit("send-blocked", f"`{brv.op_part(line)}` did not return: a Cancel/Stop call is blocked on Started/Complete")
        if o.get("unsettled") == "1":
            hit("unsettled", f"the goroutines never came to rest after `{brv.op_part(line)}`")
        if int(o.get("s", 0)) > 2 or int(o.get("c", 0)) > 2:
            hit("buffer-overflow", f"channel lengths {o.get('s')}/{o.get('c')} exceed the capacity 2")
        r = o.get("run")
        hst = o.get("h", "")
        if run_ret is not None and r != run_ret:
            hit("run-returned-twice", f"Run's result changed from {run_ret} to {r} at `{brv.op_part(line)}`")
        if r in RETURNED and run_ret is None:
            run_ret = r
            if r == "ok" and not (hst == "ret:ok" and int(o.get("cb", 0)) >= 1):
                hit("ok-without-block", f"Run returned nil although the handler state is {hst} / coinbase calls {o.get('cb')}: "
                                        "a download finished without error that did not handle its block")
            if r == "wrong" and not h_wrong:
                hit("bad-result", "Run returned ErrWrongBlock although the right block was delivered")
            if r == "interrupted" and not intr:
                hit("bad-result", "Run returned Interrupted without an interrupt")
            if r == "timeout":
                hit("bad-result", "Run returned ErrTimeout although no timer can have fired")
            if r == "fail" and hst != "ret:fail":
                hit("bad-result", f"Run returned an error although the handler state is {hst}")
        # termination: with Run called and pending at quiescence, something must still be owed by
        # the environment (the handler's stream / confirmations) or only a timer can help
        if run_called and r == "pending":
            if hst.startswith("ret:"):
                hit("run-stuck", f"HandleBlock has returned ({hst}) but Run is still waiting after `{brv.op_part(line)}`")
            elif hst == "idle" and can and first_cancel is not None:
                if first_cancel[0] == "stop":
                    hit("run-stuck", "the download was stopped before the handler was called, yet Run is still waiting")
                elif first_cancel[0] in ("cancel", "intr") and first_cancel[1] is False:
                    hit("run-stuck", "the download was cancelled, the peer reported the block as not started, yet Run is still waiting")
        # the handler must come to its end once its stream is closed (and the confirmations released)
        if h_called and eos and not hold and hst == "busy":
            hit("handler-stuck", f"HandleBlock has not returned although its stream is closed (`{brv.op_part(line)}`)")
        if verb == "hconfirm" and not ign and hst == "busy":
            hit("handler-stuck", "HandleBlock has not returned after its confirmations completed")
    return hits


def nontrivial(script):
    verbs = [brv.op_part(l).split(" ", 1)[0] for l in script]
    return "run" in verbs and len(verbs) >= 4 and any(v in verbs for v in ("cancel", "stop", "intr", "hstart"))


# ---------------------------------------------------------------------------------------------
# block manager (stream blkmgr)

def _parse_sigs(s):
    """'[0:closed,2:aborted+closed]' -> {0: ['closed'], 2: ['aborted', 'closed']}"""
    inner = s.strip()[1:-1]
    out = {}
    if inner:
        for item in inner.split(","):
            i, v = item.split(":", 1)
            out[int(i)] = v.split("+")
    return out


def monitor_mgr(script):
    hits = []

    def hit(sig, text):
        hits.append((sig, text))

    conc = 1
    reqs = []            # hash of every accepted request, by id
    abort_req = set()    # requests whose abort channel was closed
    delivered = set()    # hashes for which some downloader handled its block without error
    intr = False
    for line in script:
        verb, a = _kv(brv.op_part(line))
        o, oraw = _obs(line)
        if verb == "init":
            conc = int(a.get("conc", 1))
            continue
        if oraw.startswith("bad-op"):
            continue
        words = oraw.split()
        if "panic" in words:
            hit("panic", f"`{brv.op_part(line)}` panicked the block manager")
            return hits
        if int(o.get("stale", 0)) > 0:
            hit("stale-download", f"{o.get('stale')} downloader(s) of a request that already received its terminal signal are still registered "
                                  f"at rest after `{brv.op_part(line)}`: they were never cancelled (their Run waits for its timers), the registry does not return to empty")
        if "unsettled=1" in words:
            hit("unsettled", f"the manager never came to rest after `{brv.op_part(line)}` (a request without terminal signal, "
                             "a downloader that never left the registry, or Run not ending after the interrupt)")
            continue
        ign = o.get("ign") == "1" or o.get("refused") == "1"
        if verb == "add" and not ign:
            reqs.append(int(a["h"]))
        elif verb == "abort" and not ign:
            abort_req.add(int(a["r"]))
        elif verb == "intr":
            intr = True
        elif verb in ("deliver", "deliver2") and not ign and "dh" in o:
            delivered.add(int(o["dh"]))
        sigs = _parse_sigs(o.get("sigs", "[]"))
        alive = o.get("alive") == "1"
        dls = int(o.get("dls", 0))
        # ---- the property ----
        for rid, ss in sigs.items():
            if len(ss) != 1:
                hit("double-signal", f"request {rid} received {'+'.join(ss)}: more than one terminal signal")
                continue
            s0 = ss[0]
            if s0 not in ("closed", "aborted"):
                hit("bad-signal", f"request {rid} received `{s0}` on its complete channel")
            if rid >= len(reqs):
                continue
            if s0 == "closed" and reqs[rid] not in delivered:
                hit("complete-without-download", f"request {rid} (block {reqs[rid]}) was reported complete although no downloader "
                                                 "of that block finished without error")
            if s0 == "aborted" and rid not in abort_req:
                hit("abort-without-abort", f"request {rid} was reported aborted although nobody aborted it")
        if alive:
            # while the manager keeps running every request ends in its signal: at rest the unsignalled
            # ones are the current one and those queued behind it
            unsig = [i for i in range(len(reqs)) if i not in sigs]
            if unsig and any(i in sigs for i in range(unsig[0], len(reqs))):
                hit("out-of-order", f"request {unsig[0]} has no signal although a later one has")
            for rid in abort_req:
                if rid not in sigs:
                    hit("lost-request", f"request {rid} was aborted but never received a terminal signal")
            if unsig and reqs[unsig[0]] in delivered and verb != "add":
                # its block was handled while it was current (deliver ops only reach current downloads)
                if not any(reqs[i] == reqs[unsig[0]] and i in sigs and sigs[i] == ["closed"] for i in range(len(reqs))):
                    hit("lost-request", f"block {reqs[unsig[0]]} was downloaded but request {unsig[0]} never completed")
            if not unsig and dls != 0:
                hit("registry-leak", f"{dls} downloader(s) registered although no request is outstanding")
        else:
            if dls != 0:
                hit("registry-leak", f"{dls} downloader(s) registered after the manager's Run returned")
        if dls > max(conc, 1):
            hit("too-many-downloads", f"{dls} concurrent downloads with concurrentBlockRequests={conc}")
        if o.get("leak") == "1":
            hit("registry-leak", "after the final interrupt Run did not return or the registry did not empty")
    return hits


def nontrivial_mgr(script):
    verbs = [brv.op_part(l).split(" ", 1)[0] for l in script]
    return "add" in verbs and any(v in verbs for v in ("deliver", "fail", "abort", "intr"))
