"""Shared machinery of /verif/bin/check.

One check run = (1) rebuild harnesses and the fact extractor from /repo's working tree, regenerate
BRV/Gen/Facts.lean; (2) `lake build` the property's theorems and model driver, audit axioms and
forbidden tokens; (3) corpus + generated op scripts through the real code (Go harness) and through
the Lean model driver, diff the observation streams; (4) a monitor evaluates the property itself on
what the implementation did (the failing-input oracle); (5) evidence, KNOWN-FINDING / VIOLATION.
"""
import fcntl
import hashlib
import json
import os
import re
import subprocess
import sys
import time
from pathlib import Path

VERIF = Path(__file__).resolve().parents[1]
REPO = Path(os.environ.get("BRV_REPO", "/repo"))
WORK = VERIF / "work"
LEAN = VERIF / "lean"
GO = VERIF / "go"
BIN = WORK / "bin"

GOENV = dict(os.environ, GOFLAGS="-mod=mod", GOPROXY="off", GOSUMDB="off", GOTOOLCHAIN="local",
             CGO_ENABLED="0")
ALLOWED_AXIOMS = {"propext", "Classical.choice", "Quot.sound"}
FORBIDDEN = re.compile(r"\b(sorry|admit|native_decide|bv_decide|implemented_by)\b|^\s*axiom\s|\bunsafe\s|maxHeartbeats\s+0")


def log(msg):
    print(msg, flush=True)


def sh(cmd, cwd=None, env=None, timeout=None, stdin_path=None, stdout_path=None, stderr_path=None,
       limit_kb=None):
    """Run a command; returns (rc, stdout_text, stderr_tail). rc -9 on timeout."""
    stdin = open(stdin_path, "rb") if stdin_path else subprocess.DEVNULL
    stdout = open(stdout_path, "wb") if stdout_path else subprocess.PIPE
    stderr = open(stderr_path, "wb") if stderr_path else subprocess.PIPE
    pre = None
    if limit_kb:
        import resource

        def pre():
            resource.setrlimit(resource.RLIMIT_AS, (limit_kb * 1024, limit_kb * 1024))
    try:
        p = subprocess.run(cmd, cwd=cwd, env=env, stdin=stdin, stdout=stdout, stderr=stderr,
                           timeout=timeout, preexec_fn=pre)
        rc = p.returncode
        out = p.stdout.decode("utf-8", "replace") if p.stdout else ""
        err = p.stderr.decode("utf-8", "replace") if p.stderr else ""
    except subprocess.TimeoutExpired as e:
        rc, out, err = -9, (e.stdout or b"").decode("utf-8", "replace"), "timeout"
    finally:
        for f in (stdin, stdout, stderr):
            if hasattr(f, "close"):
                f.close()
    if stderr_path and os.path.exists(stderr_path):
        with open(stderr_path, "rb") as f:
            f.seek(0, 2)
            n = f.tell()
            f.seek(max(0, n - 3000))
            err = f.read().decode("utf-8", "replace")
    return rc, out, err[-3000:]


class Lock:
    def __init__(self, name):
        WORK.mkdir(exist_ok=True)
        self.path = WORK / (name + ".lock")

    def __enter__(self):
        self.f = open(self.path, "w")
        fcntl.flock(self.f, fcntl.LOCK_EX)
        return self

    def __exit__(self, *a):
        fcntl.flock(self.f, fcntl.LOCK_UN)
        self.f.close()


# ---------------------------------------------------------------------------------------------
# builds

def go_module_dir():
    """The harness module. Its go.mod replaces the repository module with /repo; when BRV_REPO points
    elsewhere (background sweeps on a snapshot) a private copy with the replace rewritten is used."""
    if str(REPO) == "/repo":
        return GO
    priv = WORK / "go-private"
    subprocess.run(["rsync", "-a", "--delete", str(GO) + "/", str(priv) + "/"], check=True)
    gm = (priv / "go.mod").read_text().replace("=> /repo", f"=> {REPO}")
    (priv / "go.mod").write_text(gm)
    return priv


def build_go(names):
    """Build harness binaries from /verif/go (which `replace`s the module with /repo) with the verif tag."""
    BIN.mkdir(parents=True, exist_ok=True)
    with Lock("go"):
        GO = go_module_dir()
        if not (GO / "go.sum").exists() and (REPO / "go.sum").exists():
            (GO / "go.sum").write_bytes((REPO / "go.sum").read_bytes())
        for n in names:
            cover = (["-cover", "-coverpkg=./...,github.com/tokenized/bitcoin_reader,github.com/tokenized/bitcoin_reader/headers"]
                     if os.environ.get("BRV_COVER") and n != "extract" else [])
            rc, out, err = sh(["go", "build", "-tags", "verif"] + cover + ["-o", str(BIN / n), "./cmd/" + n],
                              cwd=GO, env=GOENV, timeout=600)
            if rc != 0:
                return False, f"go build {n} failed:\n{err}"
    return True, ""


def regen_facts():
    """Run the extractor on the current source. Returns (ok, changed, facts dict, message)."""
    ok, msg = build_go(["extract"])
    if not ok:
        return False, False, {}, msg
    facts_lean = LEAN / "BRV" / "Gen" / "Facts.lean"
    before = facts_lean.read_bytes() if facts_lean.exists() else b""
    with Lock("lake"):
        rc, out, err = sh([str(BIN / "extract"), str(REPO), str(facts_lean), str(WORK / "facts.json")],
                          timeout=120)
    if rc != 0:
        return False, False, {}, "extract failed: " + err
    after = facts_lean.read_bytes()
    facts = json.loads((WORK / "facts.json").read_text())
    return True, before != after, facts, err.strip()


def lake_build(targets, timeout=3000):
    with Lock("lake"):
        rc, out, err = sh(["lake", "build"] + targets, cwd=LEAN, timeout=timeout)
    return rc == 0, out + err


def parse_lean_errors(text):
    """[(file, line, message-first-line)] from lake/lean output."""
    res = []
    for m in re.finditer(r"^error: ([^\s:]+\.lean):(\d+):(\d+): (.*)$", text, re.M):
        res.append((m.group(1), int(m.group(2)), m.group(4)))
    return res


def theorems_in(path):
    """[(qualified name, line)] of theorem declarations in a Lean file, tracking namespaces."""
    ns = []
    out = []
    for i, line in enumerate(Path(path).read_text().splitlines(), 1):
        m = re.match(r"^namespace\s+(\S+)", line)
        if m:
            ns.append(m.group(1))
            continue
        m = re.match(r"^end\s+(\S+)", line)
        if m and ns and ns[-1] == m.group(1):
            ns.pop()
            continue
        m = re.match(r"^(?:private\s+|protected\s+)?theorem\s+(\S+)", line)
        if m:
            out.append((".".join(ns + [m.group(1)]), i))
    return out


def enclosing_theorem(path, line):
    best = None
    for name, ln in theorems_in(path):
        if ln <= line:
            best = name
    return best


def audit(prop, props_files):
    """#print axioms for every theorem of the property files. Returns dict."""
    names = []
    imports = []
    for pf in props_files:
        rel = Path(pf).relative_to(LEAN)
        imports.append(".".join(rel.with_suffix("").parts))
        names += [n for n, _ in theorems_in(pf)]
    d = WORK / "audit"
    d.mkdir(parents=True, exist_ok=True)
    f = d / f"{prop}.lean"
    f.write_text("".join(f"import {i}\n" for i in imports) + "".join(f"#print axioms {n}\n" for n in names))
    with Lock("lake"):
        rc, out, err = sh(["lake", "env", "lean", str(f)], cwd=LEAN, timeout=900)
    text = out + err
    res = {}
    for m in re.finditer(r"'([^']+)' depends on axioms: \[([^\]]*)\]", text, re.S):
        res[m.group(1)] = [a.strip() for a in m.group(2).replace("\n", " ").split(",") if a.strip()]
    for m in re.finditer(r"'([^']+)' does not depend on any axioms", text):
        res[m.group(1)] = []
    bad = {n: ax for n, ax in res.items() if set(ax) - ALLOWED_AXIOMS}
    missing = [n for n in names if n not in res]
    return dict(theorems=names, axioms=res, bad=bad, missing=missing, rc=rc, raw=text[-2000:] if rc != 0 else "")


def strip_comments(text):
    # remove /- ... -/ (nested not handled beyond one level, good enough for the scan) and -- ...
    out = []
    depth = 0
    i = 0
    while i < len(text):
        if text.startswith("/-", i):
            depth += 1
            i += 2
            continue
        if text.startswith("-/", i) and depth > 0:
            depth -= 1
            i += 2
            continue
        if depth == 0:
            if text.startswith("--", i):
                j = text.find("\n", i)
                i = len(text) if j < 0 else j
                continue
            out.append(text[i])
        elif text[i] == "\n":
            out.append("\n")
        i += 1
    return "".join(out)


def transitive_imports(props_files):
    """Lean files of the BRV library reachable from the property files through `import BRV.…`."""
    seen = set()
    todo = [Path(p) for p in props_files]
    while todo:
        p = todo.pop()
        if p in seen or not p.exists():
            continue
        seen.add(p)
        for m in re.finditer(r"^import\s+(BRV\.[\w.]+)", p.read_text(), re.M):
            todo.append(LEAN / (m.group(1).replace(".", "/") + ".lean"))
    return sorted(seen)


def scan_forbidden(props_files=None):
    hits = []
    files = transitive_imports(props_files) if props_files else sorted((LEAN / "BRV").rglob("*.lean"))
    for p in files:
        code = strip_comments(p.read_text())
        for i, line in enumerate(code.splitlines(), 1):
            if FORBIDDEN.search(line):
                hits.append(f"{p.relative_to(LEAN)}:{i}: {line.strip()[:100]}")
    return hits


# ---------------------------------------------------------------------------------------------
# scripts, observations

def split_scripts(lines):
    """Split a multi-script stream into scripts; every script starts with an `init` line."""
    scripts = []
    cur = None
    for ln in lines:
        if ln.startswith("init"):
            if cur is not None:
                scripts.append(cur)
            cur = [ln]
        elif cur is not None:
            cur.append(ln)
    if cur is not None:
        scripts.append(cur)
    return scripts


def op_part(line):
    i = line.find(" => ")
    return line if i < 0 else line[:i]


def obs_part(line):
    i = line.find(" => ")
    return "" if i < 0 else line[i + 4:]


def strip_note(line):
    """Harness lines may carry a trailing ` #note` (panic text etc.) that the model does not print."""
    i = line.find(" #")
    return line if i < 0 else line[:i]


def read_lines(path):
    with open(path, "r", errors="replace") as f:
        return [l.rstrip("\n") for l in f]


# process time-outs are safety nets against hangs, not performance requirements: generous by a factor, so
# that a machine busy with other work does not turn a slow run into a reported crash
TIMEOUT_FACTOR = float(os.environ.get("BRV_TIMEOUT_FACTOR", "4"))


def _harness_env():
    env = dict(os.environ, GOMEMLIMIT="3GiB", BRV_FACTS=str(WORK / "facts.json"))
    if os.environ.get("BRV_COVER"):          # bin/coveraudit: which functions of /repo do the harnesses reach
        (WORK / "cover").mkdir(exist_ok=True)
        env["GOCOVERDIR"] = str(WORK / "cover")
    return env


def run_harness(name, script_path, out_path, timeout=600, limit_kb=6_000_000, args=("run",)):
    timeout = timeout * TIMEOUT_FACTOR
    err_path = str(out_path) + ".stderr"
    rc, _, err = sh([str(BIN / name)] + list(args), stdin_path=script_path, stdout_path=out_path,
                    stderr_path=err_path, timeout=timeout, limit_kb=limit_kb,
                    env=_harness_env())
    return rc, err


def run_driver(name, in_path, out_path, timeout=900, args=()):
    timeout = timeout * TIMEOUT_FACTOR
    exe = LEAN / ".lake" / "build" / "bin" / name
    err_path = str(out_path) + ".stderr"
    rc, _, err = sh([str(exe)] + list(args), stdin_path=in_path, stdout_path=out_path, stderr_path=err_path,
                    timeout=timeout)
    return rc, err


def diff_streams(go_lines, model_lines):
    """First differing line per script. Returns list of dicts (script index, op index, go, model)."""
    gs = split_scripts([l for l in go_lines if l and not l.startswith("#")])
    ms = split_scripts([l for l in model_lines if l and not l.startswith("#")])
    diffs = []
    for i in range(max(len(gs), len(ms))):
        g = gs[i] if i < len(gs) else []
        m = ms[i] if i < len(ms) else []
        for j in range(max(len(g), len(m))):
            a = strip_note(g[j]) if j < len(g) else "<missing>"
            b = strip_note(m[j]) if j < len(m) else "<missing>"
            if a != b:
                diffs.append(dict(script=i, op=j, go=g[j] if j < len(g) else "<missing>", model=b))
                break
    return diffs, gs, ms


def script_digest(lines):
    return hashlib.sha1("\n".join(op_part(l) for l in lines).encode()).hexdigest()[:16]


def shrink(ops, fails, budget_s=40):
    """Delta-debugging on a list of op lines (first line, `init`, is kept). `fails(ops)` re-runs the
    implementation and returns True when the failure is still there."""
    t0 = time.time()
    head, body = ops[:1], ops[1:]
    n = 2
    while len(body) >= 2 and time.time() - t0 < budget_s:
        chunk = max(1, len(body) // n)
        removed = False
        for i in range(0, len(body), chunk):
            cand = body[:i] + body[i + chunk:]
            if time.time() - t0 > budget_s:
                break
            if fails(head + cand):
                body = cand
                n = max(n - 1, 2)
                removed = True
                break
        if not removed:
            if chunk == 1:
                break
            n = min(len(body), n * 2)
    return head + body


# ---------------------------------------------------------------------------------------------
# known findings

def load_known(prop):
    """known_findings.txt lines: `known: property=Cxx sig=<signature> <text>` / `fixed: ...`."""
    known = []
    p = VERIF / "known_findings.txt"
    if not p.exists():
        return known
    for line in p.read_text().splitlines():
        line = line.strip()
        m = re.match(r"^known:\s+property=(\S+)\s+sig=(\S+)\s+(.*)$", line)
        if m and m.group(1) == prop:
            known.append((m.group(2), m.group(3)))
    return known


# ---------------------------------------------------------------------------------------------
# evidence

def write_evidence(prop, tier, seed, coverage, assumptions, wall_s, violations):
    d = VERIF / "evidence"
    d.mkdir(exist_ok=True)
    ev = dict(property_id=prop, tier=tier, seed=seed, level="proof", coverage=coverage,
              assumptions=assumptions, wall_s=round(wall_s, 2), violations=violations)
    (d / f"{prop}.json").write_text(json.dumps(ev, indent=1, sort_keys=False) + "\n")


TRUSTED_BASE = [
    "Lean 4.33.0 kernel (axioms limited to propext, Classical.choice, Quot.sound; audited per theorem with #print axioms)",
    "go/cmd/extract: go/ast fact extractor regenerating BRV/Gen/Facts.lean from /repo on every run",
    "correspondence harness (go/cmd/*) + Lean model driver + line-protocol canonicalisation: differential testing of the hand-written model against the real code",
    "Python monitors (lib/monitors.py): reference oracles used only to search for a failing input, never as the proof",
    "Go semantics modelled rather than verified: sync.Mutex critical section = atomic step, channels FIFO with capacity, big.Int = Nat arithmetic, SHA-256d as an ideal hash",
]
