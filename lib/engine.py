"""The generic check engine: one property = one Spec (see checks/*.py)."""
import json
import os
import sys
import time
import traceback
from pathlib import Path

import brv
from brv import log


class Stream:
    """One correspondence stream: a generator of op scripts, the Go harness that runs them against
    the real code, the Lean model driver that replays them, and a monitor (the property oracle)."""

    def __init__(self, name, harness, driver, gen, monitor=None, nontrivial=None, harness_args=("run",),
                 driver_args=(), timeout=600, compare=True, describe=""):
        self.name = name
        self.harness = harness
        self.driver = driver
        self.gen = gen                # gen(seed, tier, out_path) writes a multi-script file
        self.monitor = monitor        # monitor(script_lines_with_go_obs) -> list of (sig, text)
        self.nontrivial = nontrivial  # nontrivial(script_lines) -> bool
        self.harness_args = harness_args
        self.driver_args = driver_args
        self.timeout = timeout
        self.compare = compare
        self.describe = describe


class Spec:
    def __init__(self, prop, title, go_bins, lean_targets, props_files, streams, rule, assumptions,
                 modelled_funcs=(), static_checks=None, partial_note=""):
        self.prop = prop
        self.title = title
        self.go_bins = go_bins
        self.lean_targets = lean_targets
        self.props_files = props_files
        self.streams = streams
        self.rule = rule
        self.assumptions = assumptions
        self.modelled_funcs = modelled_funcs
        self.static_checks = static_checks  # static_checks(facts) -> list of (sig, text) violations
        self.partial_note = partial_note


def _corpus_files(prop, stream):
    d = brv.VERIF / "corpus" / prop
    if not d.is_dir():
        return []
    return sorted(p for p in d.glob(f"{stream}*.ops"))


QUICK_TIMEOUT = 300   # s (times brv.TIMEOUT_FACTOR): a quick stream runs well under a minute; a harness that hangs on a
                      # broken implementation must not keep a quick check waiting for the thorough tier's limit


def _run_stream_file(st, script_path, wd, tag):
    go_obs = wd / f"{st.name}.{tag}.go.obs"
    model_obs = wd / f"{st.name}.{tag}.model.obs"
    timeout = min(st.timeout, QUICK_TIMEOUT) if _TIER == "quick" else st.timeout
    rc, err = brv.run_harness(st.harness, script_path, go_obs, timeout=timeout, args=st.harness_args)
    res = dict(harness_rc=rc, harness_err=err if rc != 0 else "", go_obs=go_obs, model_obs=model_obs)
    go_lines = brv.read_lines(go_obs) if go_obs.exists() else []
    res["go_lines"] = go_lines
    if st.compare:
        rc2, err2 = brv.run_driver(st.driver, go_obs, model_obs, args=st.driver_args)
        res["driver_rc"] = rc2
        res["driver_err"] = err2 if rc2 != 0 else ""
        res["model_lines"] = brv.read_lines(model_obs) if model_obs.exists() else []
    else:
        res["driver_rc"] = 0
        res["model_lines"] = go_lines
    return res


def _monitor_scripts(st, scripts):
    hits = []
    if st.monitor is None:
        return hits
    for idx, sc in enumerate(scripts):
        try:
            for sig, text in st.monitor(sc) or []:
                hits.append(dict(script=idx, sig=sig, text=text))
        except Exception as e:  # a monitor bug must not masquerade as a violation
            hits.append(dict(script=idx, sig="monitor-error", text=f"monitor crashed: {e!r}", internal=True))
    return hits


def _write_replay(spec, name, header_lines, script_lines, extra=None):
    d = brv.WORK / "replay"
    d.mkdir(parents=True, exist_ok=True)
    p = d / name
    with open(p, "w") as f:
        for h in header_lines:
            f.write("# " + h + "\n")
        for l in script_lines:
            f.write(l + "\n")
        if extra:
            f.write("# ---\n")
            for l in extra:
                f.write("# " + l + "\n")
    return p


def _shrink_on_monitor(st, script, sig, wd):
    ops = [brv.op_part(l) for l in script]

    def fails(cand):
        p = wd / "shrink.ops"
        p.write_text("\n".join(cand) + "\n")
        r = _run_stream_file(st, p, wd, "shrink")
        scs = brv.split_scripts([l for l in r["go_lines"] if l and not l.startswith("#")])
        hits = _monitor_scripts(st, scs)
        return any(h["sig"] == sig for h in hits)

    try:
        return brv.shrink(ops, fails, budget_s=30)
    except Exception:
        return ops


_TIER = "thorough"


def run_check(spec, tier, seed, replay=None):
    global _TIER
    _TIER = tier
    t0 = time.time()
    prop = spec.prop
    wd = brv.WORK / prop
    wd.mkdir(parents=True, exist_ok=True)
    violations = []     # dicts: kind, text, replay
    known_printed = []
    notes = []
    known = brv.load_known(prop)

    # ---- 1. builds and facts -------------------------------------------------------------
    ok, changed, facts, msg = brv.regen_facts()
    if not ok:
        violations.append(dict(kind="build", text="fact extraction failed: " + msg, nofail=True))
    elif facts.get("missing"):
        violations.append(dict(kind="facts", nofail=True,
                               text="facts no longer found in the source (code shape changed): " + "; ".join(facts["missing"])))
    okg, msg = brv.build_go(spec.go_bins)
    if not okg:
        violations.append(dict(kind="build", text=msg, nofail=True))

    # ---- 2. Lean: theorems, audit ---------------------------------------------------------
    okl, lake_log = brv.lake_build(spec.lean_targets)
    broken = []
    if not okl:
        errs = brv.parse_lean_errors(lake_log)
        for f, line, m in errs:
            thm = brv.enclosing_theorem(brv.LEAN / f, line) if (brv.LEAN / f).exists() else None
            broken.append(f"{f}:{line} {thm or ''}: {m}")
        if not broken:
            broken.append(lake_log[-600:])
    aud = dict(theorems=[], axioms={}, bad={}, missing=[])
    forbidden = brv.scan_forbidden(spec.props_files)
    if okl:
        aud = brv.audit(prop, spec.props_files)
        if aud["bad"]:
            broken.append("theorems depending on disallowed axioms: " + json.dumps(aud["bad"]))
        if aud["missing"]:
            broken.append("theorems not reported by #print axioms: " + ", ".join(aud["missing"]) + " " + aud.get("raw", ""))
    if forbidden:
        broken.append("forbidden tokens in Lean sources: " + "; ".join(forbidden[:5]))
    leanchecker = None
    if okl and tier == "thorough":
        mods = [".".join(Path(p).relative_to(brv.LEAN).with_suffix("").parts) for p in spec.props_files]
        with brv.Lock("lake"):
            rc, out, err = brv.sh(["lake", "env", "leanchecker"] + mods, cwd=brv.LEAN, timeout=1800)
        leanchecker = rc == 0
        if rc != 0:
            broken.append("leanchecker rejected: " + (out + err)[-400:])

    # static (fact-level) checks of the property
    if spec.static_checks and facts:
        for sig, text in spec.static_checks(facts) or []:
            violations.append(dict(kind="static", sig=sig, text=text, nofail=True))

    # ---- 3./4. correspondence and monitor ---------------------------------------------------
    evaluations = 0
    distinct = set()
    samples = []
    traces_validated = 0
    unmodelled = 0
    storeok = dict(images=0, indexed=0, ok=0, uniq=0)
    hist = {}
    outcomes = {}
    diffs_all = []
    monitor_hits = []
    driver_ok = okl
    if okg:
        for st in spec.streams:
            files = []
            if replay:
                files = [("replay", Path(replay))]
            else:
                for cf in _corpus_files(prop, st.name):
                    files.append(("corpus-" + cf.stem, cf))
                gp = wd / f"{st.name}.gen.ops"
                try:
                    st.gen(seed, tier, gp)
                    files.append(("gen", gp))
                except Exception as e:
                    violations.append(dict(kind="build", text=f"generator {st.name} failed: {e!r}", nofail=True))
            for tag, path in files:
                if replay:
                    # a replay file may belong to another stream of this property
                    first = [l for l in brv.read_lines(path) if l.startswith("init")]
                    want = [l for l in brv.read_lines(path) if l.startswith("# stream=")]
                    if want and want[0].split("=", 1)[1].strip() != st.name:
                        continue
                r = _run_stream_file(st, path, wd, tag)
                go_lines = [l for l in r["go_lines"] if l and not l.startswith("#")]
                scripts = brv.split_scripts(go_lines)
                evaluations += len(scripts)
                for sc in scripts:
                    for l in sc:
                        v = brv.op_part(l).split(" ", 1)[0]
                        hist[v] = hist.get(v, 0) + 1
                        # outcome kinds of the implementation (verdicts, results, error classes), per op kind
                        ob = l.split(" => ", 1)[1] if " => " in l else ""
                        for tok in ob.split(" ")[:3]:
                            if tok[:2] in ("v=", "r=") or tok.startswith("sync=") or tok.startswith("res="):
                                k = v + ":" + tok.split(":", 1)[0][:40]
                                outcomes[k] = outcomes.get(k, 0) + 1
                                break
                        if " ev=[" in ob:
                            n = ob.split(" ev=[", 1)[1].split("]", 1)[0]
                            n = 0 if not n else n.count(",") + 1
                            k = "announced:" + ("0" if n == 0 else "1" if n == 1 else "2-5" if n <= 5 else "6+")
                            outcomes[k] = outcomes.get(k, 0) + 1
                    if st.nontrivial is None or st.nontrivial(sc):
                        distinct.add(st.name + ":" + brv.script_digest(sc))
                if scripts and len(samples) < 3:
                    samples.append(dict(stream=st.name, source=tag, script=scripts[min(len(scripts) - 1, 1)][:40]))
                if r["harness_rc"] != 0:
                    # the harness process died: that is itself an observation (crash of the real code)
                    last = go_lines[-1] if go_lines else "<no output>"
                    rp = _write_replay(spec, f"{prop}-{st.name}-{tag}-crash.ops",
                                       [f"stream={st.name}", f"property={prop}", "harness process died (rc=%d)" % r["harness_rc"],
                                        "last completed op: " + last, "stderr tail: " + r["harness_err"][-500:].replace("\n", " | ")],
                                       [brv.op_part(l) for l in (scripts[-1] if scripts else [])])
                    violations.append(dict(kind="crash", text=f"{st.name}: harness process died on the real code (rc={r['harness_rc']})", replay=rp))
                hits = _monitor_scripts(st, scripts)
                for h in hits:
                    h["stream"] = st
                    h["lines"] = scripts[h["script"]]
                monitor_hits += hits
                if st.compare and driver_ok:
                    if r["driver_rc"] != 0:
                        violations.append(dict(kind="build", nofail=True, text=f"model driver {st.driver} failed: {r['driver_err'][-300:]}"))
                    else:
                        unmodelled += sum(1 for l in r["model_lines"] if l.startswith("# unmodelled"))
                        for l in r["model_lines"]:
                            if l.startswith("# storeok "):
                                kvs = dict(kv.partition("=")[::2] for kv in l.split()[2:])
                                for k, v in kvs.items():
                                    if k in storeok and v.isdigit():
                                        storeok[k] += int(v)
                                if kvs.get("images") == "1":   # a complete image (load / loadd), not a crash prefix
                                    for k, v in kvs.items():
                                        if v.isdigit():
                                            storeok["complete_" + k] = storeok.get("complete_" + k, 0) + int(v)
                        diffs, gs, ms = brv.diff_streams(r["go_lines"], r["model_lines"])
                        traces_validated += len(gs) - len(diffs)
                        for d in diffs:
                            d["stream"] = st
                            d["lines"] = gs[d["script"]] if d["script"] < len(gs) else []
                        diffs_all += diffs

    # ---- 5. triage ------------------------------------------------------------------------
    seen_sigs = set()
    for h in monitor_hits:
        if h.get("internal"):
            violations.append(dict(kind="internal", text=h["text"], nofail=True))
            continue
        k = next((kt for ks, kt in known if ks == h["sig"]), None)
        if k is not None:
            if h["sig"] not in seen_sigs:
                known_printed.append(f"KNOWN-FINDING: property={prop} {k} [sig={h['sig']}]")
                seen_sigs.add(h["sig"])
            continue
        if h["sig"] in seen_sigs:
            continue
        seen_sigs.add(h["sig"])
        st = h["stream"]
        small = _shrink_on_monitor(st, h["lines"], h["sig"], wd) if not replay else [brv.op_part(l) for l in h["lines"]]
        rp = _write_replay(spec, f"{prop}-{st.name}-{h['sig']}-{seed}.ops",
                           [f"stream={st.name}", f"property={prop}", f"monitor: {h['text']}", f"signature: {h['sig']}",
                            f"replay: bin/check {prop} --replay <this file>"], small,
                           extra=["observations of the implementation on the unshrunk script:"] + h["lines"][:60])
        violations.append(dict(kind="monitor", sig=h["sig"], text=h["text"], replay=rp))

    have_concrete = any(v.get("replay") and not v.get("nofail") for v in violations)
    if diffs_all and not any(v["kind"] == "monitor" for v in violations):
        d = diffs_all[0]
        st = d["stream"]
        rp = _write_replay(spec, f"{prop}-{st.name}-diff-{seed}.ops",
                           [f"stream={st.name}", f"property={prop}",
                            "correspondence broken: the model and the implementation disagree; no failing input for the property itself was found",
                            f"first diverging op (script {d['script']}, op {d['op']}):", "  implementation: " + d["go"], "  model:          " + d["model"],
                            f"{len(diffs_all)} script(s) diverge in total"],
                           [brv.op_part(l) for l in d["lines"]])
        violations.append(dict(kind="correspondence", text=f"{st.name}: model/implementation disagree at `{brv.op_part(d['go'])}`", replay=rp, nofail=True))
    elif diffs_all:
        notes.append(f"{len(diffs_all)} script(s) also diverge from the model")
    if broken and not have_concrete:
        rp = _write_replay(spec, f"{prop}-obligation-{seed}.txt",
                           [f"property={prop}", "proof obligation(s) no longer check against the regenerated facts / current model:"] + broken[:20], [])
        violations.append(dict(kind="obligation", text="Lean obligation broken: " + broken[0][:200], replay=rp, nofail=True))

    # ---- 6. evidence, output --------------------------------------------------------------
    n_thm = len(aud["theorems"])
    discharged = len([n for n in aud["theorems"] if n in aud["axioms"] and not (set(aud["axioms"][n]) - brv.ALLOWED_AXIOMS)]) if okl and not forbidden else 0
    fp_changed = []
    fpfile = brv.VERIF / "fingerprints.json"
    if fpfile.exists() and facts:
        rec = json.loads(fpfile.read_text())
        for fn in spec.modelled_funcs:
            if fn in rec and facts.get("fingerprints", {}).get(fn) != rec[fn]:
                fp_changed.append(fn)
    coverage = dict(
        obligations=max(n_thm, 1), discharged=discharged,
        checker_cmd="cd /verif/lean && lake build " + " ".join(spec.lean_targets) + " && lake env lean work/audit/%s.lean (#print axioms)" % prop
                    + (" && lake env leanchecker" if tier == "thorough" else ""),
        trusted_base=brv.TRUSTED_BASE,
        theorems=aud["theorems"], axioms_used=sorted({a for ax in aud["axioms"].values() for a in ax}),
        leanchecker=leanchecker,
        evaluations=max(evaluations, 0), distinct_nontrivial=len(distinct), rule=spec.rule,
        traces_validated_against_impl=traces_validated, samples=samples or ["<no scripts run>"],
        op_histogram=hist, outcome_histogram=dict(sorted(outcomes.items())), scripts_partly_unmodelled=unmodelled, load_hypothesis_StoreOK=storeok, facts_changed=changed, modelled_functions_changed=fp_changed,
        known_findings_replayed=len(known_printed), broken_obligations=broken[:10], notes=notes,
        partial=spec.partial_note,
    )
    real = [v for v in violations]
    brv.write_evidence(prop, tier, seed, coverage, spec.assumptions, time.time() - t0, len(real))
    for k in known_printed:
        log(k)
    if real:
        for v in real:
            rp = v.get("replay")
            if rp is None:
                rp = _write_replay(spec, f"{prop}-{v['kind']}-{seed}.txt", [f"property={prop}", v["text"]], [])
            tail = " no-failing-input-found" if v.get("nofail") else ""
            log(f"# {v['kind']}: {v['text']}")
            log(f"VIOLATION property={prop} replay={rp}{tail}")
        return 1
    log(f"OK property={prop} tier={tier} seed={seed} theorems={discharged}/{n_thm} scripts={evaluations} validated={traces_validated} wall={time.time()-t0:.1f}s")
    return 0
