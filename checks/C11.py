from hdrcommon import GEN_RULE, hdr_spec, spine_scripts
from meta import COMMON_NOTE

SPEC = hdr_spec(
    "C11", "Save then Load restores the same repository",
    prefixes={"C11"}, profiles=[("saveload", 8), ("mixed", 2)],
    rule=GEN_RULE + "`dump; save; load|loadd; dump` at arbitrary positions, repeated generations, branch files appended to after pruning, continuing submissions on the "
         "loaded repository; retained depth = side branches whose fork point is within the load depth; non-trivial = at least 8 submissions",
    props_file="C11", extra=spine_scripts(['files', 'shrink']), thorough_n=5000,
    assumptions=["legacy version-0 header files (migration) are not generated: the model returns 'migrate: not modelled' for them; empty storage is covered"],
    partial_note="for LINEAR chains (one branch, any length, any load depth >= 0) Save-then-Load observational equivalence is a theorem (C11_save_load_linear: tip, header at "
                 "every height from memory or files, height of every hash incl. pruned ones, invalid list). With side branches (sort + link of the loaded branches), repeated "
                 "generations, consolidations and continued submissions it is checked on every generated history, not proved; migration of version-0 files is not covered. "
                 "In the LINEAR WORLD (Proofs/LinearWorld: every history of tip-extending submissions of any length — across 1000-header file boundaries, the 10000-header prune depth and the automatic clean every 10000 heights — interleaved with Cleans, Saves and Loads of any depth, any number of generations) Save then Load at every generation restores tip, header at every height, height of every hash and the invalid list, branch files appended to after pruning "
                 "included, and the loaded repository is again a linear world of the same chain (C11_linear_generations).")

META = dict(
    technique="Lean 4 proof (Save/Load round trip for linear chains: exact main-file layout, loadHistoricalHashHeights specification, pruning on load; branch file write/merge/rebuild lemmas, index and invalid-list persistence) + model/implementation correspondence on dump;save;load;dump",
    text="Theorems for every repository state: a first Save of a branch writes exactly the branch; a pruned branch saved again is merged with its earlier file (history kept); "
         "a branch rebuilt from its file has the same fields; the index names every tracked branch in order; the invalid list round-trips merged with the configured hashes; "
         "empty storage loads to genesis; record/file constants are the extracted ones. For every linear chain reached by submissions from genesis (any length, across "
         "the 1000-header files) and every load depth >= 0: Save succeeds and writes exactly header k as record k % 1000 of file k / 1000, one branch file and the index; Load of that "
         "succeeds and the loaded repository reports the same tip, the same header at every height >= 0 (memory above the load depth, files below), the same height for every "
         "hash (pruned ones via the historical heights, unknown ones stay unknown) and the merged invalid list (C11_save_load_linear, C11_save_writes_linear). In the linear world (every fork-free history of any length, any number of generations, files appended to after pruning) Save-then-Load with any depth restores every observation and the loaded repository is again a linear world of the same chain (C11_linear_generations).",
    note=COMMON_NOTE + "Partial: see evidence.",
)
