from hdrcommon import GEN_RULE, hdr_spec, spine_scripts
from meta import COMMON_NOTE

SPEC = hdr_spec(
    "C11", "Save then Load restores the same repository",
    prefixes={"C11"}, profiles=[("saveload", 8), ("mixed", 2)],
    rule=GEN_RULE + "`dump; save; load|loadd; dump` at arbitrary positions, repeated generations, branch files appended to after pruning, continuing submissions on the "
         "loaded repository; retained depth = side branches whose fork point is within the load depth; non-trivial = at least 8 submissions",
    props_file="C11", extra=spine_scripts(['files']), thorough_n=5000,
    assumptions=["legacy version-0 header files (migration) are not generated: the model returns 'migrate: not modelled' for them; empty storage is covered"],
    partial_note="observational equivalence of the loaded repository is checked on every generated history, not yet proved; migration of version-0 files is not covered.")

META = dict(
    technique="Lean 4 proof (branch file write/merge/rebuild lemmas, index and invalid-list persistence) + model/implementation correspondence on dump;save;load;dump",
    text="Theorems for every repository state: a first Save of a branch writes exactly the branch; a pruned branch saved again is merged with its earlier file (history kept); "
         "a branch rebuilt from its file has the same fields; the index names every tracked branch in order; the invalid list round-trips merged with the configured hashes; "
         "empty storage loads to genesis; record/file constants are the extracted ones.",
    note=COMMON_NOTE + "Partial: see evidence.",
)
