import os
import subprocess

from meta import COMMON_NOTE

import brv
from engine import Spec, Stream
from monitors import tx as mon
from monitors import node as mon_node


def gen(seed, tier, out):
    n = 260 if tier == "quick" else 4000
    with open(out, "w") as f:
        subprocess.run([str(brv.BIN / "tx"), "gen", str(seed), str(n), tier], stdout=f, check=True)


def gen_nodeinv(seed, tier, out):
    n = 3 if tier == "quick" else 25
    with open(out, "w") as f:
        subprocess.run([str(brv.BIN / "node"), "gen", str(seed), str(n), tier, "c06"], stdout=f, check=True)


def gen_stress(seed, tier, out):
    n = 120 if tier == "quick" else 1500
    with open(out, "w") as f:
        subprocess.run([str(brv.BIN / "tx"), "genstress", str(seed), str(n), tier], stdout=f, check=True)


def gen_race(seed, tier, out):
    """thorough tier only: stress scripts against a `go build -race` binary. The race detector needs
    far more address space than the engine's harness sandbox allows, so the race binary is run HERE
    and its observation lines are handed to the stream as they are (harness mode `echo`); a data
    race report (exit status 66) is turned into a `panic` observation, which the monitor reports."""
    open(out, "w").close()
    if tier != "thorough":
        return
    race_bin = brv.BIN / "tx_race"
    env = dict(brv.GOENV, CGO_ENABLED="1")
    with brv.Lock("go"):
        rc, _, err = brv.sh(["go", "build", "-race", "-tags", "verif", "-o", str(race_bin), "./cmd/tx"],
                            cwd=brv.GO, env=env, timeout=900)
    if rc != 0:
        brv.log("# C06: race build not available, race leg skipped: " + err[-200:].replace("\n", " "))
        return
    ops = str(out) + ".in"
    with open(ops, "w") as f:
        subprocess.run([str(brv.BIN / "tx"), "genstress", str(seed + 7919), "250", "thorough"], stdout=f, check=True)
    errp = str(out) + ".race.stderr"
    rc, _, err = brv.sh([str(race_bin), "run"], stdin_path=ops, stdout_path=out, stderr_path=errp, timeout=700,
                        env=dict(os.environ, GORACE="halt_on_error=0"))
    if rc != 0:
        first = " ".join(l.strip() for l in err.splitlines()[:12]).replace(" ", "_")[:400]
        with open(out, "a") as f:
            f.write("init mode=long to=1 => ok\n")
            f.write(f"stress race-detector-run rc={rc} => panic #{first}\n")


SPEC = Spec(
    prop="C06",
    title="Each transaction seen reaches the processor exactly once; no duplicate requests",
    go_bins=["tx", "node"],
    lean_targets=["BRV.Props.C06", "drv_tx"],
    props_files=[brv.LEAN / "BRV/Props/C06.lean"],
    streams=[
        Stream("tx", "tx", "drv_tx", gen, monitor=mon.monitor, nontrivial=mon.nontrivial, timeout=800),
        Stream("stress", "tx", "drv_tx", gen_stress, monitor=mon.monitor, nontrivial=mon.nontrivial, compare=False,
               timeout=800, describe="8-goroutine concurrent calls; monitor only (interleaving is not replayable)"),
        Stream("nodeinv", "node", "drv_node", gen_nodeinv, monitor=mon_node.monitor_c06_inv, nontrivial=mon_node.nontrivial_c06_inv, compare=False,
               timeout=600, describe="real BitcoinNode + real TxManager: inventories of 49999..100001 fresh transactions in one message (handleInventory's getdata batching); monitor only"),
        Stream("race", "tx", "drv_tx", gen_race, monitor=mon.monitor, nontrivial=mon.nontrivial, compare=False,
               harness_args=("echo",), timeout=800, describe="stress scripts under the Go race detector (thorough tier)"),
    ],
    rule="seeded scripts of announce / deliver / poll / advance / clean / drain over 1-5 node ids and 1-6 tx ids that often share a "
         "bucket, in three clock regimes (time-out 0, 1 h, 150-200 ms with real sleeps; 1 or 2 ticks per time-out), bursts of the same "
         "tx announced or delivered by every node at one instant, unsolicited deliveries, polls with max in {-1,0,1,2..4,100}; "
         "several txids eligible for one node followed by polls with a small max; plus concurrent stress scripts (2-8 goroutines issuing random calls) "
         "and lock-step storms (all goroutines announce / deliver the same fresh txid at the same instant), in the thorough tier also under the Go race detector; "
         "corpus regression tx-stale-stamp (a poll slower than the time-out, repository fix 9c84f1c); "
         "non-trivial = >= 6 ops with an announcement and a delivery or poll, or a stress/storm op; "
         "distinct = distinct op text",
    assumptions=[
        "a mutex critical section is one atomic step; the bucket section and the entry section of AddTxID/AddTx are separate steps and GetTxRequests locks one entry at a time (as in the code)",
        "clock readings are inputs; the harness realises model instants by real sleeps and re-runs a script whose ops between two advances took longer than the time-out",
        "GetTxRequests' bucket order is random: the harness reports the returned set, the model driver accepts it iff some bucket order produces it",
        "Clean (re-delivery after cleaning is processed again, by design) and interrupt/shutdown (sendTx drops) are excluded from exactly-once; TxProcessor and TxSaver are set before Run and return no error in the harness",
        "the id<->txid table of the harness is injective (distinct OP_RETURN payloads; SHA-256d collision-freeness)",
    ],
    modelled_funcs=["TxManager.AddTxID", "TxManager.AddTx", "TxManager.sendTx", "TxManager.GetTxRequests", "TxManager.Run",
                    "TxManager.Clean", "TxData.Latest", "appendID", "removeID", "contains"],
)

META = dict(
    technique="Lean 4 proof (inductive invariants over all sequential histories and over all interleavings of a small-step semantics with one program counter per goroutine) + model/implementation correspondence + concurrent stress under a property monitor",
    text="Theorems over every op sequence and every schedule of the interleaving semantics (any number of goroutines): per txid processed+queued+in-flight sends+drops = [received] "
         "(at most once always, exactly once at quiescence without interrupt), SaveTx calls = relevant ProcessTx calls, two grants of one txid are >= time-out apart, no grant after delivery, "
         "a denied announcer stays recorded until it is granted and GetTxRequests returns exactly the eligible txids when it returns fewer than max. "
         "The model is tied to tx_manager.go by differential runs in three clock regimes and by concurrent stress runs checked by the monitor (announcement storms and stress ops with follow-up polls after the time-out, a Clean running beside them), by the regenerated critical sections of AddTxID / AddTx / GetTxRequests / Clean (C06_critical_sections_in_source), and by a monitor-only stream of 49999..100001-entry inventories through a real node (handleInventory batching).",
    note=COMMON_NOTE + "Excluded and stated in Props/C06.lean: Clean and interrupt. GetTxRequests used to stamp LastRequested with the clock value read when the call "
         "STARTED (two requests within one time-out when a poll outlasted it); repaired in /repo 9c84f1c, the model stamps the clock of the entry section, "
         "C06_conc_single_outstanding is the full real-time statement, C06_old_formula_stale_stamp_anomaly documents the old formula and corpus/C06/tx-stale-stamp.ops "
         "is the regression on the real code. `max` is only tested per bucket (modelled as is).",
)
