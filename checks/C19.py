from hdrcommon import GEN_RULE, hdr_spec
from meta import COMMON_NOTE

SPEC = hdr_spec(
    "C19", "Header locators are well-formed and let a same-chain peer continue from our tip",
    prefixes={"C19"}, profiles=[("loc", 7), ("mixed", 3)],
    rule=GEN_RULE + "GetLocatorHashes for max in {1,2,3,10,50} and the verify-only locator after arbitrary ops, on pruned chains and with several side branches; "
         "non-trivial = at least 8 submissions",
    props_file="C19",
    assumptions=["the peer-side clause (a protocol-conformant peer's reply connects to a header we hold) follows from 'first best-chain entry = tip's parent' and is exercised by C13/C14's scripted peer, not here"])

META = dict(
    technique="Lean 4 proof (induction over the back-off walk; de-duplication lemmas; `decide` over the extracted split table) + model/implementation correspondence",
    text="Theorems for every repository state and every max >= 1: no hash appears twice in the chain locator or the verify-only locator; de-duplication loses nothing; "
         "the walk takes at most max hashes from the best chain; genesis alone at height 0; above that the first entry is the tip's parent; the verify-only locator "
         "of the extracted main-net table is [BCH/BSV fork point, BTC fork point]; the wire parameters (5, 10, 3) are the extracted ones.",
    note=COMMON_NOTE + "Membership ('every hash is a best-chain header, a split fork point or a branch base') is by construction of the model and checked on the implementation by the monitor.",
)
