from hdrcommon import GEN_RULE, hdr_spec


def mainnet_locators(seed, tier):
    """locators on the main net at and above the configured split heights (the back-off walk inserts the split fork
    points): a mocked header at the real height 556766 or a few heights below, the real BSV header, a synthetic
    continuation of 0..40 headers, and after every few headers `loc max=m` for every m in 1..12."""
    import random
    rnd = random.Random(seed * 31 + 7)
    out = []
    n = 6 if tier == "quick" else 60
    for i in range(n):
        out.append(f"init net=main maxdepth=144 diff=off split={'off' if (i < 2 or rnd.random() < 0.5) else 'on'}")
        nid = 1
        t0 = 1542305000
        dense = i < 2          # the first scripts: every height split+1 .. split+17, every max
        if not dense and rnd.random() < 0.5:
            out += ["hdrreal name=before", "latest id=900003 height=556766 work=1000000", "hdrreal name=bsv", "sub id=900005"]
            tip = 900005
        else:
            base = 556767 - (25 if dense else rnd.randint(2, 30))
            out.append(f"hdr id={nid} prev=88888 bits=486604799 time={t0}")
            out.append(f"latest id={nid} height={base} work=1000000")
            tip = nid
            nid += 1
            for _ in range(556766 - base):
                out.append(f"hdr id={nid} prev={tip} bits=486604799 time={t0 + 600 * nid}")
                out.append(f"sub id={nid}")
                tip = nid
                nid += 1
            out += ["hdrreal name=bsv_on", f"# (the BSV split header is real: it only attaches to the real 556766)"] if False else []
        ext = 17 if dense else rnd.randint(0, 40)
        for k in range(ext + 1):
            if dense or k % rnd.randint(1, 4) == 0 or k == ext:
                for m in range(1, 13):
                    out.append(f"loc max={m}")
            if k < ext:
                out.append(f"hdr id={nid} prev={tip} bits=486604799 time={t0 + 600 * nid}")
                out.append(f"sub id={nid}")
                tip = nid
                nid += 1
        out.append("vloc")
    return "\n".join(out) + "\n"
from meta import COMMON_NOTE

SPEC = hdr_spec(
    "C19", "Header locators are well-formed and let a same-chain peer continue from our tip",
    prefixes={"C19"}, profiles=[("loc", 7), ("mixed", 3)],
    rule=GEN_RULE + "GetLocatorHashes for max in {1,2,3,10,50} and the verify-only locator after arbitrary ops, on pruned chains and with several side branches; main-net scripts at and above the real split height with loc max=1..12 after every few headers; "
         "non-trivial = at least 8 submissions",
    props_file="C19", extra=mainnet_locators, more_props=("C19Peer",),
    assumptions=["the peer is an external party: its protocol behaviour (getheaders: answer with the headers above the FIRST locator hash on its own chain, at most the limit; from above genesis when none is shared) is the specification `peerReply` of Props/C19Peer.lean, not code of this repository; the peer-side theorems compose that specification with the model's locator and are not run against a real peer (C13/C14's scripted peer answers the same way)"])

META = dict(
    technique="Lean 4 proof (induction over the back-off walk; de-duplication lemmas; `decide` over the extracted split table) + model/implementation correspondence",
    text="Theorems for every repository state and every max >= 1: no hash appears twice in the chain locator or the verify-only locator; de-duplication loses nothing; "
         "the walk takes at most max hashes from the best chain; genesis alone at height 0; above that the first entry is the tip's parent; the verify-only locator "
         "of the extracted main-net table is [BCH/BSV fork point, BTC fork point]; the wire parameters (5, 10, 3) are the extracted ones. For every state: every hash of the locator is a header the best chain holds at some height (or the tip of a height-0 chain), a fork point of the configured split table, or the lowest held header of a tracked side branch (C19_membership, C19_branch_membership), and the best-chain hashes come in strictly descending height (C19_newest_first).",
    note=COMMON_NOTE + "Peer-side clause (Props/C19Peer.lean): for every state, maximum, peer chain and limit, the first header of a per-protocol reply of a peer sharing any locator hash names a locator hash as its previous block, hence (C19_membership) a header we hold (C19_peer_reply_first_prev, C19_peer_reply_connects); the reply is a linked run (C19_peer_reply_linked); a peer holding our tip directly above our tip's parent answers the best branch's locator starting with our tip, whatever unshared hashes precede the parent in the locator (C19_peer_reply_starts_with_tip, C19_same_chain_peer_starts_with_tip). " + "Membership and order are theorems about the model (C19_membership, C19_newest_first) and checked on the implementation by the monitor.",
)
