"""Shared plugin code for the header-repository properties (C01, C03, C07-C12, C17, C19)."""
import subprocess

import brv
from engine import Spec, Stream
from monitors import hdr as mon

HDR_FUNCS = ["headers.Repository.ProcessHeader", "headers.Repository.sendBranchUpdate", "headers.Repository.consolidate",
             "headers.Repository.saveMainBranch", "headers.Repository.saveBranches", "headers.Repository.prune",
             "headers.Repository.load", "headers.Repository.clean", "headers.Repository.Save",
             "headers.Repository.MarkHeaderInvalid", "headers.Repository.MarkHeaderNotInvalid",
             "headers.Repository.CheckHeader", "headers.Repository.GetHeader", "headers.Repository.header",
             "headers.Repository.Hash", "headers.Repository.GetHeaders", "headers.Repository.HashHeight",
             "headers.Repository.PreviousHash", "headers.Repository.GetLocatorHashes",
             "headers.Repository.GetVerifyOnlyLocatorHashes", "headers.Repository.VerifyHeader",
             "headers.Repository.loadBranchHashHeights", "headers.Repository.loadHistoricalHashHeights",
             "headers.Branch.Add", "headers.NewBranch", "headers.Branch.AtHeight", "headers.Branch.Find",
             "headers.Branches.Find", "headers.Branches.Longest", "headers.Branch.IntersectHash",
             "headers.Branch.Consolidate", "headers.Branch.Truncate", "headers.Branch.Connect", "headers.Branch.Link",
             "headers.Branch.Trim", "headers.Branches.Trim", "headers.Branch.Prune", "headers.Branch.Reload",
             "headers.Branch.Save", "headers.LoadBranch", "headers.Branch.GetLocatorHashes", "headers.removeDuplicateHashes"]

COMMON_ASSUMPTIONS = [
    "hashes are abstract ids: SHA-256d is collision free on the headers used",
    "every exported Repository method holds the repository mutex for its whole body (lock shapes extracted into Facts.lockShapes), so concurrent callers are equivalent to some sequential history",
    "sort.Sort is modelled as a stable insertion sort, which it is for at most 12 elements: generated histories keep at most 12 live branches, longer locators are compared as sets",
    "storage.Storage writes/removes are atomic per key; the model's storage is at record granularity (header + accumulated work), the 112-byte record layout being the dependency's",
    "difficulty checks are disabled in generated histories (headers cannot be mined offline); bits/work rules are C02's",
]


def lock_static(facts):
    out = []
    for k, v in facts.get("lock_shapes", {}).items():
        if k.startswith("headers.Repository.") and v not in ("lock-defer", "late-lock-defer"):
            name = k.split(".")[-1]
            if name in ("HandleHeadersMessage", "VerifyMerkleProof", "GetNewHeadersAvailableChannel"):
                continue  # wrappers that call locked methods / manual lock of a two-line body
            out.append((f"lock-shape:{name}", f"{k} no longer holds the repository mutex for its whole body ({v})"))
    return out


def spine_scripts(kinds):
    """Long-chain scripts (the generator's random histories stay short): `autoclean` crosses the automatic clean at
    height 10000 — with the best branch a not yet consolidated side branch, or the root with stale forks —, `files`
    crosses the 1000-header file boundary twice and goes through Save / Load with a small depth / Clean."""
    import random

    def one(rnd, kind):
        out = ["init net=test maxdepth=144 diff=off split=on", "subscribe"]
        t = [1296689202]
        nid = [1]

        def hdr(prev, bits=486604799):
            i = nid[0]
            nid[0] += 1
            t[0] += 600
            out.append(f"hdr id={i} prev={prev} bits={bits} time={t[0]}")
            out.append(f"sub id={i}")
            return i
        main = [0]
        if kind == "outage":
            # a storage outage across the automatic clean at height 10000: the clean fails (its error is only
            # logged), every accepted header must still be announced, and the repository goes on afterwards
            upto = 10000 - rnd.randint(2, 6)
            for _ in range(upto):
                main.append(hdr(main[-1]))
            out.append("storefail on=1")
            for _ in range(rnd.randint(4, 9)):
                main.append(hdr(main[-1]))
            out.append("storefail on=0")
            for _ in range(3):
                main.append(hdr(main[-1]))
            side = [main[-3]]
            for _ in range(4):
                side.append(hdr(side[-1], 453050367))
            out.append("dump step=97")
            return out
        if kind == "autoclean":
            upto = 10000 - rnd.randint(3, 12)
            for _ in range(upto):
                main.append(hdr(main[-1]))
            if rnd.random() < 0.7:
                # a heavier side branch takes over just below 10000 and is extended across it
                best = [main[upto - rnd.randint(1, 6)]]
                for _ in range(rnd.randint(2, 8)):
                    best.append(hdr(best[-1], 453050367))
            else:
                # the root stays best; a stale fork hangs off it
                stale = [main[upto - rnd.randint(2, 8)]]
                for _ in range(rnd.randint(1, 3)):
                    stale.append(hdr(stale[-1]))
                best = main
            while True:
                best.append(hdr(best[-1]))
                if out[-1] and len(out) > 2 * 10030:
                    break
            out.append("dump")
            out.append(f"cleand d={rnd.choice([146, 150, 5000])}")
            out.append("dump step=97")
            for _ in range(3):
                best.append(hdr(best[-1]))
            out.append("dump step=89")
        elif kind == "shrink":
            # the best chain is saved with its tip in main file k+1, then SHRINKS back into file k - a header just
            # below the boundary is marked invalid, or a shorter chain with more work takes over - and the next Save /
            # Clean is cut at every write: the main file of the old tip is removed before the branch file is rewritten
            k = rnd.choice([1, 1, 2])
            n = 1000 * k + rnd.randint(2, 25)
            for _ in range(n):
                main.append(hdr(main[-1]))
            out += ["save", "dump step=211"]
            j = rnd.randint(1, 6)
            if rnd.random() < 0.5:
                out.append(f"mark id={main[1000 * k - j]}")
                main = main[:1000 * k - j]
            else:
                fork = [main[1000 * k - j - 3]]
                for _ in range(2):
                    fork.append(hdr(fork[-1], 453050367))
                main = main[:1000 * k - j - 2] + fork[1:]
            for _ in range(rnd.randint(0, 2)):
                main.append(hdr(main[-1]))
            out.append("dump step=211")
            out.append(f"crashsave ld={rnd.choice([146, 300])}" if rnd.random() < 0.6 else f"crashclean d=160 ld={rnd.choice([146, 300])}")
            out += ["save", "load", "dump step=211"]
        else:
            n = 2100 + rnd.randint(0, 300)
            for _ in range(n):
                main.append(hdr(main[-1]))
            side = [main[n - rnd.randint(2, 40)]]
            for _ in range(rnd.randint(1, 4)):
                side.append(hdr(side[-1]))
            out += ["dump", "save", f"loadd d={rnd.choice([146, 150, 400, 1100])}", "dump step=37"]
            for _ in range(3):
                main.append(hdr(main[-1]))
            out += [f"cleand d={rnd.choice([146, 160, 1200])}", "dump step=41"]
            main.append(hdr(main[-1]))
            side.append(hdr(side[-1]))
            out += [f"crashsave ld={rnd.choice([146, 300])}", "save", "load", "dump step=1000"]
        return out

    def extra(seed, tier):
        rnd = random.Random(seed * 7919 + 13)
        out = []
        reps = 1 if tier == "quick" else 3
        for kind in kinds:
            for _ in range(reps):
                out += one(rnd, kind)
        return "\n".join(out) + "\n"
    return extra


def make_gen(profiles, quick_n, thorough_n, extra=None):
    """profiles: list of (profile, weight). Scripts are split between them."""
    def gen(seed, tier, out):
        total = quick_n if tier == "quick" else thorough_n
        wsum = sum(w for _, w in profiles)
        with open(out, "w") as f:
            for i, (p, w) in enumerate(profiles):
                n = max(1, total * w // wsum)
                subprocess.run([str(brv.BIN / "hdr"), "gen", str(seed * 131 + i), str(n), tier, p], stdout=f, check=True)
            if extra:
                f.write(extra(seed, tier))
    return gen


def make_monitor(prefixes):
    def monitor(script):
        return [(sig, text) for sig, text in mon.monitor(script) if sig.split(":", 1)[0] in prefixes]
    return monitor


def hdr_spec(prop, title, prefixes, profiles, rule, props_file, quick_n=160, thorough_n=4000, extra=None,
             assumptions=(), partial_note="", static=None, more_props=()):
    def static_checks(facts):
        res = lock_static(facts)
        if static:
            res += static(facts)
        return res
    return Spec(
        prop=prop, title=title, go_bins=["hdr"],
        lean_targets=[f"BRV.Props.{prop}"] + [f"BRV.Props.{m}" for m in more_props] + ["drv_hdr"],
        props_files=[brv.LEAN / f"BRV/Props/{prop}.lean"] + [brv.LEAN / f"BRV/Props/{m}.lean" for m in more_props],
        streams=[Stream("hdr", "hdr", "drv_hdr", make_gen(profiles, quick_n, thorough_n, extra),
                        monitor=make_monitor(prefixes), nontrivial=mon.nontrivial, timeout=1500)],
        rule=rule, assumptions=list(COMMON_ASSUMPTIONS) + list(assumptions),
        modelled_funcs=HDR_FUNCS, static_checks=static_checks, partial_note=partial_note)


GEN_RULE = ("seeded header histories over a generator that tracks which headers will be accepted: extensions, forks at recent/old "
            "headers, bursts that overtake (sibling, cousin, forks of forks), duplicates, orphans, out-of-order arrival, children of "
            "refused headers, MaxBranchDepth in {0,1,2,5,144}, four work classes plus malformed bits; ")
