from hdrcommon import GEN_RULE, hdr_spec
from meta import COMMON_NOTE

SPEC = hdr_spec(
    "C08", "Each header submission gets the reference verdict and a refusal changes nothing",
    prefixes={"C08"}, profiles=[("refuse", 6), ("submit", 2), ("mixed", 2)],
    rule=GEN_RULE + "adversarial submissions (orphan, duplicate of any known header, fork far below the tip, fork exactly at / one beyond the "
         "depth limit, child of a refused header) each bracketed by full dumps of every read API; non-trivial = at least 8 submissions",
    props_file="C08")

META = dict(
    technique="Lean 4 proof (decision logic of the pre-mutation checks, for every repository state; converse direction via the inductive invariant over submission histories) + model/implementation correspondence",
    text="Theorems for EVERY repository state, header and hash outcome: a refusing verdict leaves every field of the repository unchanged and announces "
         "nothing (the model separates all checks from the mutation, as the code does; the check order is tied to the source by the extracted sentinel order); "
         "an accepted header satisfied every rule (bits, work, parent held, not held, split rules, DAA bits, not marked, fork depth); already-known and too-deep "
         "answers; resubmission n times is the identity. For every state reached by submissions from genesis (invariant StreamWF): a header that passes every "
         "rule IS accepted - no internal error (parent lookup, work conversion, Longest(), branch update) can intervene (C08_passed_is_accepted) - and after "
         "acceptance re-submitting it any number of times is answered already-known and changes nothing (C08_accepted_then_known). The correspondence compares verdict, tip, subscriber stream and full read-API dumps after every op. In the linear world, also with most of the chain pruned from memory and at any generation, a submission is either refused without effect or accepted, announced once and appended as the new tip (C08_linear_step).",
    note=COMMON_NOTE + "The reference verdict for 'accepted' additionally depends on C02 (work/bits) and on the accepted tree being what the lookups say (C09).",
)
