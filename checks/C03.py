import brv
from hdrcommon import GEN_RULE, hdr_spec
from meta import COMMON_NOTE


def reconnect_script(rnd):
    """forks just below the split height, a reorganisation, then non-BSV headers offered at the split height on
    every tip: all must be refused as wrong chain. (A Clean cannot be staged here: a MockLatest repository has no
    main-chain files below the mocked header, and 556766 real headers per script are out of reach; that the heights
    used by the rule stay true across Clean's Connect/Truncate is C09's and C10's check.)"""
    out = ["init net=main maxdepth=144 diff=off split=on"]
    base = 556767 - rnd.randint(5, 9)
    t = 1542300000
    nid = [1]

    def hdr(prev, bits=486604799):
        i = nid[0]
        nid[0] += 1
        out.append(f"hdr id={i} prev={prev} bits={bits} time={t + 600 * i}")
        return i
    root = hdr(77777)
    out.append(f"latest id={root} height={base} work=1000000")
    # main chain up to 556766
    main = [root]
    for _ in range(556766 - base):
        main.append(hdr(main[-1]))
        out.append(f"sub id={main[-1]}")
    # a side fork that also ends at 556766
    fk = rnd.randint(1, len(main) - 3)
    side = [main[fk]]
    for _ in range(len(main) - 1 - fk):
        side.append(hdr(side[-1]))
        out.append(f"sub id={side[-1]}")
    # a heavier branch lower down takes over (reorganisation), below the split height
    fh = rnd.randint(0, fk)
    heavy = [main[fh]]
    for _ in range(rnd.randint(1, 2)):
        heavy.append(hdr(heavy[-1], 453050367))
        out.append(f"sub id={heavy[-1]}")
    out.append("dump")
    for tip in (side[-1], main[-1]):
        f = hdr(tip)
        out.append(f"sub id={f}")
    out.append("dump")
    return out


def split_scripts(seed, tier):
    """main-net scripts at the real BCH/BSV split height (MockLatest at 556766 with the real header)."""
    import random
    rnd = random.Random(seed)
    out = []
    n = 40 if tier == "quick" else 600
    for i in range(n):
        if rnd.random() < 0.25:
            out += reconnect_script(rnd)
            continue
        split = "on" if rnd.random() < 0.8 else "off"
        out.append(f"init net=main maxdepth={rnd.choice([0, 2, 144])} diff=off split={split}")
        out.append("hdrreal name=before")
        out.append("latest id=900003 height=556766 work=1000000")
        out.append("hdrreal name=bch")
        out.append("hdrreal name=bsv")
        nid = 1
        live = [900003]
        ops = []
        for _ in range(rnd.randint(3, 14)):
            k = rnd.random()
            if k < 0.25:
                ops.append(f"sub id={rnd.choice([900004, 900005])}")
                if ops[-1].endswith("900005") and split == "on":
                    live.append(900005)
            elif k < 0.55:
                # some other header at the split height or above, on any held parent
                p = rnd.choice(live)
                ops.append(f"hdr id={nid} prev={p} bits=486604799 time={1542305000 + nid}")
                ops.append(f"sub id={nid}")
                if p != 900003 or split == "off":
                    live.append(nid)
                nid += 1
            elif k < 0.7:
                ops.append(f"verify id={rnd.choice([900003, 900004, 900005] + list(range(1, max(2, nid))))}")
            elif k < 0.8:
                ops.append("vloc")
            elif k < 0.9:
                ops.append(f"loc max={rnd.choice([1, 3, 10])}")
            else:
                # a header directly on the real genesis (unknown parent in a MockLatest repository)
                ops.append(f"hdr id={nid} prev=0 bits=486604799 time=1231006600")
                ops.append(f"sub id={nid}")
                nid += 1
        out += [o for o in ops if not o.startswith("verify id=") or int(o.split("=")[1]) >= 900000 or int(o.split("=")[1]) < nid]
        out.append("dump")
    return "\n".join(out) + "\n"


SPEC = hdr_spec(
    "C03", "Only the BSV chain is followed: foreign-chain headers and peers are refused",
    prefixes={"C03"}, profiles=[("submit", 1)], quick_n=20, thorough_n=200, extra=split_scripts,
    rule=GEN_RULE + "plus main-net scripts at the real split: MockLatest with the real header 556766, then the real BSV header, the real BCH header, "
         "arbitrary other headers at 556767 and above, VerifyHeader on each, with split protection on and off; non-trivial = at least 8 submissions",
    props_file="C03",
    assumptions=["the BTC split (478559) cannot be staged with real headers offline: it is covered by the theorems over the extracted table and by the same code path as the BCH entry",
                 "the node-side leg (verified only if the first header of the verification reply is the BSV header) is C13's"])

META = dict(
    technique="Lean 4 proof (decision logic over the split table extracted from the source) + model/implementation correspondence on the real split headers",
    text="Theorems for every repository state: at the required split's height only the required (BSV) header passes the checks, on any branch; a foreign split "
         "header is refused as wrong-chain at its height and when its parent is unknown; VerifyHeader = ok iff the header is the required one, foreign ones are "
         "named wrong-chain; the BSV header violates neither rule of the extracted table; the table itself (names, heights, shared fork point, DAA height) is "
         "re-proved by `decide` against Facts regenerated from splits.go on every run.",
    note=COMMON_NOTE + "The height used by the rule is the one found for the parent in the branch maps; that it is the true height is C09's invariant.",
)
