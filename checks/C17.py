from hdrcommon import GEN_RULE, hdr_spec
from meta import COMMON_NOTE

SPEC = hdr_spec(
    "C17", "A header marked invalid, and everything built on it, is excluded until unmarked",
    prefixes={"C17"}, profiles=[("mark", 7), ("mixed", 3)],
    rule=GEN_RULE + "marks of headers on the best chain at any depth, on side branches, first headers of branches, unseen hashes, repeated marks, "
         "re-submission of marked headers, unmark + re-submission, interleaved with Clean (small prune depths), Save and Load; full dumps around every mark; "
         "non-trivial = at least 8 submissions",
    props_file="C17",
    partial_note="exclusion of the marked header and of everything built on it, and the fallback to the heaviest remaining chain, are theorems for states reached by "
                 "submissions (C17_marked_excluded); after Clean/Save/Load (pruned or consolidated forests) they are checked by the correspondence + monitor; marks at or "
                 "below the in-memory window are the known finding deep-mark-ineffective.")

META = dict(
    technique="Lean 4 proof (invalid-list rules for every state, idempotence, persistence merge; specification of Branches.Trim and exclusion of the marked subtree over submission histories) + model/implementation correspondence",
    text="Theorems for every repository state: while a hash is in the invalid list no submission of it is ever added (and it is answered exactly 'marked invalid' when "
         "no earlier rule refuses); marking records the hash, is idempotent, and for an unknown hash changes nothing but the list (in memory and storage); unmarking removes it; "
         "Save writes the list and Load installs storage's list merged with the configured hashes. For every state reached by submissions from genesis (C17_marked_excluded, C17_best_chain_excludes): after a successful mark of a held header the chain of NO "
         "tracked branch - in particular the reported best chain - passes through the marked header (hence nothing built on it is reported either: Branches.Trim drops exactly the "
         "branches hanging, directly or through other branches, off the trimmed part - fold specification trimFold_spec), and the reported tip is a tracked branch of maximal "
         "accumulated work among the remaining ones. With Clean/Save/Load before the mark the same is checked on the implementation by the monitor at every dump. From the repository Load builds out of any consistent storage image, after any forest history of submissions (automatic cleans included), Cleans/Saves with no reorganisation pending, marks and unmarks, the tracked forest stays well linked and the tip is a branch of maximal work among those that remain (C17_fallback_after_load). With no hash twice in the indexed files (StoreUniq, executable test proved sound and evaluated on every loaded image) the exclusion itself holds from any loaded state: after a successful mark the chain of no tracked branch passes through the marked header (C17_marked_excluded_after_load, identities IdOK preserved by submissions, Clean, Trim), whether or not the hash was already in the list (configured hashes, exercised with the cfginv op; the stored list is observed after every mark / unmark).",
    note=COMMON_NOTE + "Known finding: marks at or below the in-memory window (prune depth) are ineffective by design of the repository; see known_findings.txt.",
)
