from hdrcommon import GEN_RULE, hdr_spec
from meta import COMMON_NOTE

SPEC = hdr_spec(
    "C17", "A header marked invalid, and everything built on it, is excluded until unmarked",
    prefixes={"C17"}, profiles=[("mark", 7), ("mixed", 3)],
    rule=GEN_RULE + "marks of headers on the best chain at any depth, on side branches, first headers of branches, unseen hashes, repeated marks, "
         "re-submission of marked headers, unmark + re-submission, interleaved with Clean (small prune depths), Save and Load; full dumps around every mark; "
         "non-trivial = at least 8 submissions",
    props_file="C17")

META = dict(
    technique="Lean 4 proof (invalid-list rules for every state, idempotence, persistence merge) + model/implementation correspondence",
    text="Theorems for every repository state: while a hash is in the invalid list no submission of it is ever added (and it is answered exactly 'marked invalid' when "
         "no earlier rule refuses); marking records the hash, is idempotent, and for an unknown hash changes nothing but the list (in memory and storage); unmarking removes it; "
         "Save writes the list and Load installs storage's list merged with the configured hashes. Exclusion of descendants from the best chain / fallback to the heaviest "
         "remaining chain are checked on the implementation by the monitor at every dump (partial: not yet a theorem).",
    note=COMMON_NOTE + "Known finding: marks at or below the in-memory window (prune depth) are ineffective by design of the repository; see known_findings.txt.",
)
