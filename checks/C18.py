from hdrcommon import GEN_RULE, hdr_spec
from meta import COMMON_NOTE

SPEC = hdr_spec(
    "C18", "A merkle proof verifies only if it ties the transaction to a known header",
    prefixes={"C18"}, profiles=[("proof", 3), ("proofmark", 2)],
    rule=GEN_RULE + "every header commits to a block of 1..33 transactions; proofs are produced by the dependency's real MerkleTree for every width and position, given with "
         "header or with block hash only, for blocks on the best chain, on side branches, in pruned history and for headers never accepted, honest or with one corruption "
         "(txid, one path element, index shifted by +-1, +-2^k, header of another block, unknown hash, no header at all); non-trivial = at least 8 submissions",
    props_file="C18",
    assumptions=["SHA-256d is modelled as a free term algebra (injective, inner nodes never equal leaves): 'alteration => failure' transfers to the real hash under collision resistance",
                 "MerkleProof.Verify/CalculateRoot are the dependency's, modelled line by line (Model/Merkle.lean) and tied by the merkle (C04) and hdr correspondences"])

META = dict(
    technique="Lean 4 proof (soundness of verifyMerkleProof; the root determines txid and index over the free hash algebra) + model/implementation correspondence with real proofs",
    text="Theorems for every repository state and every proof: a verified proof is about the header the repository located (supplied header checked by CheckHeader, or the header "
         "GetHeader holds for the block hash), its index is inside the tree and its path recomputes that header's merkle root; unknown header/hash and proofs without a block fail; "
         "two verifying proofs about the same header with the same path and duplicate markers have the same txid and the same index, and with the same index and "
         "markers the same path (so altering the txid, the index or any path element makes it fail). Height and flag are the lookup's (C09).",
    note=COMMON_NOTE + "The 64-byte-transaction ambiguity (a txid equal to an inner node) is outside the ideal-hash model.",
)
