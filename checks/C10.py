from hdrcommon import GEN_RULE, hdr_spec
from meta import COMMON_NOTE

SPEC = hdr_spec(
    "C10", "Clean (consolidate, save, prune) never changes what the repository reports",
    prefixes={"C10"}, profiles=[("clean", 8), ("mixed", 2)],
    rule=GEN_RULE + "Clean at arbitrary positions (right after reorgs, with several side branches on old and new best chain, several consolidated generations, small prune "
         "depths and the real one) always bracketed by full dumps that must be identical; submissions continue afterwards; non-trivial = at least 8 submissions",
    props_file="C10", thorough_n=5000,
    assumptions=["chains crossing the 1000-header file boundary and the real 10000 prune depth / automatic clean at height % 10000 are exercised in the thorough tier only (long spine scripts)"],
    partial_note="observational equivalence of Clean is checked on every generated history, not yet proved.")

META = dict(
    technique="Lean 4 proof (prune preservation, consolidation fixed point, extracted call order) + model/implementation correspondence on dump;clean;dump",
    text="Theorems for every repository state: pruning keeps the tip height and every retained height readable unchanged and does not touch tip pointer, height map or "
         "invalid list; consolidate is a no-op once the best branch is the oldest; the clean sequence and constants are the extracted ones. "
         "Every generated Clean is bracketed by full dumps compared by the monitor, and the model (which follows Consolidate/Truncate/Connect/Prune line by line) is compared with the code.",
    note=COMMON_NOTE + "Partial: see evidence.",
)
