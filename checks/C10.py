from hdrcommon import GEN_RULE, hdr_spec, spine_scripts
from meta import COMMON_NOTE

SPEC = hdr_spec(
    "C10", "Clean (consolidate, save, prune) never changes what the repository reports",
    prefixes={"C10"}, profiles=[("clean", 8), ("mixed", 2)],
    rule=GEN_RULE + "Clean at arbitrary positions (right after reorgs, with several side branches on old and new best chain, several consolidated generations, small prune "
         "depths and the real one) always bracketed by full dumps that must be identical; submissions continue afterwards; non-trivial = at least 8 submissions",
    props_file="C10", extra=spine_scripts(['autoclean', 'files']), thorough_n=5000,
    assumptions=["chains crossing the 1000-header file boundary and the real 10000 prune depth / automatic clean at height % 10000 are exercised in the thorough tier only (long spine scripts)"],
    partial_note="observational equivalence of Clean is a theorem when the best branch is the root branch (no reorganisation pending) in a repository reached by submissions: "
                 "tip, Header/Hash at every height >= 0 (from memory or from the files Clean wrote), height and most-work-chain flag of every hash, all branches kept "
                 "(C10_clean_root_reads / _headerAt / _checkHeader). With a pending reorganisation Clean consolidates first (Truncate/Connect/reload): that case, repeated "
                 "Cleans on already-pruned forests, and 'side branches can still be extended and overtake afterwards' are checked on every generated history, not proved. "
                 "In the LINEAR WORLD (Proofs/LinearWorld: every history of tip-extending submissions of any length — across 1000-header file boundaries, the 10000-header prune depth and the automatic clean every 10000 heights — interleaved with Cleans, Saves and Loads of any depth, any number of generations) Clean with any depth at any point, any number of times, leaves tip, header at every height and height of every hash unchanged (C10_linear_world; "
                 "no NoAutoClean hypothesis: the automatic clean is part of the step theorem).")

META = dict(
    technique="Lean 4 proof (observational equivalence of Clean for root-best repositories: prune specification, file layout of saveMainBranch, lookups by hash; prune preservation, consolidation fixed point, extracted call order) + model/implementation correspondence on dump;clean;dump",
    text="Theorems for every repository state: pruning keeps the tip height and every retained height readable unchanged and does not touch tip pointer, height map or "
         "invalid list; consolidate is a no-op once the best branch is the oldest; the clean sequence and constants are the extracted ones. For every repository reached by submissions from genesis whose best branch is the root, and every prune "
         "depth >= 0: a successful Clean keeps every branch, prunes only the root up to a height P <= tip - depth that is at most every fork point, writes header k of the "
         "best chain as record k % 1000 of file k / 1000 (saveMain_files), and changes no observation: tip height/hash/work, Header(k)/Hash(k) for every k >= 0 (memory or files), "
         "HashHeight and CheckHeader (height + most-work-chain flag) of EVERY hash, pruned or not. "
         "Every generated Clean is bracketed by full dumps compared by the monitor, and the model (which follows Consolidate/Truncate/Connect/Prune line by line) is compared with the code. In the linear world (every fork-free history of any length, incl. the automatic clean, earlier Cleans/Saves/Loads) Clean with any depth, any number of times, changes no observation (C10_linear_world).",
    note=COMMON_NOTE + "Partial: see evidence.",
)
