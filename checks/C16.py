import subprocess

from meta import COMMON_NOTE

import brv
from engine import Spec, Stream
from monitors import blkdl as mon
from monitors import node as mon_node


def gen_dl(seed, tier, out):
    n = 600 if tier == "quick" else 20000
    with open(out, "w") as f:
        subprocess.run([str(brv.BIN / "blkdl"), "gen", str(seed), str(n), tier], stdout=f, check=True)


def gen_mgr(seed, tier, out):
    n = 120 if tier == "quick" else 2500
    with open(out, "w") as f:
        subprocess.run([str(brv.BIN / "blkmgr"), "gen", str(seed), str(n), tier], stdout=f, check=True)


def gen_node(seed, tier, out):
    n = 120 if tier == "quick" else 2500
    with open(out, "w") as f:
        subprocess.run([str(brv.BIN / "node"), "gen", str(seed), str(n), tier, "c16"], stdout=f, check=True)


def gen_race(seed, tier, out):
    """monitor-only scripts: two downloads of one block finish at the same moment (`deliver2`), request after request,
    so that the second success report reaches the manager while it is moving on to the next request."""
    import random
    rnd = random.Random(seed * 977 + 5)
    n = 12 if tier == "quick" else 150
    with open(out, "w") as f:
        for _ in range(n):
            k = rnd.randint(4, 10)
            conc = rnd.choice([2, 2, 3])
            f.write(f"init conc={conc}\npolicy accept={4 * k * conc}\n")
            for h in range(1, k + 1):
                f.write(f"add h={h}\n")
            for i in range(k):
                f.write(f"deliver2 d={conc * i} e={conc * i + 1}\n")
            f.write("end\n")


def static_checks(facts):
    """facts the harnesses / monitors rely on besides the Lean theorems (which use Facts.* directly)."""
    ints = facts.get("ints", {})
    strs = facts.get("strs", {})
    out = []
    for k, want in (("startedCap", 2), ("completeCap", 2)):
        if ints.get(k) != want:
            out.append((f"fact:{k}", f"{k} is {ints.get(k)}, not {want}: with fewer than 2 slots a send on Started/Complete can block "
                                     "(C16_no_send_blocks needs 2 <= capacity; the handler and the first canceller both send)"))
    if ints.get("requestsCap") != 10:
        out.append(("fact:requestsCap", f"BlockManager.requests capacity is {ints.get('requestsCap')}; the blkmgr harness assumes 10"))
    if ints.get("requestCompleteCap") != 0:
        out.append(("fact:requestCompleteCap", "the request's complete channel is no longer unbuffered; the manager model's one-step abort signal must be revisited"))
    if strs.get("cancelWaitOp") != ">=" or strs.get("noDownloadOp") != ">":
        out.append(("fact:compare-op", f"give-up comparisons changed: count {strs.get('cancelWaitOp')} limit, countWithoutActiveDownload {strs.get('noDownloadOp')} limit; the models hard-code >= and >"))
    return out


SPEC = Spec(
    prop="C16",
    title="Block download requests always terminate, exactly once, under every interleaving",
    go_bins=["blkdl", "blkmgr", "node"],
    lean_targets=["BRV.Props.C16", "BRV.Props.C16Node", "drv_blkdl", "drv_blkmgr", "drv_node"],
    props_files=[brv.LEAN / "BRV/Props/C16.lean", brv.LEAN / "BRV/Props/C16Node.lean"],
    streams=[
        Stream("blkdl", "blkdl", "drv_blkdl", gen_dl, monitor=mon.monitor, nontrivial=mon.nontrivial, timeout=900),
        Stream("blkmgr", "blkmgr", "drv_blkmgr", gen_mgr, monitor=mon.monitor_mgr, nontrivial=mon.nontrivial_mgr, timeout=1800),
        Stream("node", "node", "drv_node", gen_node, monitor=mon_node.monitor_c16, nontrivial=mon_node.nontrivial_c16, timeout=1500),
        Stream("blkrace", "blkmgr", "drv_blkmgr", gen_race, monitor=mon.monitor_mgr, nontrivial=mon.nontrivial_mgr, compare=False,
               timeout=900, describe="two simultaneous successful downloads of the same block, request after request (monitor only: the order of the two reports is a real race)"),
    ],
    rule="blkdl: EVERY call-granularity interleaving of {Run} x {HandleBlock start, tx, end of stream[, confirmations]} x every multiset of "
         "<= 2 (quick) / <= 3 (thorough) of {Cancel(peer says started), Cancel(not started), Stop, interrupt}, plus variants (no canceller, wrong block, "
         "bad merkle root, short stream, ProcessTx / confirmation failure, handler never called) and seeded random longer scripts; after each call the "
         "harness waits until every goroutine is parked (goroutine dump) and reports Run's result, len(Started), len(Complete), HandleBlock's state; "
         "at the end no goroutine may be parked in block_downloader.go. A script is non-trivial if Run is called and at least one other party acts. "
         "blkmgr: real BlockManager (1 ms delay, concurrentBlockRequests 0..4) with a scripted requestor: for 1..4 concurrent downloaders of one block every order in which they "
         "finish or fail (peer stops / wrong block / stream cut), plus seeded scripts of AddRequest, budget changes, deliver, fail, abort, interrupt; observed at rest: "
         "terminal signals per request, registry size, Run alive; non-trivial = at least one request and one of deliver/fail/abort/interrupt. "
         "node (node side of a request, real BitcoinNode over loopback TCP with a scripted peer, component `node`): RequestBlock / RequestHeaders / CancelBlockRequest / IsBusy / IsStopped and the onStop "
         "callback around a requested block delivered whole (classic / extended), in pieces cut inside the header, after it, after the count, inside and between transactions, after a wrong block, or never; "
         "cancels before the block message, after the header, mid-stream, after completion, for another hash; second requests while busy; peer drop at each point; the handler given to RequestBlock "
         "records started / count / transactions / return; non-trivial = a request and >= 6 ops.",
    assumptions=[
        "HandleBlock is called at most once per BlockDownloader and Run once (this is how block_manager.go/bitcoin_node.go use them); the model's hStart is enabled only while the handler is idle",
        "a stateLock critical section is one atomic step; Go channels are FIFO with the capacity extracted from NewBlockDownloader (Facts.startedCap/completeCap); select takes any ready case",
        "liveness (Run returns) is under: timers eventually fire; the handler, once called, reaches its end (the node closes the tx stream, TxProcessor calls return); "
        "a canceller that answers 'already started' has called or will call HandleBlock. Where the last fails (bitcoin_node.go: CancelBlockRequest sees blockReader set while "
        "handleBlock then fails reading the tx count) Run is released only by the 1 h / 60 x 10 s timers (case 5 of C16_run_progress)",
        "manager: the requester receives from the complete channel it was given (the BlockAborted send is unbuffered); each downloader's Run eventually returns (the downloader theorems) — "
        "dlReturn is an environment step of the manager model; the harness realises only schedules in which a tick does not race with a completion (the scripted requestor refuses "
        "requests for a block while that block is being delivered); the model and its theorems cover the race",
        "NOT exercised against the implementation: the literal timers time.After(2 min), time.After(1 h), 60 x time.After(10 s) in block_downloader.go (the model has them as nondeterministic steps; the harness never waits for them), "
        "interleavings finer than call granularity (covered by the proofs only)",
        "node stream: CancelBlockRequest / RequestBlock are called while the node is quiescent (the scripted peer has sent what it sends and the node waits for input), i.e. a stalled download is "
        "a peer that sent part of the block and nothing more; a cancel racing with bytes in flight is not exercised. A CancelBlockRequest that has not returned after 300 ms is reported as `hung` "
        "(what the code did before fix 7843a17). The handler given to RequestBlock returns nil iff it received as many transactions as announced (as BlockDownloader.handleBlock does for a short stream)",
    ],
    static_checks=static_checks,
    partial_note="node side: theorems are about the model of RequestBlock / CancelBlockRequest / completeBlock / handleBlock / run()'s onStop call (Props/C16Node.lean); not covered by theorem or run: "
                 "HasBlock, a cancel racing with bytes in flight (the harness cancels only while the node is quiescent), the literal timers (2 min, 1 h, 60 x 10 s)",
    modelled_funcs=["BlockManager.AddRequest", "BlockManager.Run", "BlockManager.processRequest", "BlockManager.requestBlock", "BlockManager.cancelDownloaders",
                    "BlockManager.removeDownloader", "BlockManager.markBlockRequestComplete", "downloadFinisher.onDownloaderCompleted", "BlockManager.Stop",
                    "BlockManager.shutdown", "BlockManager.close", "NewBlockManager",
                    "BlockDownloader.Run", "BlockDownloader.cancelAndWaitForComplete", "BlockDownloader.Stop", "BlockDownloader.Cancel",
                    "BlockDownloader.HandleBlock", "BlockDownloader.handleBlock", "NewBlockDownloader",
                    "BitcoinNode.RequestBlock", "BitcoinNode.CancelBlockRequest", "BitcoinNode.RequestHeaders", "BitcoinNode.IsBusy",
                    "BitcoinNode.handleBlock", "BitcoinNode.completeBlock", "BitcoinNode.run"],
)

META = dict(
    technique="Lean 4 proof (two small-step transition systems, inductive invariants proved per transition = all interleavings of any length, N downloaders a variable) "
              "+ model/implementation correspondence at call granularity with exact quiescence detection",
    text="Downloader (Run, HandleBlock, any number of Cancel/Stop callers, interrupt, timers; channels = bounded FIFO with the extracted capacities): for every reachable state "
         "no send on Started/Complete can block (counting invariant: only the handler and the first canceller ever send), whatever is owed after Run returned can be delivered, "
         "Run is never starved (it waits only for the handler's stream, or for a timer in two precisely characterised situations), every schedule is finite (decreasing measure), "
         "Run returns once and returns nil only if HandleBlock ran to its end with nil. Manager (queue, registry of N downloaders finishing/failing in any order): a request id is signalled at most once and, "
         "while Run lives, every request is signalled, current or queued; a closed signal is preceded by an effective mark caused by a downloader that returned nil for that hash while it was current; "
         "uncancelled downloads <= max(concurrentBlockRequests,1), all of the current block; a registry with no pending return/finish step is empty. "
         "Both models are tied to block_downloader.go / block_manager.go by exhaustive call-granularity interleavings and scripted-requestor runs against the real code. "
         "Node side (Props/C16Node.lean, 12 theorems about the connection model of Model/Node.lean + Model/Wire.lean): CancelBlockRequest answers true iff the request is for this hash, its block message has begun "
         "and the handler thread was started - in every reachable state that means the handler was called and has not returned; a cancel before the block message keeps the request (node stays busy) and the later block "
         "message is skipped to exactly its length; an in-progress cancel closes the connection, disarms onStop and gives a started handler the end of its stream; RequestBlock while busy is refused and changes nothing; "
         "onStop is invoked at the end of run() at most once, only for an outstanding, uncancelled request whose handler was not started, and always for such a request. Tied to bitcoin_node.go / handlers.go by the `node` "
         "stream: a scripted peer delivering the requested block whole, in pieces cut at every kind of position, wrong, or never, with cancels and peer drops at each point, incl. a peer drop DURING a cancel (closecancel). Two simultaneous successful downloads of one block (monitor-only stream blkrace). The mutex / channel / callback discipline of 23 functions is regenerated from the source (C16_sync_traces_in_source).",
    note=COMMON_NOTE + "The downloader model is nondeterministic; the driver tracks the set of model states compatible with the observations and rejects an observation the model does not allow. "
         "Timers (2 min, 1 h, 60 x 10 s) are literals in the code and are not exercised; interleavings finer than a call are covered by the proofs only. "
         "Findings, none a C16 violation: (1) Stop between the handler's Started and Run consuming it makes Run return 'cancelled' while the handler may still confirm the block "
         "(corpus/C16/blkdl-stop-before-run-consumes.ops, theorem C16_note_cancelled_yet_confirmed) - relevant to C05; (2) found by the node stream and repaired in /repo: CancelBlockRequest blocked on a stalled download holding the node lock (7843a17), answered 'already started' before HandleBlock was called (3cf55e1), "
         "a recovered panic in handleBlock left the handler parked on its channel (3c351de), a peer drop between block header and tx count gave no terminal signal (6b52a4a); regression corpus/C16/node-*.ops; (3) the first requestBlock of a request ignores the registry: "
         "with concurrentBlockRequests=0 one download still runs, and a re-request of a hash whose cancelled download still lingers exceeds the configured count in the registry.",
)
