import subprocess

from meta import COMMON_NOTE

import brv
from engine import Spec, Stream
from monitors import node as mon
from monitors import mgr as mon_mgr


def gen(seed, tier, out):
    n = 400 if tier == "quick" else 8000
    with open(out, "w") as f:
        subprocess.run([str(brv.BIN / "node"), "gen", str(seed), str(n), tier, "c13"], stdout=f, check=True)


def gen_mgr(seed, tier, out):
    n = 160 if tier == "quick" else 3000
    with open(out, "w") as f:
        subprocess.run([str(brv.BIN / "mgr"), "gen", str(seed), str(n), tier, "c13"], stdout=f, check=True)


def _static(facts):
    bad = []
    touching = {"handleHeadersTrack", "handleAddress", "handleGetAddresses", "handleInventory", "handleTx", "handleBlock"}
    for e in facts.get("pre_accept_handlers", []) or []:
        h = e.get("Handler") or e.get("handler")
        if h in touching:
            bad.append((f"pretable:{h}", f"NewBitcoinNode installs {h} for {e.get('Cmd') or e.get('cmd')}: reachable by an unverified peer"))
    return bad


SPEC = Spec(
    prop="C13",
    title="A peer can do nothing before it is verified",
    go_bins=["node", "mgr"],
    lean_targets=["BRV.Props.C13", "drv_node", "drv_mgr"],
    props_files=[brv.LEAN / "BRV/Props/C13.lean"],
    streams=[
        Stream("node", "node", "drv_node", gen, monitor=mon.monitor_c13, nontrivial=mon.nontrivial),
        Stream("mgr", "mgr", "drv_mgr", gen_mgr, monitor=mon_mgr.monitor_c13, nontrivial=mon_mgr.nontrivial, timeout=900),
    ],
    rule="seeded scripts of a scripted peer against a real BitcoinNode (RunWithConn over loopback TCP, worker process): "
         "0-4 probes before the handshake, version/verack in every order with repeats, 0-5 probes while unverified, then a good / "
         "wrong-chain / empty / missing verification reply, then probes again; probes = addr, inv, tx, ext tx, block, ext block, "
         "unknown ext, getaddr, ping, pong, reject, getheaders, protoconf; configs verify-only x tx manager x alternate header handler; "
         "non-trivial = >= 5 ops incl. a message; distinct = distinct op text. "
         "Stream `mgr` (request routing): a real NodeManager whose node list (hook VerifAddNode) holds 0-8 real BitcoinNodes, each run over its own net.Pipe connection to a scripted peer; "
         "per node a stage: fresh / handshake only / verification failed / ready / busy (RequestBlock made directly) / stopped (Stop or peer hang-up, before or after verification), changed in mid-script "
         "(a ready node stops, a handshake-only node verifies, a busy node's block is delivered, new nodes are appended); announced last headers (chain, sibling, unknown, empty message) so that HasBlock decides; "
         "routing calls RequestHeaders / RequestTxs (real TxManager fed by AddTxID, 20 ms request timeout) / RequestBlock / SendTx, in bursts that wrap the offset several times, with nobody available, "
         "with stopped nodes inside the scan, and (9 %) with one node inside the window between Stop() and the end of its run() so that the call meets ErrChannelClosed and retries; hostile bytes on one connection. "
         "The scripted peers report what they received (the node's own verify / initial getheaders are told apart from a routed one by the locator), the harness reports the manager's scan state (VerifNodes); "
         "the flags read from the nodes just before a call are inputs of the model's replay, the stages known from what the PEERS sent are what the monitor judges by",
    assumptions=[
        "the handshake goroutine is modelled as consuming the handshake channel eagerly (it does nothing else); the 3 s handshake time-out and the 10 min ping period are not exercised (scripts run in milliseconds)",
        "HeaderRepository / PeerRepository are the interfaces of bitcoin_node.go: spies record every call; the alternate header handler spy replays headers.Repository.HandleHeadersMessage; TxManager is the real one (AddTx observed through GetAndResetTxReceivedCount, AddTxID through the getdata the peer receives)",
        "wire.Cmd* constant -> command string mapping is written in the model (dependency pinned by go.sum) and exercised by the correspondence",
        "RequestBlock / SetBlockHandler / SetTxHandler are only called on nodes returned by NodeManager.nextNode (ready nodes); SetHeaderHandler / SetTxManager / SetVerifyOnly only before Run",
        "effects inside one handler are ordered as in the source; the alternate header handler thread is reported as one effect at the start of its message",
        "mgr stream: a routing call runs under the manager's mutex with every node at rest (the harness waits for each stage change to complete), so the flags read just before the call are the flags the call sees; "
        "the one exception is made on purpose (the closing window: the harness holds the node's mutex until the call is parked in IsBusy, found by a goroutine dump) and only when another node is available behind the closing one, "
        "because otherwise RequestHeaders / RequestTxs spin until the node's run() clears isReady (model outcome Err.spin) and the number of rounds is a race",
        "mgr stream: ErrBusy from a node that nextNode just selected needs a RequestBlock made by another goroutine between IsBusy and the request; that race is not reproduced (the branch is in the model); "
        "GetLocatorHashes of the spy repository never fails; RequestTxs always fits one getdata; NodeManager.Clean / Find / Scan are not run (nodes enter through VerifAddNode)",
        "mgr stream: TxManager entries are left to ripen (request timeout + margin) before every RequestTxs; an AddTxID sequence or a retrying RequestTxs that took longer than the timeout marks the script doubtful and it is run again (at most 5 times)",
    ],
    modelled_funcs=["NewBitcoinNode", "BitcoinNode.accept", "BitcoinNode.handshake", "BitcoinNode.sendVerifyInitiation",
                    "BitcoinNode.handleMessage", "BitcoinNode.handleVersion", "BitcoinNode.handleVerack",
                    "BitcoinNode.handleHeadersVerify", "BitcoinNode.handleHeadersTrack", "BitcoinNode.handleExtended",
                    "BitcoinNode.handleAddress", "BitcoinNode.handleGetAddresses", "BitcoinNode.handleInventory",
                    "BitcoinNode.handleTx", "BitcoinNode.handleBlock", "NodeManager.nextNode",
                    "NodeManager.RequestHeaders", "NodeManager.RequestTxs", "NodeManager.RequestBlock", "NodeManager.SendTx", "BitcoinNode.HasBlock",
                    "BitcoinNode.RequestHeaders", "BitcoinNode.RequestTxs", "BitcoinNode.RequestBlock"],
    static_checks=_static,
)

META = dict(
    technique="Lean 4 proof (inductive connection invariant over every byte stream, decide over the handler tables extracted from the source) + model/implementation correspondence with recording spies",
    text="Theorems for every byte stream, environment and configuration: (1) by decide over Facts.preAcceptHandlers (regenerated from NewBitcoinNode on every run) no pre-accept command maps to a "
         "repository-touching handler and every table entry is interpreted; (2) in the whole effect trace of any input nothing touches the header repository, alternate header handler, tx manager or "
         "address book before accept stores verified (C13_no_effect_before_verified, okBefore_spec); (3) ready implies verified and handshake complete in every reachable state; (4) nextNode only returns "
         "ready nodes; (5) on a verify-only node the verifying step is a closed outcome with Stop. The model is tied to the code by differential runs of a scripted peer (0 divergences required) and a "
         "monitor that evaluates the property on the spies' records.",
    note=COMMON_NOTE + "Found and fixed during construction: handleHeadersVerify teed the verification reply into the alternate header handler before VerifyHeader (headers of a wrong-chain peer reached ProcessHeader); "
         "regression script corpus/C13/node-header-handler-before-verify.ops. Clock-driven paths (3 s handshake time-out) are not modelled. The routing model (Model/Mgr.lean) is run against a real NodeManager with several live nodes by the `mgr` stream; "
         "not reproduced there: ErrBusy after selection (needs a racing direct request), a retry that comes back to the closing node, NodeManager.Clean (offset beyond the list: in the model and theorems only).",
)
