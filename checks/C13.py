import subprocess

from meta import COMMON_NOTE

import brv
from engine import Spec, Stream
from monitors import node as mon


def gen(seed, tier, out):
    n = 400 if tier == "quick" else 8000
    with open(out, "w") as f:
        subprocess.run([str(brv.BIN / "node"), "gen", str(seed), str(n), tier, "c13"], stdout=f, check=True)


def _static(facts):
    bad = []
    touching = {"handleHeadersTrack", "handleAddress", "handleGetAddresses", "handleInventory", "handleTx", "handleBlock"}
    for e in facts.get("pre_accept_handlers", []) or []:
        h = e.get("Handler") or e.get("handler")
        if h in touching:
            bad.append((f"pretable:{h}", f"NewBitcoinNode installs {h} for {e.get('Cmd') or e.get('cmd')}: reachable by an unverified peer"))
    return bad


SPEC = Spec(
    prop="C13",
    title="A peer can do nothing before it is verified",
    go_bins=["node"],
    lean_targets=["BRV.Props.C13", "drv_node"],
    props_files=[brv.LEAN / "BRV/Props/C13.lean"],
    streams=[Stream("node", "node", "drv_node", gen, monitor=mon.monitor_c13, nontrivial=mon.nontrivial)],
    rule="seeded scripts of a scripted peer against a real BitcoinNode (RunWithConn over loopback TCP, worker process): "
         "0-4 probes before the handshake, version/verack in every order with repeats, 0-5 probes while unverified, then a good / "
         "wrong-chain / empty / missing verification reply, then probes again; probes = addr, inv, tx, ext tx, block, ext block, "
         "unknown ext, getaddr, ping, pong, reject, getheaders, protoconf; configs verify-only x tx manager x alternate header handler; "
         "non-trivial = >= 5 ops incl. a message; distinct = distinct op text",
    assumptions=[
        "the handshake goroutine is modelled as consuming the handshake channel eagerly (it does nothing else); the 3 s handshake time-out and the 10 min ping period are not exercised (scripts run in milliseconds)",
        "HeaderRepository / PeerRepository are the interfaces of bitcoin_node.go: spies record every call; the alternate header handler spy replays headers.Repository.HandleHeadersMessage; TxManager is the real one (AddTx observed through GetAndResetTxReceivedCount, AddTxID through the getdata the peer receives)",
        "wire.Cmd* constant -> command string mapping is written in the model (dependency pinned by go.sum) and exercised by the correspondence",
        "RequestBlock / SetBlockHandler / SetTxHandler are only called on nodes returned by NodeManager.nextNode (ready nodes); SetHeaderHandler / SetTxManager / SetVerifyOnly only before Run",
        "effects inside one handler are ordered as in the source; the alternate header handler thread is reported as one effect at the start of its message",
    ],
    modelled_funcs=["NewBitcoinNode", "BitcoinNode.accept", "BitcoinNode.handshake", "BitcoinNode.sendVerifyInitiation",
                    "BitcoinNode.handleMessage", "BitcoinNode.handleVersion", "BitcoinNode.handleVerack",
                    "BitcoinNode.handleHeadersVerify", "BitcoinNode.handleHeadersTrack", "BitcoinNode.handleExtended",
                    "BitcoinNode.handleAddress", "BitcoinNode.handleGetAddresses", "BitcoinNode.handleInventory",
                    "BitcoinNode.handleTx", "BitcoinNode.handleBlock", "NodeManager.nextNode"],
    static_checks=_static,
)

META = dict(
    technique="Lean 4 proof (inductive connection invariant over every byte stream, decide over the handler tables extracted from the source) + model/implementation correspondence with recording spies",
    text="Theorems for every byte stream, environment and configuration: (1) by decide over Facts.preAcceptHandlers (regenerated from NewBitcoinNode on every run) no pre-accept command maps to a "
         "repository-touching handler and every table entry is interpreted; (2) in the whole effect trace of any input nothing touches the header repository, alternate header handler, tx manager or "
         "address book before accept stores verified (C13_no_effect_before_verified, okBefore_spec); (3) ready implies verified and handshake complete in every reachable state; (4) nextNode only returns "
         "ready nodes; (5) on a verify-only node the verifying step is a closed outcome with Stop. The model is tied to the code by differential runs of a scripted peer (0 divergences required) and a "
         "monitor that evaluates the property on the spies' records.",
    note=COMMON_NOTE + "Found and fixed during construction: handleHeadersVerify teed the verification reply into the alternate header handler before VerifyHeader (headers of a wrong-chain peer reached ProcessHeader); "
         "regression script corpus/C13/node-header-handler-before-verify.ops. Clock-driven paths (3 s handshake time-out) are not modelled. nextNode is proved on a model of its scan loop (flags only), not run against NodeManager.",
)
