import subprocess

from meta import COMMON_NOTE

import brv
from engine import Spec, Stream
from monitors import merkle as mon
from monitors import blkdl as mon_dl


def gen(seed, tier, out):
    n = 800 if tier == "quick" else 6000
    with open(out, "w") as f:
        subprocess.run([str(brv.BIN / "merkle"), "gen", str(seed), str(n), tier], stdout=f, check=True)


EXPECTED_ORDER = ["ProcessTx", "AddMerkleProof", "AddHash", "wasCancelled", "FinalizeMerkleProofs", "Verify", "wasCancelled",
                  "ProcessCoinbaseTx", "ConfirmTx", "AppendBlockTxIDs"]

def gen_mgr(seed, tier, out):
    n = 60 if tier == "quick" else 1200
    with open(out, "w") as f:
        subprocess.run([str(brv.BIN / "blkmgr"), "gen", str(seed + 19), str(n), tier], stdout=f, check=True)


def gen_dl(seed, tier, out):
    n = 200 if tier == "quick" else 4000
    with open(out, "w") as f:
        subprocess.run([str(brv.BIN / "blkdl"), "gen", str(seed + 17), str(n), tier], stdout=f, check=True)


SPEC = Spec(
    prop="C04",
    title="Block confirmations are issued only for fully verified blocks, with valid proofs",
    go_bins=["merkle", "blkdl", "blkmgr"],
    lean_targets=["BRV.Props.C04", "drv_merkle", "drv_blkdl", "drv_blkmgr"],
    props_files=[brv.LEAN / "BRV/Props/C04.lean"],
    streams=[Stream("merkle", "merkle", "drv_merkle", gen, monitor=mon.monitor, nontrivial=mon.nontrivial),
             # the downloader with its Run loop, Cancel and Stop (C16's blkdl stream, a smaller sample): a cancel that
             # reaches a started download must still keep it from confirming ("no confirmation after cancellation")
             Stream("blkdl", "blkdl", "drv_blkdl", gen_dl, monitor=mon_dl.monitor, nontrivial=mon_dl.nontrivial, timeout=900),
             # several downloads of one block under the real manager: a download that is still registered and was never
             # cancelled when its block completed goes on to confirm the block a second time ("once each")
             Stream("blkmgr", "blkmgr", "drv_blkmgr", gen_mgr, monitor=mon_dl.monitor_mgr, nontrivial=mon_dl.nontrivial_mgr, timeout=900)],
    rule="real NewBlockDownloader+HandleBlock fed from a channel with recording TxProcessor/BlockTxManager spies: every width 0..33 "
         "(thorough ..130) with every leaf's proof, every relevant subset up to width 6 (thorough 9), every single corruption at every "
         "position for widths 1..9 (thorough ..20): dropped/added/reordered/altered tx with and without adjusted count, count +-1, stream "
         "cut at each tx, wrong header, ProcessTx error / Cancel at each call, Cancel before HandleBlock / before channel close, "
         "ProcessCoinbaseTx / k-th ConfirmTx / AppendBlockTxIDs error, duplicated tail of every odd level; then seeded random blocks up to 70 "
         "(thorough 400) txs with 0-2 random corruptions; native MerkleProof.Verify() on every emitted proof; a script is non-trivial if it "
         "feeds at least one transaction; distinct = distinct op text",
    assumptions=[
        "double-SHA-256 is an ideal hash: hashes are terms of the free algebra leaf(n) | node(l, r) (injective, a node never equals a transaction id); "
        "the block hash is an ideal hash of the header, so 'the header hashes to the requested block' is header = requested",
        "external calls (TxProcessor, BlockTxManager) and Cancel are scripted inputs: per-call result, the ProcessTx call during which Cancel happens",
        "handleBlock is a single goroutine; Cancel only sets isCancelled under stateLock, read by wasCancelled at the two points modelled",
        "signalling on Started/Complete is property C16's subject; only the value put on Complete is observed here",
        "the node-side leg (handlers.go handleBlock: only the requested hash reaches the handler, channel closed on read error) is not modelled here",
    ],
    modelled_funcs=["BlockDownloader.HandleBlock", "BlockDownloader.handleBlock"],
    static_checks=lambda facts: (
        [("handleBlock-call-order", "the order of merkle/processor/store calls in handleBlock changed: "
          + ",".join(facts.get("call_orders", {}).get("handleBlock", [])) + " (the model issues ProcessCoinbaseTx/ConfirmTx/AppendBlockTxIDs only after FinalizeMerkleProofs and the Verify loop)")]
        if facts.get("call_orders", {}).get("handleBlock") != EXPECTED_ORDER else []) + (
        [("merkle-tree-prune", "handleBlock no longer creates the merkle tree with NewMerkleTree(true); the theorems cover the pruning tree")]
        if facts.get("ints", {}).get("merkleTreePrune") != 1 else []),
)

META = dict(
    technique="Lean 4 proof (binary-counter invariant of the streaming merkle tree against the textbook level-by-level root; per-proof "
              "location + soundness invariant through AddHash/FinalizeMerkleProofs; decision-logic dichotomy of handleBlock over a scripted "
              "environment; injectivity of the root over an ideal hash) + model/implementation correspondence on the real HandleBlock",
    text="Theorems over an ideal (free-algebra) hash, for every received transaction list, relevant subset, announced count, header, "
         "processor/store error and cancellation point: the streaming MerkleTree never panics and returns the textbook root (C04_root_correct); "
         "ProcessCoinbaseTx/ConfirmTx/AppendBlockTxIDs occur only if header = requested, received = announced, root = header root, no ProcessTx "
         "error, no cancellation (C04_confirm_guarded, C04_any_failure_silent, C04_wrong_header); every ConfirmTx that is ever made carries a proof "
         "with that txid, the tx's position as index, the requested header, and CalculateRoot = header root = textbook root (C04_proofs_verify, no "
         "Nodup needed since the repaired code verifies proofs first); success = ProcessTx*, coinbase, one confirm per relevant tx in block order, "
         "append (C04_confirm_exact); same-length blocks with equal roots are equal, duplicate-free id lists with equal roots are equal, the "
         "duplicated tail is the stated exception (C04_same_length_same_root, C04_nodup_same_root, C04_dup_tail_exception, "
         "C04_corrupted_block_silent); for duplicate-free blocks every proof the tree builds recomputes the root and an honest block is accepted "
         "(C04_nodup_proofs_recompute, C04_honest_block_accepted) and the proofs' siblings are exactly Spec.merklePath (C04_nodup_textbook_paths); a repeated txid yields a proof CalculateRoot refuses (C04_repeated_tx_bad_proof). "
         "The model is tied to block_downloader.go and the merkle_proof dependency by differential runs of the real HandleBlock "
         "(native MerkleProof.Verify on every emitted proof) and by extracted facts (call order in handleBlock incl. the two cancellation tests, NewMerkleTree(true)); a sample of the downloader stream of C16 (Run, Cancel, Stop around HandleBlock) runs under this check too.",
    note=COMMON_NOTE + "Hashes are ideal (free term algebra): 64-byte-transaction style collisions between a txid and an inner node are outside the model. "
         "A block that repeats its tail transactions has the header's root (classical ambiguity); since /repo 6200e79 it is refused when a repeated "
         "copy is relevant (its proof does not verify) and still accepted otherwise, with ProcessTx seeing the repeated transactions. "
         "An empty block under a header with all-zero merkle root is 'verified' and ProcessCoinbaseTx gets a nil tx (outside the property's 1..n). "
         "The node-side filtering of unrequested blocks and channel closing (handlers.go) is not part of this model; Started/Complete signalling is C16.",
)
