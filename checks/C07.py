from hdrcommon import GEN_RULE, hdr_spec
from meta import COMMON_NOTE

SPEC = hdr_spec(
    "C07", "The new-header stream lets a subscriber reconstruct the best chain exactly",
    prefixes={"C07"}, profiles=[("submit", 7), ("mixed", 2), ("refuse", 1)],
    rule=GEN_RULE + "with one or several subscribers registered at any time, all drained after every op; the monitor applies the stream (attach to parent, discard above) "
         "and compares with the reported tip after every submission and with Hash(0..tip) at every dump; non-trivial = at least 8 submissions",
    props_file="C07",
    partial_note="the reorganisation case (all headers above the true fork point, lowest first) is checked by the monitor on every generated reorg, not proved: "
                 "it needs the well-formedness invariant that IntersectHash returns the true fork point.")

META = dict(
    technique="Lean 4 proof (event shape per ProcessHeader path, Spec applyStream) + model/implementation correspondence + stream-replaying monitor",
    text="Theorems for every repository state: refused and already-known submissions announce nothing; extending the best branch announces exactly that header and applying it "
         "to a chain ending in its parent appends it; a side-branch extension that stays behind announces nothing and leaves the tip; a branch update lists exactly "
         "tip-height minus fork-height headers. Every subscriber's stream is compared between the real code and the model after every op.",
    note=COMMON_NOTE + "Partial for reorganisations (see evidence). Subscriber channels hold 10000 headers (extracted); longer single updates would block and are out of scope.",
)
