from hdrcommon import GEN_RULE, hdr_spec, spine_scripts
from meta import COMMON_NOTE

SPEC = hdr_spec(
    "C07", "The new-header stream lets a subscriber reconstruct the best chain exactly",
    prefixes={"C07"}, profiles=[("submit", 7), ("mixed", 2), ("refuse", 1)],
    rule=GEN_RULE + "with one or several subscribers registered at any time, all drained after every op; the monitor applies the stream (attach to parent, discard above) "
         "and compares with the reported tip after every submission and with Hash(0..tip) at every dump; non-trivial = at least 8 submissions",
    props_file="C07", extra=spine_scripts(['autoclean', 'outage']),
    partial_note="proved for every history of submissions (C07_stream_reconstructs: the subscriber's chain is the repository's best chain; C07_reorg_shape: a reorganisation "
                 "announces exactly the new chain above a common header, lowest first, linked) under one explicit history predicate: no automatic clean is triggered. That the branch update cannot fail (IntersectHash always finds a common branch, Find finds the "
                 "intersect, every height above it is readable) is a theorem there (C07_branch_update_never_fails). Histories with Clean/Save/Load/marking in between and the "
                 "automatic clean are checked by the correspondence + stream-replaying monitor on every generated history, not proved. The announced fork point is the LAST common header (no announced header was on the previous best chain: C07_reorg_shape, last conjunct).")

META = dict(
    technique="Lean 4 proof (inductive invariant StreamWF over submission histories; IntersectHash/chainLinks give a common header; reorganisation stream = new chain above it; induction over histories) + model/implementation correspondence + stream-replaying monitor",
    text="Theorems for every repository state: refused and already-known submissions announce nothing; extending the best branch announces exactly that header and applying it "
         "to a chain ending in its parent appends it; a side-branch extension that stays behind announces nothing and leaves the tip; a branch update lists exactly "
         "tip-height minus fork-height headers. For every state reached by submissions from genesis (invariant StreamWF, preserved by ProcessHeader): a reorganisation announces "
         "exactly the headers of the new best chain above the last header common to both chains (the true fork point; no announced header was on the old chain), lowest first, as a linked chain, every announced header being on the new best chain "
         "(C07_reorg_shape, C07_reorg_announced_in_chain); applying any submission's announcement to the best chain before it gives the best chain after it (C07_stream_step); the branch update never fails (C07_branch_update_never_fails); "
         "over any finite history the subscriber's chain equals the repository's best chain (C07_stream_reconstructs). Every subscriber's stream is compared between the real code and the model after every op. In the linear world (every fork-free history of any length, across the automatic clean and any Cleans/Saves) the announcements appended to the initial chain are exactly the final best chain (C07_linear_stream).",
    note=COMMON_NOTE + "Partial for histories with maintenance operations (see evidence). Subscriber channels hold 10000 headers (extracted); longer single updates would block and are out of scope.",
)
