from hdrcommon import GEN_RULE, hdr_spec
from meta import COMMON_NOTE

SPEC = hdr_spec(
    "C01", "The reported chain is the most-proof-of-work chain of accepted headers",
    prefixes={"C01"}, profiles=[("submit", 5), ("mixed", 3), ("clean", 1), ("saveload", 1)],
    rule=GEN_RULE + "interleaved with Clean (small and real prune depth), Save and Load; every script ends with a full dump (tip, Hash/Header at every height, "
         "every lookup on every header); non-trivial = at least 8 submissions",
    props_file="C01",
    partial_note="TipMax is proved preserved by every ProcessHeader path separately (fork, extension of another branch, extension of the longest) but not yet "
                 "across Clean/Save/Load, and 'every accepted header lies on some branch below its tip' is by construction of the model, not a theorem; "
                 "the arrival-order independence clause is exercised (out-of-order and duplicate arrival), not proved.")

META = dict(
    technique="Lean 4 proof (specification of Longest(); maximal-tip invariant preserved per ProcessHeader path) + model/implementation correspondence + Spec-level monitor",
    text="Theorems for every repository state: Longest() returns a listed branch of maximal last accumulated work; whenever ProcessHeader re-selects the longest branch "
         "(new branch started, or another branch extended) and answers ok the reported tip is such a branch; extending the longest branch adds the block's work (>= 1) and "
         "keeps the tip maximal. The correspondence runs fork-heavy histories incl. sibling/cousin overtakes through the real code and the model; the monitor recomputes "
         "cumulative work of every header from the definitions and checks tip maximality and linkage of Hash(0..tip) on every dump.",
    note=COMMON_NOTE + "Partial: see coverage.partial in the evidence. Concurrent peers are reduced to sequential histories by the extracted lock shapes (C01_lock_shapes).",
)
