from hdrcommon import GEN_RULE, hdr_spec, spine_scripts
from meta import COMMON_NOTE

SPEC = hdr_spec(
    "C01", "The reported chain is the most-proof-of-work chain of accepted headers",
    prefixes={"C01"}, profiles=[("submit", 5), ("mixed", 3), ("clean", 1), ("saveload", 1)],
    rule=GEN_RULE + "interleaved with Clean (small and real prune depth), Save and Load; every script ends with a full dump (tip, Hash/Header at every height, "
         "every lookup on every header); non-trivial = at least 8 submissions",
    props_file="C01", extra=spine_scripts(['autoclean']),
    partial_note="for histories of submissions from genesis (automatic clean not due; NO assumption on verdicts, since no submission can end in an internal error there: "
                 "C01_tip_maximal_wf) all three sentences are theorems: the tip has maximal accumulated work among all branch tips and the held best-chain headers are linked, Header(k).prev = Hash(k-1), across branch boundaries "
                 "(C01_chain_linked_submissions); the recorded work is the cumulative block work from genesis, strictly increasing (C01_work_is_cumulative), and no "
                 "header held by any tracked branch carries more work than the reported tip (C01_tip_dominates_submissions). For histories that START from a Load of any consistent "
                 "storage image (C01_after_load_submissions: pruned root, side branches in any index order, unlinkable files) the tip stays maximal and the best chain linked down to the "
                 "lowest height kept in memory, by the order-of-acceptance invariant of Proofs/LoadSound + ForestStep; C01_forest_history_clean / C01_from_genesis_any_length / "
                 "C01_after_load_any_length extend both statements to histories of ANY length, automatic cleans included, under the only condition that no automatic clean runs "
                 "while a reorganisation is pending (then Clean consolidates, which is not proved). Not yet theorems: the same across "
                 "Clean/Save/marking in the middle of a history (checked by correspondence + monitor on every generated history), arrival-order independence (exercised).")

META = dict(
    technique="Lean 4 proof (specification of Longest(); maximal-tip and linked-forest invariants by induction over submission histories) + model/implementation correspondence + Spec-level monitor",
    text="Theorems: Longest() returns a listed branch of maximal last accumulated work; for EVERY finite history of submissions (any tree shape, duplicates, orphans, refusals, "
         "repeated overtakes) from a state with maximal tip the reported tip has maximal accumulated work among all branch tips; the branch forest stays well linked "
         "(parents before children, internal links, first header links to the parent's header at the fork height) so the best chain's held headers satisfy "
         "Header(k).PrevBlock = Hash(k-1) down through forks of forks; accumulated work is exactly the sum of block works along the chain (each >= 1) and the reported tip "
         "dominates every header any tracked branch holds. The same maximal-tip and linked-best-chain statements hold for every submission history that starts from the repository Load "
         "builds out of any consistent storage image (C01_after_load_submissions). The correspondence runs fork-heavy histories incl. sibling/cousin overtakes through the real code and the model; the monitor recomputes "
         "cumulative work of every header from the definitions and checks tip maximality and linkage of Hash(0..tip) on every dump.",
    note=COMMON_NOTE + "Partial: see coverage.partial in the evidence. Concurrent peers are reduced to sequential histories by the extracted lock shapes (C01_lock_shapes).",
)
