import subprocess

from meta import COMMON_NOTE

import brv
from engine import Spec, Stream
from monitors import node as mon


def gen(seed, tier, out):
    n = 150 if tier == "quick" else 2500
    with open(out, "w") as f:
        subprocess.run([str(brv.BIN / "node"), "gen", str(seed), str(n), tier, "c14"], stdout=f, check=True)


def _monitor(script):
    return mon.monitor_c14(script)


SPEC = Spec(
    prop="C14",
    title="Message framing never desynchronises on protocol-conformant traffic",
    go_bins=["node"],
    lean_targets=["BRV.Props.C14", "drv_node"],
    props_files=[brv.LEAN / "BRV/Props/C14.lean"],
    streams=[Stream("node", "node", "drv_node", gen, monitor=_monitor, nontrivial=mon.nontrivial)],
    rule="seeded scripts: real handshake + verification of a full node (tx manager / alternate header handler on or off), then 1-40 "
         "well-formed messages over the full command set — headers (0..80), inv (tx/block items, 0..40), tx classic and extended "
         "(scripts 0 B..20 kB quick / 300 kB thorough), 13 unhandled or unknown commands with any payload, addr (0..1000), unrequested "
         "blocks classic and extended, unknown extended messages, RequestBlock followed by the requested block (classic or extended), "
         "getaddr, ping, pong, reject, repeated version/verack (bursts of 9-15), protoconf — then `ping n`; 8 % of the scripts use a 40 ms tx request timeout "
         "and announce / deliver / poll the same txids around it (`wait ms=`, `polltx`); 6 % of the messages are replaced by a whole block-request life (RequestBlock, second request while busy, "
         "CancelBlockRequest before / during / after the block, the block whole or in pieces, a wrong block first); observation = pong nonce / "
         "none / closed within a time bound, every message followed by a barrier ping; non-trivial = >= 5 ops incl. a message",
    assumptions=[
        "per-message consumed byte counts are inferred from where the next message (the barrier ping) is parsed",
        "while the handshake goroutine lives it drains the handshake channel faster than the scripted peer fills it (the non-blocking send would otherwise drop a version/verack)",
        "a requested block is delivered whole in the scripts; handleBlock's streaming transaction parse is modelled on the declared length",
        "the dependency's decoders (wire.Msg*.BtcDecode) are modelled by contract (which payloads decode); the correspondence validates the contract on every generated payload",
    ],
    modelled_funcs=["BitcoinNode.handleMessage", "readHeader", "readMessage", "DiscardInput", "DiscardInputWithCounter",
                    "BitcoinNode.handleVersion", "BitcoinNode.handleVerack", "BitcoinNode.handleProtoconf",
                    "BitcoinNode.handleHeadersTrack", "BitcoinNode.handlePing", "BitcoinNode.handlePong",
                    "BitcoinNode.handleReject", "BitcoinNode.handleAddress", "BitcoinNode.handleGetAddresses",
                    "BitcoinNode.handleExtended", "BitcoinNode.handleInventory", "BitcoinNode.handleTx",
                    "BitcoinNode.handleBlock", "discardBlock"],
    partial_note="theorems cover: frame parsing, unhandled commands, all readMessage-based handlers (any payload), getaddr, inv and headers lists of any length, unrequested "
                 "blocks, extended framing, never blocked, ping->pong in every reachable state; the streaming transaction parse of the REQUESTED block is covered by the correspondence, not by a theorem",
)

META = dict(
    technique="Lean 4 proof (byte accounting of every handler incl. uint64 discard arithmetic, frame-parsing theorem, invariant over all histories) + model/implementation correspondence",
    text="Theorems for every state, payload and following bytes: a classic frame of a command without handler is skipped exactly; version/verack/protoconf/ping/pong/reject/addr/tx frames are consumed "
         "to exactly their declared length or the connection ends (never waiting, never blocked); getaddr; inv and headers whose list is as long as the count says (any length, incl. empty); a block other than the requested one; extended frames (tx, block, unknown; ready or not) consume "
         "24+20+length; the deferred DiscardInputWithCounter is exact whenever the handler stayed within the declared length; no input blocks the read loop (C14_never_wedges); in every reachable state "
         "a ping is answered by the pong with its nonce and the next message starts right behind it (C14_ping_after_any_sequence). The byte-level model is tied to handlers.go/messages.go by differential "
         "runs of a scripted peer with a barrier ping after every message (0 divergences required).",
    note=COMMON_NOTE + "Partial at theorem level: exactness for the requested block's streaming transaction parse is established by the correspondence runs "
         "(generator requests blocks and delivers them classic and extended), not by a Lean theorem. Found and fixed during construction: the 11th extra version/verack after the handshake blocked the read "
         "loop for ever (no pong); regression corpus/C14/node-handshake-channel-wedge.ops.",
)
