import subprocess

from meta import COMMON_NOTE

import brv
from engine import Spec, Stream
from monitors import node as mon


def gen(seed, tier, out):
    n = 150 if tier == "quick" else 2500
    with open(out, "w") as f:
        subprocess.run([str(brv.BIN / "node"), "gen", str(seed), str(n), tier, "c14"], stdout=f, check=True)


def _monitor(script):
    return mon.monitor_c14(script)


SPEC = Spec(
    prop="C14",
    title="Message framing never desynchronises on protocol-conformant traffic",
    go_bins=["node"],
    lean_targets=["BRV.Props.C14", "drv_node"],
    props_files=[brv.LEAN / "BRV/Props/C14.lean"],
    streams=[Stream("node", "node", "drv_node", gen, monitor=_monitor, nontrivial=mon.nontrivial)],
    rule="seeded scripts: real handshake + verification of a full node (tx manager / alternate header handler on or off), then 1-40 "
         "well-formed messages over the full command set — headers (0..80), inv (tx/block items, 0..40), tx classic and extended "
         "(scripts 0 B..20 kB quick / 300 kB thorough), 13 unhandled or unknown commands with any payload, addr (0..1000), unrequested "
         "blocks classic and extended, unknown extended messages, RequestBlock followed by the requested block (classic or extended), "
         "getaddr, ping, pong, reject, repeated version/verack (bursts of 9-15), protoconf — then `ping n`; 8 % of the scripts use a 40 ms tx request timeout "
         "and announce / deliver / poll the same txids around it (`wait ms=`, `polltx`); 6 % of the messages are replaced by a whole block-request life (RequestBlock, second request while busy, "
         "CancelBlockRequest before / during / after the block, the block whole or in pieces, a wrong block first); observation = pong nonce / "
         "none / closed within a time bound, every message followed by a barrier ping; non-trivial = >= 5 ops incl. a message",
    assumptions=[
        "per-message consumed byte counts are inferred from where the next message (the barrier ping) is parsed",
        "while the handshake goroutine lives it drains the handshake channel faster than the scripted peer fills it (the non-blocking send would otherwise drop a version/verack)",
        "a requested block is delivered whole in the scripts; handleBlock's streaming transaction parse is modelled on the declared length",
        "the dependency's decoders (wire.Msg*.BtcDecode) are modelled by contract (which payloads decode); the correspondence validates the contract on every generated payload",
    ],
    modelled_funcs=["BitcoinNode.handleMessage", "readHeader", "readMessage", "DiscardInput", "DiscardInputWithCounter",
                    "BitcoinNode.handleVersion", "BitcoinNode.handleVerack", "BitcoinNode.handleProtoconf",
                    "BitcoinNode.handleHeadersTrack", "BitcoinNode.handlePing", "BitcoinNode.handlePong",
                    "BitcoinNode.handleReject", "BitcoinNode.handleAddress", "BitcoinNode.handleGetAddresses",
                    "BitcoinNode.handleExtended", "BitcoinNode.handleInventory", "BitcoinNode.handleTx",
                    "BitcoinNode.handleBlock", "discardBlock"],
    partial_note="",
)

META = dict(
    technique="Lean 4 proof (byte accounting of every handler incl. uint64 discard arithmetic, frame-parsing theorem, invariant over all histories) + model/implementation correspondence",
    text="Theorems for every state, payload and following bytes: a classic frame of a command without handler is skipped exactly; version/verack/protoconf/ping/pong/reject/addr/tx frames are consumed "
         "to exactly their declared length or the connection ends (never waiting, never blocked); getaddr; inv and headers whose list is as long as the count says (any length, incl. empty); a block other than the requested one; the REQUESTED block (header, count, that many well-formed transactions, possibly extra bytes inside the declared length; "
         "classic and extended; handler installed or dropped by a cancel before the message) with the handler receiving every transaction and returning nil; a transaction that fails to parse "
         "ends the connection after the rest of the message was discarded; extended frames (tx, block, unknown; ready or not) consume "
         "24+20+length; the deferred DiscardInputWithCounter is exact whenever the handler stayed within the declared length; no input blocks the read loop (C14_never_wedges); in every reachable state "
         "a ping is answered by the pong with its nonce and the next message starts right behind it (C14_ping_after_any_sequence). The byte-level model is tied to handlers.go/messages.go by differential "
         "runs of a scripted peer with a barrier ping after every message (0 divergences required); a fifth of the messages, and dedicated scripts, reach the node in pieces cut anywhere in the header or payload.",
    note=COMMON_NOTE + "Hypotheses worth knowing: the requested-block theorems are for transactions whose declared counts and script lengths ask the decoder for at most M bytes with M <= env.mem and M <= 2^40 "
         "(SizeOk; beyond that the dependency's decoder may abort: C15, known finding alloc-declared-count); C14_headers_exact is for a ready node; a cancel that arrives while the count of the requested block is being read "
         "closes the connection (C16Node.C16_cancel_in_progress_ends), so framing after it is moot. NOT exact, by the code: a requested block whose count announces MORE transactions than the declared length holds is read "
         "past its declared length (malformed, outside the property); the uint64 discard then swallows the stream or the connection ends on a parse error. Found and fixed during construction: the 11th extra "
         "version/verack after the handshake blocked the read loop for ever (no pong); regression corpus/C14/node-handshake-channel-wedge.ops.",
)
