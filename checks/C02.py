import subprocess

from meta import COMMON_NOTE

import brv
from engine import Spec, Stream
from monitors import pow as mon


def gen(seed, tier, out):
    n = 60 if tier == "quick" else 1500
    with open(out, "w") as f:
        subprocess.run([str(brv.BIN / "pow"), "gen", str(seed), str(n), tier], stdout=f, check=True)


SPEC = Spec(
    prop="C02",
    title="Only headers with valid, consensus-exact proof of work are accepted",
    go_bins=["pow"],
    lean_targets=["BRV.Props.C02", "drv_pow"],
    props_files=[brv.LEAN / "BRV/Props/C02.lean"],
    streams=[Stream("pow", "pow", "drv_pow", gen, monitor=mon.monitor, nontrivial=mon.nontrivial)],
    rule="seeded scripts of three kinds: (i) 150-400 header branches through NewBranch/Add/Target/MedianTimeAndWork with adversarial "
         "timestamps (ties among three consecutive, backwards runs, all equal, far future/uint32 wrap), self-consistent and mixed bits, "
         "forks and forks of forks; (ii) ConvertToDifficulty/ConvertToWork/ConvertToBits on all 256 exponent bytes x 14 boundary mantissas "
         "plus random words and numbers of every byte length; (iii) windows of the two fixture files of real main-net headers through "
         "ProcessHeader with difficulty enabled, a mirror branch for Target, and single-field mutations (bits, time, nonce, prev, merkle "
         "root, version) of the next and of held headers; non-trivial = >= 100 header/conversion ops incl. >= 5 target evaluations or "
         ">= 100 ProcessHeader calls; distinct = distinct op text",
    assumptions=[
        "the header hash (double SHA-256) is an input of the model: the harness writes the real hash into the op text",
        "math/big is arbitrary precision arithmetic with Euclidean Div and two's complement Xor",
        "sort.Sort on 3 elements is Go's insertionSort (n <= 12), a stable sort",
        "Spec/DAA.lean and the monitor's Python reference are transcriptions of the reference node's pow.cpp / arith_uint256.cpp; "
        "offline they are cross-checked only against the 2822 real headers of the fixture files",
        "headers whose bits reach ProcessHeader are uint32; heights where ProcessHeader's auto-clean (height % 10000 == 0) runs are not generated",
        "'right bits, passing hash' beyond the fixtures would need 2^32 hashes per header and is not generated",
    ],
    modelled_funcs=["Branch.Target", "Branch.MedianTimeAndWork", "Branch.TimeAndWork", "NewBranch", "Branch.Add",
                    "Branch.AtHeight", "Repository.ProcessHeader"],
)

META = dict(
    technique="Lean 4 proof (closed forms and exact characterisations over all 2^32 compact words, all triples of timestamps, all pairs "
              "of median samples, all lists of branches; refinement of the code's target computation to the network's algorithm) + "
              "model/implementation correspondence on the real code incl. 2822 real main-net headers",
    text="Theorems for every input: the dependency's ConvertToDifficulty panics exactly on the words of effective length 1 and ProcessHeader's "
         "guard refuses them (and never panics in any state with non-empty branches); on every word the guard accepts the decoded target is the "
         "network's SetCompact value; an accepted header has hash <= that target and, from height 556767, bits = Target on its own branch; "
         "median3 = GetSuitableBlock incl. ties; clamped span = network's incl. backwards time; Target on any branch (main or fork) = "
         "GetNextCashWorkRequired on the chain it represents; ConvertToBits = GetCompact with the powLimit cap; round trip; work >= 1. "
         "The four pre-fix deviations are kept as kernel-checked witness theorems about the old formulas.",
    note=COMMON_NOTE + "The network algorithm (Spec/DAA.lean) is a transcription from memory of the reference node's C++; it and the monitor's "
         "independent Python transcription reproduce the bits of all 2822 real fixture headers but cannot be compared with the C++ offline. "
         "Target theorems assume first.work <= last.work and 0 < W <= 2^256 for the window (true of every chain of headers at or below the "
         "proof-of-work limit); below height 556767 a target above the limit is still accepted (not required by the property).",
)
