import subprocess

from meta import COMMON_NOTE

import brv
from engine import Spec, Stream
from monitors import sync as mon
from monitors import node as mon_node
from monitors import blkdl as mon_dl


def gen(seed, tier, out):
    n = 300 if tier == "quick" else 3000
    with open(out, "w") as f:
        subprocess.run([str(brv.BIN / "sync"), "gen", str(seed), str(n), tier], stdout=f, check=True)
        if tier == "thorough":
            # scripts that need two of the code's 10 s polls (kept out of the quick tier)
            for p in sorted((brv.VERIF / "corpus" / "C05").glob("slow-*.ops")):
                f.write(p.read_text())


def gen_mgr(seed, tier, out):
    n = 60 if tier == "quick" else 1200
    with open(out, "w") as f:
        subprocess.run([str(brv.BIN / "blkmgr"), "gen", str(seed + 29), str(n), tier], stdout=f, check=True)


def gen_node(seed, tier, out):
    n = 40 if tier == "quick" else 800
    with open(out, "w") as f:
        subprocess.run([str(brv.BIN / "node"), "gen", str(seed + 23), str(n), tier, "c16"], stdout=f, check=True)


SPEC = Spec(
    prop="C05",
    title="Best-chain blocks from the start height are processed in order, each once",
    go_bins=["sync", "node", "blkmgr"],
    lean_targets=["BRV.Props.C05", "drv_sync", "drv_node", "drv_blkmgr"],
    props_files=[brv.LEAN / "BRV/Props/C05.lean"],
    streams=[Stream("sync", "sync", "drv_sync", gen, monitor=mon.monitor, nontrivial=mon.nontrivial, timeout=900),
             # the node side of an abandoned request (C16's node stream, a smaller sample): after a cancel, a late or
             # missing block, a peer drop, the node must be free for the next request - a node that stays busy stalls
             # every later round that depends on it
             Stream("nodeblk", "node", "drv_node", gen_node, monitor=mon_node.monitor_c16, nontrivial=mon_node.nontrivial_c16, timeout=900),
             # several downloads of one block under the real manager (C16's blkmgr stream, a sample): a download that
             # survives the abort or completion of its request delivers its block later, out of order or a second time
             Stream("blkmgr", "blkmgr", "drv_blkmgr", gen_mgr, monitor=mon_dl.monitor_mgr, nontrivial=mon_dl.nontrivial_mgr, timeout=900)],
    rule="seeded scripts: start height 0..8, chain tip around the start height (tip = start-1, start, start+1, start+2, genesis only) or up to 40 above, "
         "side branches and reorgs before the round, memory window (prune), processed sets (none, prefix, holes, block below tip, tip, below start), "
         "block-source failure patterns (no node / drop mid-block / wrong block, then delivery), outstanding request + new headers, + reorg (code's own 10 s poll), "
         "+ interrupt, source outage ending the block manager, restart flag via TriggerBlockSynchronize, "
         "header changes (new tip / reorg) injected right after the k-th (k=1..3) LastHash/HashHeight/PreviousHash/Hash/Height call of the round itself "
         "through a wrapper around the real headers.Repository; "
         "non-trivial = a round on a chain of >= 2 blocks; distinct = distinct op text",
    assumptions=[
        "the header repository and the block manager are environment: the harness reads the best chain and the in-memory window back after every header op and writes them into the op text; the model takes them as inputs (any view change between two steps is allowed in the theorems)",
        "the walk-back reads the repository once per call in source order (planResE); theorems for arbitrary view changes between reads assume all views are views of one block tree (parent/height of a block never change) and PrunedFinal: a block whose predecessor is not in memory cannot be reorged out between two consecutive reads (ProcessHeader rejects headers whose predecessor is not in memory)",
        "complete(nil) from the block manager implies the block was recorded as processed (AppendBlockTxIDs precedes the downloader's nil return; C16)",
        "select is modelled as one event per iteration with no priority between ready cases",
        "thread-mode quiescence in the harness is detected by 300 ms without source/processor activity",
    ],
    modelled_funcs=["NodeManager.synchronizeBlocks", "NodeManager.TriggerBlockSynchronize", "NodeManager.runSynchronizeBlocks",
                    "NodeManager.markStartupDelayComplete", "BlockManager.AddRequest"],
    static_checks=lambda facts: [
        (f"sync-shape:{k}", f"synchronizeBlocks changed shape: {k} = {facts.get('strs', {}).get(k, facts.get('ints', {}).get(k))!r}, the model assumes {v!r}")
        for k, v in (("syncWalkOrder", "start-test,PreviousHash,nil-fallback,processed-test,hash=prev,prepend,height--"),
                     ("syncWalkStopOp", "<="), ("syncStartGuardOp", "<"),
                     ("syncLastHashExpr", "m.headers.LastHash()"), ("syncLastHeightExpr", "m.headers.HashHeight(lashHash)"), ("syncAbortGuard", "!aborted"), ("syncNilCompleteCheck", 1))
        if facts.get("strs", {}).get(k, facts.get("ints", {}).get(k)) != v],
)

META = dict(
    technique="Lean 4 proof (exact characterisation of the walk-back plan, invariants of the request-loop state machine over all event interleavings, restart-flag machine) + model/implementation correspondence",
    text="Theorems for every view (chain, memory window), start height and processed set: the plan is exactly chain[f..tip] with f determined in closed form, "
         "ascending, contiguous, unprocessed, on the best chain; requests of a round are a prefix of the plan without repeats for every event interleaving incl. arbitrary reorgs; "
         "orphaned outstanding block => poll closes abort => manager answer ends the round; trigger during a round => another round. "
         "abort closed at most once, no panic reachable, never silent across the memory window. The former counterexamples (start-1 requested at tip = start; silent round beyond the memory window; double close) are regression examples/corpus after the repository repair. The model is tied to node_manager.go by differential runs against the real "
         "NodeManager + headers.Repository + BlockManager with a scripted block source; a sample of the node-side block-request stream of C16 (cancel, late / missing block, peer drop: the node must be free for the next request) runs under this check too.",
    note=COMMON_NOTE + "The block manager's internals (retry, downloader signalling) are C16; here it is an environment that answers complete/aborted or stays silent.",
)
