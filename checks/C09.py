from hdrcommon import GEN_RULE, hdr_spec, spine_scripts
from meta import COMMON_NOTE

SPEC = hdr_spec(
    "C09", "Hash, height and best-chain lookups agree with the accepted tree, always",
    prefixes={"C09"}, profiles=[("mixed", 4), ("clean", 3), ("saveload", 3)],
    rule=GEN_RULE + "with consolidation, pruning (depths from MaxBranchDepth+2) and reload; dumps query HashHeight, CheckHeader, GetHeader, PreviousHash for EVERY header ever "
         "defined and Hash/Header/GetHeaders for every height, served from memory and from the 1000-header files; non-trivial = at least 8 submissions",
    props_file="C09", extra=spine_scripts(['files', 'shrink']), thorough_n=5000, more_props=("C09Range",),
    partial_note="exactness of the height maps (RepoWF: every hash held at exactly one place, maps = positions, Branches.Find answers with the owning branch, heights map sound) "
                 "is a theorem for every state reached by any history of submissions (C09_wf_submissions and its four corollaries); across "
                 "Consolidate/Truncate/Connect/Prune/Reload/Load it is checked by the correspondence and the monitor on every dump, not yet proved. "
                 "In the LINEAR WORLD (Proofs/LinearWorld: every history of tip-extending submissions of any length — across 1000-header file boundaries, the 10000-header prune depth and the automatic clean every 10000 heights — interleaved with Cleans, Saves and Loads of any depth, any number of generations) Hash(h) is the h-th accepted header for every height, served from memory or the files, and HashHeight is exactly the position (C09_linear_world).")

META = dict(
    technique="Lean 4 proof (inductive invariant RepoWF over submission histories: id uniqueness, exact height maps; lookup decision logic; prune/extend preservation lemmas) + model/implementation correspondence on full lookup dumps",
    text="Theorems for every repository state: unknown hashes are unknown to every lookup; the most-work-chain flag is true iff the best chain's header at that height has the "
         "requested hash; GetHeader through the long-lived map never returns another header; extension and pruning keep every retained lookup; a new header is recorded at "
         "parent height + 1. For every state reached by any history of submissions (C09_wf_submissions): the height reported for a hash is the position of that very header "
         "(C09_height_is_position), a hash is held at exactly one place (C09_position_unique), GetHeader returns the requested header and is available while tracked "
         "(C09_getHeader_tracked/_exact), PreviousHash is its true predecessor (C09_previousHash_exact), and a header accepted at some point is reported with the same height after any further submissions (C09_accepted_stays_known). The monitor recomputes true heights / ancestry from the header definitions and compares every lookup of every header at every dump. In the linear world (every fork-free history of any length with the automatic clean, Cleans, Saves, Loads of any depth) Hash(h) is the h-th accepted header at every height and HashHeight is exactly the position (C09_linear_world). From any loaded state (consistent image without repeated hashes) and over forest histories with maintenance, every header a tracked branch holds in memory is found at its owner, HashHeight is its position and no other tracked place holds its hash (C09_held_exact_after_load).",
    note=COMMON_NOTE + "Range clause (Props/C09Range.lean), for EVERY repository state and storage image, start and maximum: GetHeaders(start, max) is position by position what the height query returns for start+i, from memory or from a main file (C09_range_eq_height_queries); it returns at most max headers and a shorter range ends directly below a height the height query refuses too - above the tip or missing from the file - so it cannot end at a file boundary the height query crosses (C09_range_complete, C09_range_serves_what_heights_serve); a failing range fails with the height query's error at the height where it happened (C09_range_error). The dumps ask for ranges across every 1000-header boundary and from the stored part into memory. " + "Partial: see evidence. Pruned side-branch headers keep a height in the long-lived map by design.",
)
