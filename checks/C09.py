from hdrcommon import GEN_RULE, hdr_spec
from meta import COMMON_NOTE

SPEC = hdr_spec(
    "C09", "Hash, height and best-chain lookups agree with the accepted tree, always",
    prefixes={"C09"}, profiles=[("mixed", 4), ("clean", 3), ("saveload", 3)],
    rule=GEN_RULE + "with consolidation, pruning (depths from MaxBranchDepth+2) and reload; dumps query HashHeight, CheckHeader, GetHeader, PreviousHash for EVERY header ever "
         "defined and Hash/Header/GetHeaders for every height, served from memory and from the 1000-header files; non-trivial = at least 8 submissions",
    props_file="C09", thorough_n=5000,
    partial_note="that the per-branch height maps equal true heights in every reachable state (across Consolidate/Truncate/Connect/Prune/Reload/Load) is checked by the "
                 "correspondence and the monitor on every dump, not yet proved.")

META = dict(
    technique="Lean 4 proof (lookup decision logic, prune/extend preservation lemmas) + model/implementation correspondence on full lookup dumps",
    text="Theorems for every repository state: unknown hashes are unknown to every lookup; the most-work-chain flag is true iff the best chain's header at that height has the "
         "requested hash; GetHeader through the long-lived map never returns another header; extension and pruning keep every retained lookup; a new header is recorded at "
         "parent height + 1. The monitor recomputes true heights / ancestry from the header definitions and compares every lookup of every header at every dump.",
    note=COMMON_NOTE + "Partial: see evidence. Pruned side-branch headers keep a height in the long-lived map by design.",
)
