import subprocess

from meta import COMMON_NOTE

import brv
from engine import Spec, Stream
from monitors import peers as mon


def gen(seed, tier, out):
    n = 300 if tier == "quick" else 6000
    with open(out, "w") as f:
        subprocess.run([str(brv.BIN / "peers"), "gen", str(seed), str(n), tier], stdout=f, check=True)


SPEC = Spec(
    prop="C20",
    title="The peer address book is duplicate-free, score-consistent and survives save/load",
    go_bins=["peers"],
    lean_targets=["BRV.Props.C20", "drv_peers"],
    props_files=[brv.LEAN / "BRV/Props/C20.lean"],
    streams=[Stream("peers", "peers", "drv_peers", gen, monitor=mon.monitor, nontrivial=mon.nontrivial)],
    rule="seeded op scripts over an adversarial address pool (empty, non-UTF-8, 200-600 byte, length-field look-alikes), "
         "deltas incl. int32 extremes, Save/Load, loads of every kind of cut and of hand-made/hostile files; "
         "a script is non-trivial if it has >= 6 ops incl. Add and (Save or UpdateScore); distinct = distinct op text",
    assumptions=[
        "every StoragePeerRepository method body is one critical section of the single mutex (lock shapes extracted into Facts.lockShapes), so concurrent callers are equivalent to some sequential history; LoadSeeds takes no lock and is not modelled",
        "clock readings are inputs: the harness writes the LastTime it observed into the op (now=...)",
        "storage.Storage writes are atomic per key",
        "duplicates inside a hand-made file are outside the first sentence's quantifier; such files are only required not to crash",
    ],
    modelled_funcs=["StoragePeerRepository.Add", "StoragePeerRepository.Get", "StoragePeerRepository.UpdateScore",
                    "StoragePeerRepository.UpdateTime", "StoragePeerRepository.Load", "StoragePeerRepository.Save",
                    "StoragePeerRepository.Clear", "readPeer", "Peer.write"],
    static_checks=lambda facts: [
        (f"lock-shape:{k}", f"{k} no longer holds the mutex for its whole body ({v}); the sequential model does not cover concurrent callers")
        for k, v in facts.get("lock_shapes", {}).items()
        if k.startswith("StoragePeerRepository.") and k != "StoragePeerRepository.LoadSeeds" and v != "lock-defer"],
)

META = dict(
        technique="Lean 4 proof (inductive invariant over op lists, codec round-trip and prefix theorems, refinement to an abstract book) + model/implementation correspondence",
        text="Theorems for every op sequence, address, delta, clock value and byte string: addresses unique after any API history (incl. loads of files cut anywhere), "
             "Get = exact score filter with the extracted -1 sentinel, UpdateScore refines an abstract book (int32-wrapped sum of deltas), decode(encode l) = l, "
             "decode of every prefix keeps exactly the fully written peers, Load total. The model is tied to peers.go by byte-exact differential runs "
             "(saved file bytes compared) on adversarial addresses and hostile files.",
        note=COMMON_NOTE + "Concurrent callers are reduced to sequential histories by the extracted lock shape (whole-method mutex) plus Go mutex semantics; LoadSeeds (unlocked) is not modelled. "
             "C20_load_total is true of the model by construction; for the code it rests on the correspondence over hostile files.",
    )
