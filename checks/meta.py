"""Texts for MANIFEST.json (bin/mkmanifest)."""

HOOK_COMMITS = ["08dcd93"]

NOTES = ("Every check regenerates BRV/Gen/Facts.lean from /repo, rebuilds the property's Lean theorems against it, "
         "audits axioms, then runs corpus + seeded op scripts through the real code and the Lean model and diffs. "
         "See DESIGN.md. Fix commits in /repo: see known_findings.txt (fixed: lines).")

NOT_CLAIMED = {}

COMMON_NOTE = ("Trusted: Lean 4.33 kernel (axioms propext/Classical.choice/Quot.sound only, audited per theorem), the go/ast fact extractor, "
               "the correspondence harness/driver/canonicalisation (differential testing bounds what is seen of the implementation), "
               "the Python monitor as failing-input oracle only. ")

LEVEL = {
    "C20": dict(
        technique="Lean 4 proof (inductive invariant over op lists, codec round-trip and prefix theorems, refinement to an abstract book) + model/implementation correspondence",
        text="Theorems for every op sequence, address, delta, clock value and byte string: addresses unique after any API history (incl. loads of files cut anywhere), "
             "Get = exact score filter with the extracted -1 sentinel, UpdateScore refines an abstract book (int32-wrapped sum of deltas), decode(encode l) = l, "
             "decode of every prefix keeps exactly the fully written peers, Load total. The model is tied to peers.go by byte-exact differential runs "
             "(saved file bytes compared) on adversarial addresses and hostile files.",
        note=COMMON_NOTE + "Concurrent callers are reduced to sequential histories by the extracted lock shape (whole-method mutex) plus Go mutex semantics; LoadSeeds (unlocked) is not modelled. "
             "C20_load_total is true of the model by construction; for the code it rests on the correspondence over hostile files.",
    ),
}
