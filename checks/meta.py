"""Texts for MANIFEST.json (bin/mkmanifest)."""

HOOK_COMMITS = ["08dcd93", "7e68fa3"]

NOTES = ("Every check regenerates BRV/Gen/Facts.lean from /repo, rebuilds the property's Lean theorems against it, "
         "audits axioms, then runs corpus + seeded op scripts through the real code and the Lean model and diffs. "
         "See DESIGN.md. Fix commits in /repo: see known_findings.txt (fixed: lines).")

# properties whose check is complete and green on the unchanged tree (claimed in MANIFEST.json)
READY = ["C01", "C02", "C03", "C04", "C05", "C06", "C07", "C08", "C09", "C10", "C11", "C12", "C13", "C14", "C15", "C16", "C17", "C18", "C19", "C20"]

NOT_CLAIMED = {}

COMMON_NOTE = ("Trusted: Lean 4.33 kernel (axioms propext/Classical.choice/Quot.sound only, audited per theorem), the go/ast fact extractor, "
               "the correspondence harness/driver/canonicalisation (differential testing bounds what is seen of the implementation), "
               "the Python monitor as failing-input oracle only. ")

