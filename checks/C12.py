from hdrcommon import GEN_RULE, hdr_spec, spine_scripts
from meta import COMMON_NOTE

SPEC = hdr_spec(
    "C12", "A crash at any storage write during Clean or Save leaves a loadable, sound state",
    prefixes={"C12"}, profiles=[("crash", 9), ("mixed", 1)], quick_n=120, thorough_n=3000,
    rule=GEN_RULE + "`crashsave` / `crashclean` ops: the harness records the real Write/Remove sequence of the Save/Clean, rebuilds the storage image after EVERY prefix "
         "(empty and full included), loads each in a fresh repository and reports success, tip, work and linkage from genesis; the model does the same from its own event "
         "list; enumeration of crash points is complete per history; non-trivial = at least 8 submissions",
    props_file="C12", extra=spine_scripts(['files', 'shrink']),
    partial_note="the quantifier over crash points is discharged by complete enumeration per history (fault enumeration), the quantifier over histories by generated histories; "
                 "the full 'every prefix loads and is sound' statement is a theorem for the FIRST Save of a linear chain (C12_first_save_crash_linear: genesis-only chain before the "
                 "index write, the chain being saved after it). The LOAD half is a theorem for EVERY storage image (C12_load_any_image_sound: any history, any side branches, any "
                 "index order, unlinkable files): an image passing StoreOK loads without error or panic and its best chain is a linked chain of stored headers from the lowest height kept "
                 "in memory to the tip, ending in the heaviest linkable branch; StoreOK's executable test (proved sound) is evaluated by the driver on every image this run loaded "
                 "(coverage.load_hypothesis_StoreOK). Not proved: that every prefix of a LATER Save/Clean of a forest leaves StoreOK images (consolidate + branch-file merging), and the "
                 "history below the in-memory window served from the main-chain files — there the enumeration carries the claim. "
                 "In the LINEAR WORLD (Proofs/LinearWorld: every history of tip-extending submissions of any length — across 1000-header file boundaries, the 10000-header prune depth and the automatic clean every 10000 heights — interleaved with Cleans, Saves and Loads of any depth, any number of generations) EVERY prefix of the write sequence of EVERY Save and EVERY Clean loads without error and reports the genesis-only chain (only while no index was ever written), "
                 "the chain as last stored, or the chain being stored — tip and header at every height (C12_linear_crash_any_save / _any_clean). Long-chain scripts cross the 1000-header file boundaries, also with the best chain SHRINKING back across one (mark / shorter heavier fork) before the crashed Save or Clean.")

META = dict(
    technique="Lean 4 proof (Load of every consistent storage image is sound; every crash prefix of the first Save of a linear chain loads and is sound; write-order theorems over the storage-event model, tied to the extracted call order) + exhaustive crash-prefix enumeration compared between code and model",
    text="Theorems for every repository state: saveBranches writes one branch file per tracked branch and only then the index naming them; the invalid list is the last write; "
         "each event touches one key; the stage order of Save and Clean is the extracted one and Clean never writes the index. For the first Save of a linear chain (any length) the write sequence is "
         "main-file writes/removals, branch file, index, invalid list (C12_first_save_sequence) and for EVERY prefix of it Load succeeds and reports either the genesis-only chain "
         "(index not yet written) or exactly the chain being saved (C12_first_save_crash_linear). For EVERY storage image that passes StoreOK (each indexed branch file non-empty and "
         "internally linked, index headed by a root file, main files present) Load succeeds and reports a linked best chain of stored headers ending in the heaviest linkable "
         "branch (C12_load_any_image_sound, by an order-of-acceptance invariant over Link; the executable StoreOK test is proved sound and run on every loaded image). For every generated history every prefix of every "
         "Clean/Save write sequence is materialised and loaded by the real code and by the model; the monitor checks load success, linkage, that the tip was accepted, and work against the last completed Save. In the linear world every prefix of the write sequence of EVERY Save and Clean (any generation, incl. the automatic clean) loads without error and reports genesis-only (no index ever written), the chain as last stored or the chain being stored (C12_linear_crash_any_save / _any_clean).",
    note=COMMON_NOTE + "Each individual key write is assumed atomic (as the property states). Partial: see evidence.",
)
