import subprocess

from meta import COMMON_NOTE

import brv
from engine import Spec, Stream
from monitors import node as mon
from monitors import mgr as mon_mgr


def gen(seed, tier, out):
    n = 150 if tier == "quick" else 2500
    with open(out, "w") as f:
        subprocess.run([str(brv.BIN / "node"), "gen", str(seed), str(n), tier, "c15"], stdout=f, check=True)


def gen_real(seed, tier, out):
    with open(out, "w") as f:
        subprocess.run([str(brv.BIN / "node"), "gen", str(seed), "6" if tier == "quick" else "60", tier, "real"], stdout=f, check=True)


def gen_stall(seed, tier, out):
    import random
    rnd = random.Random(seed * 613 + 11)
    n = 3 if tier == "quick" else 40
    with open(out, "w") as f:
        for _ in range(n):
            k = rnd.randint(2, 5)
            f.write(f"init nodes={k} tx=1\n")
            ready = []
            for i in range(k):
                f.write(f"hs i={i}\n")
                if i == 0 or rnd.random() < 0.8:
                    f.write(f"verify i={i} ok=1\n")
                    ready.append(i)
            t = rnd.choice(ready)
            f.write(f"stallstop i={t} n={rnd.randint(1050, 1400)}\n")
            for _ in range(rnd.randint(1, 3)):
                f.write(rnd.choice(["sendtx", "reqheaders", "ping"]) + "\n")


def gen_mgr(seed, tier, out):
    n = 110 if tier == "quick" else 2000
    with open(out, "w") as f:
        subprocess.run([str(brv.BIN / "mgr"), "gen", str(seed), str(n), tier, "c15"], stdout=f, check=True)


def _monitor(script):
    return mon.monitor_c15(script)


def gen_blk(seed, tier, out):
    """block-request scenarios (the C16 profile of the node generator): request, cancel before / during / after, a late
    or partial or wrong block, peer drop - here under C15's monitor: no crash, no hang, Run returns."""
    n = 40 if tier == "quick" else 600
    with open(out, "w") as f:
        subprocess.run([str(brv.BIN / "node"), "gen", str(seed + 31), str(n), tier, "c16"], stdout=f, check=True)


SPEC = Spec(
    prop="C15",
    title="No bytes from a peer can crash the process",
    go_bins=["node", "mgr"],
    lean_targets=["BRV.Props.C15", "drv_node", "drv_mgr"],
    props_files=[brv.LEAN / "BRV/Props/C15.lean"],
    streams=[
        Stream("node", "node", "drv_node", gen, monitor=_monitor, nontrivial=mon.nontrivial, timeout=1500),
        Stream("nodeblk", "node", "drv_node", gen_blk, monitor=_monitor, nontrivial=mon.nontrivial, timeout=900),
        Stream("realrepo", "node", "drv_node", gen_real, monitor=_monitor, nontrivial=mon.nontrivial, compare=False),
        Stream("mgr", "mgr", "drv_mgr", gen_mgr, monitor=mon_mgr.monitor_c15, nontrivial=mon_mgr.nontrivial, timeout=900),
        Stream("mgrstall", "mgr", "drv_mgr", gen_stall, monitor=mon_mgr.monitor_c15, nontrivial=mon_mgr.nontrivial, compare=False, timeout=900,
               describe="a peer that stops reading and floods pings until the node's outgoing queue (1000) is full; NodeManager.SendTx parks on it; the node is stopped; the others keep being served (monitor only: queue occupancy is not modelled)"),
    ],
    rule="seeded hostile scripts run in an ISOLATED WORKER PROCESS (RLIMIT_AS 3.5 GiB; exit status + first panic line reported), delivered "
         "before the handshake / during verification / when ready: bad checksum, wrong magic, declared length larger or smaller than the data, "
         "classic frames declaring 4 GiB-1 for every command class, extended frames declaring 4 GiB-1 .. 2^64-1, hostile counts / string "
         "lengths inside version, reject, protoconf, tx (inputs, outputs, scripts), headers/inv/addr with huge counts, non-canonical varints, "
         "random bytes, invalid UTF-8 commands, truncated frames, headers with hostile bits; then ping and peer close (Run must return). 12 % of the scripts run a node whose "
         "TxManager has a 40 ms request timeout (init txto=) and drive the time-dependent paths: the same never-delivered txid announced 2 and 3 times with and without `wait ms=90` in between "
         "(re-request after the timeout), inv after delivery, a tx delivered twice (classic / extended), `polltx` = TxManager.GetTxRequests + BitcoinNode.RequestTxs (what NodeManager.RequestTxs does). Second "
         "stream `realrepo`: the production headers.Repository behind the node (hostile bits / timestamps in headers after verification). "
         "Third stream `mgr` (several live connections): a real NodeManager over 2-8 real BitcoinNodes, each on its own connection to a scripted peer; hostile bytes (garbage, wrong magic, an oversized ping, "
         "a frame cut by a hang-up, a malformed headers message, a header the repository rejects, a bad checksum, an unknown command) on ONE connection at any stage (no handshake, handshake only, ready, busy), "
         "followed by routed requests: every other connection must answer the next ping with the right pong and keep receiving routed requests, the hit node's Run must have returned, and the manager must "
         "skip and drop it (inputs whose decoding allocates a declared count are left to the isolated-worker stream)",
    assumptions=[
        "the clock is an input: ops during which the node reads the clock (inv, polltx) carry the harness's clock reading t=<ms since init>; the harness sleeps out of a 12 ms margin around the timeout before such an op and re-runs the script (up to 3 times) when the measured interval still leaves the side of the timeout open",
        "`none` (the node is waiting for input) is recognised when the node has consumed every byte sent, is blocked in Read and nothing arrived for 60 ms (counting wrapper around the node's side of the connection), else after the op's time bound",
        "a single allocation request above env.mem (2 GiB in the scripts; worker limit 3.5 GiB) aborts the process, requests between 256 MiB and 4 GiB-2 are not generated (grey zone of the limit)",
        "the Go runtime's makeslice panics above maxAlloc = 2^48 (recovered since 97ac3db), tries to allocate below",
        "the dependency's decoders are modelled by contract (decode result, and the sizes passed to make); validated by the differential runs, not proved",
        "other connections / repositories unaffected: the spies behind a closed connection receive no further calls (observed); with several live connections under one NodeManager it is exercised by the `mgr` stream "
        "(in-process, so only hostile inputs that cannot abort the process are used there)",
    ],
    modelled_funcs=["BitcoinNode.handleMessage", "readHeader", "readMessage", "DiscardInput", "DiscardInputWithCounter",
                    "BitcoinNode.readIncoming", "BitcoinNode.run", "BitcoinNode.handleTx", "BitcoinNode.handleExtended"],
    partial_note="theorem: no abort for any byte stream when maxAlloc <= env.mem; readMessage / discard / handler loops never abort for any env; never blocked. "
                 "Not a theorem: the decoders of tokenized/pkg/wire (known finding alloc-declared-count, kernel-checked witness C15_decoder_alloc_witness); explored by mutation fuzzing in the worker",
)

META = dict(
    technique="Lean 4 proof (explicit-outcome model: ok/need/closed/wedged/panic; allocation rule; uint64 discard arithmetic) + differential runs of hostile byte streams against the real node in an isolated, memory-limited worker process",
    text="PARTIAL. Theorems (every byte string, every state): readMessage has no aborting outcome whatever length is declared (model of the repaired code: buffer grows with received bytes); the deferred "
         "discard wraps exactly when a handler over-read and then only waits/reads; DiscardInput reads <= 1 chunk at a time; no input blocks the read loop, so Run returns after close "
         "(C15_run_never_wedged); handleMessage / the whole read loop abort on no input provided the host grants every allocation below the runtime's maxAlloc (C15_no_abort_partial). Exploration, not "
         "theorem: the dependency's decoders, modelled by contract and fuzzed (checksum, length, count, varint, truncation, oversize, extended lengths to 2^64-1, hostile tx/headers) in a child process "
         "whose exit status is observed; model and implementation agree on every script, including which inputs kill the worker. Several live connections under one real NodeManager (component mgr): hostile bytes on one, the others stay in sync and are served; a stalled peer with a full outgoing queue while the node stops (monitor-only stream mgrstall); block-request scenarios under this monitor; the send / receive locking discipline is regenerated from the source (C15_conn_traces_in_source).",
    note=COMMON_NOTE + "Known finding alloc-declared-count (kernel-checked witness C15_decoder_alloc_witness): wire.ReadVarString / MsgTx.BtcDecode allocate peer-declared counts (<= 2^48) before reading; an 89-byte "
         "version message before the handshake kills the process; not repairable inside /repo. Found and fixed during construction: up-front make([]byte, header.Length) in readMessage, missing recover in "
         "handler goroutines, handshake-channel wedge (Run never returned). 'Other connections unaffected' is exercised by the `mgr` stream (2-8 live connections under one NodeManager, hostile bytes on one of them, then routed requests).",
)
