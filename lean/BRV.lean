-- Root of the BRV library: imports every property file (and through them the models).
import BRV.Props.C20
