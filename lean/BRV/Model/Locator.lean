/-
Block locators as /repo/headers builds them: Branch.GetLocatorHashes (exponential back-off from
tip−1 with split fork points inserted), Repository.GetLocatorHashes (plus side-branch bases, sorted
by height, de-duplicated) and GetVerifyOnlyLocatorHashes.
-/
import BRV.Model.RepoOps

namespace BRV.Repo

/-- (sort key height, hash id) -/
abbrev HH := Int × Nat

/-- insertion sort, highest height first, stable (sort.Sort on ≤ 12 elements). -/
def sortHH (l : List HH) : List HH :=
  l.foldl (fun acc x =>
    let rec ins : List HH → List HH
      | [] => [x]
      | y :: ys => if x.1 > y.1 then x :: y :: ys else y :: ins ys
    ins acc) []

/-- splits not yet added whose fork point lies between `height` (exclusive) and `prevHeight`. -/
def splitsBetween (splits : List Split) (added : List Nat) (height prevHeight : Int) : List HH × List Nat :=
  splits.zipIdx.foldl (fun (acc : List HH × List Nat) (s, i) =>
    if !acc.2.contains i && height < s.height && prevHeight ≥ s.height then (acc.1 ++ [(s.height, s.before)], acc.2 ++ [i])
    else acc) ([], added)

/-- the loop of `Branch.GetLocatorHashes`; fuel bounds the number of iterations. Entries are tagged
    `true` when they are headers of the chain (as opposed to split fork points). -/
def locLoop (r : Repo) (bi : Nat) (splits : List Split) (max : Nat) :
    Nat → Int → Int → Int → List (HH × Bool) → List Nat → List (HH × Bool) × List Nat × Int
  | 0, height, _, _, res, added => (res, added, height)
  | fuel + 1, height, prevHeight, delta, res, added =>
    let (ins, added) := if prevHeight ≠ -1 then splitsBetween splits added height prevHeight else ([], added)
    let res := res ++ ins.map (fun e => (e, false))
    match r.at bi height with
    | none => (res, added, height)
    | some d =>
      let res := res ++ [((height, d.hdr.id), true)]
      if res.length ≥ max then (res, added, height)
      else if height ≤ delta then (res, added, height)
      else locLoop r bi splits max fuel (height - delta) height (delta * 2) res added

/-- `Branch.GetLocatorHashes(splits, delta, max)` with the chain/split tag. -/
def branchLocatorTagged (r : Repo) (bi : Nat) (splits : List Split) (delta : Int) (max : Nat) : List (HH × Bool) :=
  let b := r.br bi
  let height := b.height
  if height = 0 then
    match b.last? with
    | some l => [((0, l.hdr.id), true)]
    | none => []
  else
    let (res, added, h) := locLoop r bi splits max (height.toNat + 2) (height - 1) (-1) delta [] []
    let tail := splits.zipIdx.foldl (fun (acc : List (HH × Bool)) (s, i) =>
      if !added.contains i && h > s.height then acc ++ [((s.height, s.before), false)] else acc) []
    res ++ tail

def branchLocator (r : Repo) (bi : Nat) (splits : List Split) (delta : Int) (max : Nat) : List HH :=
  (branchLocatorTagged r bi splits delta max).map (·.1)

/-- `removeDuplicateHashes` (repaired): keeps the first occurrence of every hash. -/
def removeDuplicateHashes (l : List Nat) : List Nat :=
  (l.foldl (fun (acc : List Nat) x => if acc.contains x then acc else acc ++ [x]) [])

/-- `Repository.GetLocatorHashes(max)`; `none` = nil dereference on an empty side branch. -/
def locator (r : Repo) (max : Nat) : List Nat :=
  let acc := branchLocator r r.longest r.cfg.splits (Facts.locatorDelta : Int) max
  let sides := r.branches.filterMap fun bi =>
    if bi = r.longest then none
    else
      let b := r.br bi
      (r.at bi b.prunedLowest).map fun d => (b.prunedLowest, d.hdr.id)
  removeDuplicateHashes ((sortHH (acc ++ sides)).map (·.2))

def verifyOnlyLocator (r : Repo) : List Nat :=
  let req : List HH := match r.cfg.required with
    | some s => [(s.height - 1, s.before)]
    | none => []
  let sp : List HH := r.cfg.splits.map fun s => (s.height - 1, s.before)
  removeDuplicateHashes ((sortHH (req ++ sp)).map (·.2))

end BRV.Repo
