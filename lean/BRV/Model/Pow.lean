/-
Executable model of the proof-of-work code paths that decide C02:

* github.com/tokenized/pkg/bitcoin/proof_of_work.go: `ConvertToDifficulty`, `ConvertToWork`,
  `ConvertToBits`, `MaxBits`, `MaxWork` (dependency pinned by /repo/go.sum),
* /repo/headers/proof_of_work.go: `Branch.TimeAndWork`, `Branch.MedianTimeAndWork` (with the
  `sort.Sort` of three samples), `Branch.Target`,
* /repo/headers/branches.go: `NewBranch`, `Branch.Add`, `Branch.AtHeight`, `Branch.Find`,
  `Branches.Find`, `Branches.Longest`, `Branch.IntersectHash`,
* the decision sequence of `Repository.ProcessHeader` as far as the `pow` harness exercises it
  (the full repository model with storage, pruning and consolidation is Model/Repo.lean).

Written to follow the Go code statement by statement, quirks included. `uint32`/`uint8`
arithmetic is spelled out with `%`; `*big.Int` values are `Nat`/`Int` (math/big is arbitrary
precision; `Div` is Euclidean, which is what Lean's `Int./` is; `Xor` on a negative operand has
two's complement semantics). A Go run-time panic is an explicit outcome (`none` / `.panic`).
Numbers that the Go code reads from the source of /repo come from `BRV.Facts`.
-/
import BRV.Gen.Facts

namespace BRV.Pow

/-! ### constants of the bitcoin package (compared with the package by the harness op `consts`) -/

/-- `bitcoin.MaxBits`. -/
def maxBits : Nat := 0x1d00ffff
/-- `bitcoin.All256Bits` = "ff" × 32. -/
def all256Bits : Nat := 2 ^ 256 - 1
/-- `bitcoin.MaxWork` = "ff" × 28. -/
def maxWork : Nat := 2 ^ 224 - 1

/-! ### ConvertToDifficulty -/

/-- `big.Int.SetBytes`: big-endian value of a byte slice. -/
def beNat (b : List Nat) : Nat := b.foldl (fun acc x => acc * 256 + x) 0

/-- `b[i] = v` on a slice: `none` is Go's "index out of range" run-time panic. -/
def setIdx (b : List Nat) (i v : Nat) : Option (List Nat) :=
  if i < b.length then some (b.set i v) else none

/-- `ConvertToDifficulty(bits uint32) *big.Int`; `none` = the Go code panics.

```go
length := uint8((bits >> 24) & 0xff)
if (bits & 0x00ff0000) == 0 { length--; bits <<= 8 }     // uint8 wrap 0 -> 255, uint32 shift
b := make([]byte, length)
if length > 0  { b[0] = uint8((bits >> 16) & 0xff) }
if length >= 1 { b[1] = uint8((bits >> 8) & 0xff) }      // index out of range when length == 1
if length > 2  { b[2] = uint8(bits & 0xff) }
result.SetBytes(b)
``` -/
def convertToDifficulty (bits0 : Nat) : Option Nat :=
  let bits0 := bits0 % 2 ^ 32
  let length0 := bits0 / 2 ^ 24 % 256
  let hiZero : Bool := bits0 / 2 ^ 16 % 256 == 0
  let length := if hiZero then (length0 + 255) % 256 else length0
  let bits := if hiZero then bits0 * 256 % 2 ^ 32 else bits0
  let b := List.replicate length 0
  (if length > 0 then setIdx b 0 (bits / 2 ^ 16 % 256) else some b).bind fun b =>
  (if length ≥ 1 then setIdx b 1 (bits / 2 ^ 8 % 256) else some b).bind fun b =>
  (if length > 2 then setIdx b 2 (bits % 256) else some b).bind fun b =>
  some (beNat b)

/-- the compact words on which `ConvertToDifficulty` panics (see `C02_decode_panics_iff`):
    the effective length is 1, i.e. exponent byte 1 with a non-zero high mantissa byte, or
    exponent byte 2 with a zero high mantissa byte. -/
def bitsPanics (bits : Nat) : Bool :=
  let e := bits % 2 ^ 32 / 2 ^ 24
  let hi := bits % 2 ^ 32 / 2 ^ 16 % 256
  (e == 1 && hi != 0) || (e == 2 && hi == 0)

/-- `bitsAreValid(bits uint32) bool` of /repo/headers/proof_of_work.go (repository fixes 192cc38,
    04c364b), the first check of `ProcessHeader`:

```go
if (bits & 0x00800000) != 0 { return false }   // sign bit set
if (bits & 0x007fffff) == 0 { return false }   // zero target
length := uint8((bits >> 24) & 0xff)
if length == 0 || length > 32 { return false } // zero or more than 256 bits
if (bits & 0x00ff0000) == 0 { length-- }
return length != 1
``` -/
def bitsAreValid (bits0 : Nat) : Bool :=
  let bits0 := bits0 % 2 ^ 32
  if bits0 / 2 ^ 23 % 2 != 0 then false
  else if bits0 % 2 ^ 23 == 0 then false
  else
    let length0 := bits0 / 2 ^ 24 % 256
    if length0 == 0 || decide (length0 > 32) then false
    else
      let length := if bits0 / 2 ^ 16 % 256 == 0 then (length0 + 255) % 256 else length0
      length != 1

/-! ### ConvertToWork -/

/-- `big.Int.Xor` of a non-negative `x` with any `y` (math/big: `x ^ (-y) == -((x ^ (y-1)) + 1)`). -/
def xorBig (x : Nat) (y : Int) : Int :=
  if 0 ≤ y then ((x ^^^ y.toNat : Nat) : Int) else -(((x ^^^ (-y - 1).toNat : Nat) : Int) + 1)

/-- `ConvertToWork(difficulty *big.Int) *big.Int` on any big.Int; `none` = "division by zero"
    panic (difficulty = −1). `(All256Bits XOR d) / (d + 1) + 1` with Euclidean `Div`. -/
def convertToWorkInt (d : Int) : Option Int :=
  if d + 1 = 0 then none else some (xorBig all256Bits d / (d + 1) + 1)

/-- `ConvertToWork` on the non-negative values that occur (never panics there). For
    `d ≥ 2^256` the XOR is the XOR of naturals, not a subtraction. -/
def convertToWork (d : Nat) : Nat := (all256Bits ^^^ d) / (d + 1) + 1

/-- work of one header: `ConvertToWork(ConvertToDifficulty(bits))` (NewBranch / Branch.Add). -/
def blockWork (bits : Nat) : Option Nat := (convertToDifficulty bits).map convertToWork

/-! ### ConvertToBits -/

/-- `len(difficulty.Bytes())`: number of bytes of the minimal big-endian form (0 for 0). -/
def byteLen (d : Nat) : Nat := if d = 0 then 0 else d.log2 / 8 + 1

/-- `ConvertToBits(difficulty *big.Int, max uint32) uint32` (uses the absolute value's bytes).

```go
b := difficulty.Bytes(); length := uint32(len(b))
var value uint32
for i := 0; i < 3; i++ { value <<= 8; if i < length { value += uint32(b[i]) } }
maxLength := (max >> 24) & 0xff; maxValue := max & 0x00ffffff
if maxLength < length || (maxLength == length && maxValue < value) { length = maxLength; value = maxValue }
if value&0x00800000 != 0 { length++; value >>= 8 }
result := uint32(length << 24); result |= value & 0x00ffffff
``` -/
def convertToBits (d max : Nat) : Nat :=
  let length := byteLen d
  -- the three most significant bytes, left aligned when there are fewer than three
  let value := if 3 ≤ length then d / 256 ^ (length - 3) else d * 256 ^ (3 - length)
  let maxLength := max % 2 ^ 32 / 2 ^ 24
  let maxValue := max % 2 ^ 24
  let capped : Bool := decide (maxLength < length) || (maxLength == length && decide (maxValue < value))
  let length := if capped then maxLength else length
  let value := if capped then maxValue else value
  let pad : Bool := value / 2 ^ 23 % 2 == 1
  let length := if pad then length + 1 else length
  let value := if pad then value / 256 else value
  length * 2 ^ 24 % 2 ^ 32 + value % 2 ^ 24

/-! ### median of three: `sort.Sort` on a 3-element `timeAndWorkList` -/

structure Sample where
  time : Nat        -- uint32 header timestamp
  work : Nat        -- accumulated work of that header
deriving DecidableEq, Repr, Inhabited

/-- inner loop of Go's `insertionSort` (`sort.Sort` uses it for n ≤ 12):
    `for j := i; j > a && data.Less(j, j-1); j-- { data.Swap(j, j-1) }`.
    The already sorted prefix is passed reversed (head = element at `i-1`). -/
def sink (x : Sample) : List Sample → List Sample
  | [] => [x]
  | y :: ys => if x.time < y.time then y :: sink x ys else x :: y :: ys

/-- `sort.Sort(list)` for short lists: insertion sort, stable (the `else` branch of
    `MedianTimeAndWork`, not taken with the count of 3 that `Target` passes). -/
def sortGo (l : List Sample) : List Sample := (l.foldl (fun rp x => sink x rp) []).reverse

/-- the three compare-and-swap steps `MedianTimeAndWork` performs when `count == 3`
    (`list[0].time > list[2].time → Swap(0,2)`, then (0,1), then (1,2)); the resulting list. -/
def swapNet3 (a b c : Sample) : Sample × Sample × Sample :=
  let (x0, x2) := if a.time > c.time then (c, a) else (a, c)
  let x1 := b
  let (y0, y1) := if x0.time > x1.time then (x1, x0) else (x0, x1)
  let (z1, z2) := if y1.time > x2.time then (x2, y1) else (y1, x2)
  (y0, z1, z2)

/-- `MedianTimeAndWork`'s choice among three samples: `a` is the OLDEST (height−2, `list[0]`), `c` the
    newest (height, `list[2]`); `if count == 3 { three swaps } else { sort.Sort(list) }`, then
    `list[count/2]`. `count` is the literal at the two call sites in `Target`. -/
def median3 (a b c : Sample) : Sample :=
  if Facts.daaMedianCountLast == 3 then
    let l := swapNet3 a b c
    [l.1, l.2.1, l.2.2].getD (Facts.daaMedianCountLast / 2) a
  else (sortGo [a, b, c]).getD (Facts.daaMedianCountLast / 2) a

/-! ### Branch.Target on the two median samples -/

/-- does the source compute `timeSpan := lastTime - firstTime` on `uint32` operands? -/
def spanIsUint32 : Bool :=
  Facts.medianTimeType == "uint32" && Facts.daaTimeSpanExpr == "lastTime - firstTime"

/-- `timeSpan := lastTime - firstTime`: wraps modulo 2^32 while the operands are `uint32`. -/
def timeSpan (lastTime firstTime : Nat) : Int :=
  if spanIsUint32 then (((lastTime + 2 ^ 32 - firstTime) % 2 ^ 32 : Nat) : Int)
  else (lastTime : Int) - (firstTime : Int)

/-- the two `if`s that apply the time span limits. -/
def clampSpan (ts : Int) : Int :=
  let ts := if ts < (Facts.daaMinSpan : Int) then (Facts.daaMinSpan : Int) else ts
  if ts > (Facts.daaMaxSpan : Int) then (Facts.daaMaxSpan : Int) else ts

/-- `Branch.Target` after the two medians are known (all `*big.Int`; `Div` is Euclidean and the
    divisor `timeSpan` is ≥ 72·600, so nothing here can panic):

```go
work.Sub(lastWork, firstWork)
projected.Mul(work, big.NewInt(600)); projected.Div(projected, big.NewInt(timeSpan))
if projected.Sign() <= 0 { return MaxWork }
target.Lsh(big.NewInt(1), 256); target.Sub(target, projected); target.Div(target, projected)
if target.Cmp(bitcoin.MaxWork) > 0 { target.Set(bitcoin.MaxWork) }
``` -/
def targetOfSamples (last first : Sample) : Int :=
  let span := clampSpan (timeSpan last.time first.time)
  let work : Int := (last.work : Int) - (first.work : Int)
  let projected : Int := work * (Facts.daaTargetSpacing : Int) / span
  if projected ≤ 0 then (maxWork : Int)
  else
    let t : Int := ((2 : Int) ^ 256 - projected) / projected
    if t > (maxWork : Int) then (maxWork : Int) else t

/-- `bitcoin.ConvertToBits(target, bitcoin.MaxBits)` as ProcessHeader applies it. -/
def targetBits (t : Int) : Nat := convertToBits t.natAbs maxBits

/-! ### branches -/

structure Hdr where
  hash : Nat
  prev : Nat
  time : Nat
  bits : Nat
  acc : Nat           -- AccumulatedWork
deriving DecidableEq, Repr, Inhabited

/-- a `*Branch`: `parent` is an index into the list of all branches; `offset` stays 1 (nothing
    is pruned in the histories modelled here). -/
structure Branch where
  parent : Option Nat
  parentHeight : Int
  hdrs : List Hdr
deriving Repr, Inhabited

abbrev Branches := List Branch

/-- `Branch.Height()`. -/
def Branch.height (b : Branch) : Int := b.parentHeight + 1 + (b.hdrs.length : Int) - 1

/-- `Branch.AtHeight` (recursion through `parent`, bounded by `fuel`). -/
def atHeightF : Nat → Branches → Nat → Int → Option Hdr
  | 0, _, _, _ => none
  | fuel + 1, bs, i, h =>
    match bs[i]? with
    | none => none
    | some b =>
      if h > b.parentHeight then
        let off := h - b.parentHeight - 1
        if off ≥ (b.hdrs.length : Int) then none else b.hdrs[off.toNat]?
      else
        match b.parent with
        | none => none
        | some p => atHeightF fuel bs p h

def atHeight (bs : Branches) (i : Nat) (h : Int) : Option Hdr := atHeightF (bs.length + 1) bs i h

/-- `Branch.TimeAndWork`: `none` = ErrHeaderDataNotFound. -/
def timeAndWork (bs : Branches) (i : Nat) (h : Int) : Option Sample :=
  (atHeight bs i h).map fun d => { time := d.time, work := d.acc }

/-- `Branch.MedianTimeAndWork(ctx, height, 3)`: reads heights `h, h−1, h−2` in this order, fills
    `list[count-i-1]`, sorts, takes `list[count/2]`. -/
def medianTimeAndWork (bs : Branches) (i : Nat) (h : Int) : Option Sample :=
  (timeAndWork bs i h).bind fun s2 =>
  (timeAndWork bs i (h - 1)).bind fun s1 =>
  (timeAndWork bs i (h - 2)).bind fun s0 =>
  some (median3 s0 s1 s2)

inductive TargetResult
  | ok (t : Int)
  | errLast          -- "last header stats": ErrHeaderDataNotFound
  | errFirst         -- "first header stats": ErrHeaderDataNotFound
deriving DecidableEq, Repr

/-- `Branch.Target(ctx, height)`. -/
def target (bs : Branches) (i : Nat) (height : Int) : TargetResult :=
  match medianTimeAndWork bs i (height - (Facts.daaLastOffset : Int)) with
  | none => .errLast
  | some last =>
    match medianTimeAndWork bs i (height - (Facts.daaFirstOffset : Int)) with
    | none => .errFirst
    | some first =>
      .ok (targetOfSamples last first)

inductive BranchResult
  | ok
  | errNotFound        -- ErrHeaderDataNotFound
  | errWrongPrev       -- ErrWrongPreviousHash (NewBranch) / `false` (Add)
  | noBranch           -- harness-level: unknown branch name
  | panic
deriving DecidableEq, Repr

/-- `NewBranch(parent, parentHeight, header)`; the new branch is appended to the list. -/
def newBranch (bs : Branches) (parent : Option Nat) (ph : Int) (hash prev time bits : Nat) :
    Branches × BranchResult :=
  -- work.Set(last.AccumulatedWork) when there is a parent, after the two checks
  let start : Except BranchResult Nat :=
    match parent with
    | none => .ok 0
    | some p =>
      match atHeight bs p ph with
      | none => .error .errNotFound
      | some last => if last.hash = prev then .ok last.acc else .error .errWrongPrev
  match start with
  | .error e => (bs, e)
  | .ok w =>
    match blockWork bits with
    | none => (bs, .panic)
    | some bw => (bs ++ [{ parent := parent, parentHeight := ph,
                           hdrs := [{ hash, prev, time, bits, acc := w + bw }] }], .ok)

/-- `Branch.Add(header)`. -/
def addHeader (bs : Branches) (i : Nat) (hash prev time bits : Nat) : Branches × BranchResult :=
  match bs[i]? with
  | none => (bs, .noBranch)
  | some b =>
    match b.hdrs.getLast? with
    | none => (bs, .noBranch)
    | some last =>
      if last.hash ≠ prev then (bs, .errWrongPrev) else
      match blockWork bits with
      | none => (bs, .panic)
      | some bw =>
        (bs.set i { b with hdrs := b.hdrs ++ [{ hash, prev, time, bits, acc := last.acc + bw }] }, .ok)

/-! ### the part of `Repository.ProcessHeader` the harness exercises -/

/-- position of a hash in a branch's own `heightsMap`. -/
def ownFind (b : Branch) (hash : Nat) : Option Int :=
  match b.hdrs.findIdx? (fun d => d.hash == hash) with
  | none => none
  | some k => some (b.parentHeight + 1 + (k : Int))

/-- `Branch.Find(hash)`: own map, then the parent chain (also above the fork point). -/
def branchFindF : Nat → Branches → Nat → Nat → Option Int
  | 0, _, _, _ => none
  | fuel + 1, bs, i, hash =>
    match bs[i]? with
    | none => none
    | some b =>
      match ownFind b hash with
      | some h => some h
      | none =>
        match b.parent with
        | none => none
        | some p => branchFindF fuel bs p hash

def branchFind (bs : Branches) (i : Nat) (hash : Nat) : Option Int :=
  branchFindF (bs.length + 1) bs i hash

/-- `Branches.Find(hash)`: first branch, in list order, that finds it. -/
def branchesFind (bs : Branches) (hash : Nat) : Option (Nat × Int) :=
  (List.range bs.length).findSome? fun i => (branchFind bs i hash).map fun h => (i, h)

def lastAcc (b : Branch) : Nat := (b.hdrs.getLast?.map (·.acc)).getD 0

/-- `Branches.Longest()`: first branch with the greatest accumulated work. -/
def longestOf (bs : Branches) : Nat :=
  ((List.range bs.length).foldl (fun (r : Option (Nat × Nat)) i =>
      match r, bs[i]? with
      | none, some b => some (i, lastAcc b)
      | some (j, w), some b => if lastAcc b > w then some (i, lastAcc b) else some (j, w)
      | r, none => r) none).map (·.1) |>.getD 0

/-- is `other` the parent of `start` or of one of its ancestors? (one loop of `IntersectHash`) -/
def reachesF : Nat → Branches → Nat → Nat → Bool
  | 0, _, _, _ => false
  | fuel + 1, bs, cur, other =>
    match bs[cur]? with
    | none => false
    | some b =>
      match b.parent with
      | none => false
      | some p => if p = other then true else reachesF fuel bs p other

/-- `branch.IntersectHash(previousLongest) != nil`. -/
def intersects (bs : Branches) (b other : Nat) : Bool :=
  reachesF (bs.length + 1) bs b other || reachesF (bs.length + 1) bs other b

structure Repo where
  bs : Branches := []
  longest : Nat := 0
  diffOn : Bool := true          -- !repo.disableDifficulty
deriving Repr, Inhabited

inductive Verdict
  | ok                     -- nil: added, or already held
  | notEnoughWork
  | wrongChain
  | unknownHeader
  | invalidTarget
  | targetErr              -- "calculate target": header data not found
  | beyondDepth
  | newBranchErr
  | intersectErr           -- "send branch update": Intersect not found (after the header was added)
  | panic
deriving DecidableEq, Repr

/-- hash of the main-net genesis header (`genesisHeader(bitcoin.MainNet).BlockHash()`). -/
def genesisHash : Nat := 0x000000000019d6689c085ae165831e934ff763ae46a2a6c172b3f1b60a8ce26f

/-- the activation test of ProcessHeader, `height >= 556767`, with the operator and the number as
    extracted from the source. -/
def daaActive (height : Int) : Bool :=
  if Facts.daaHeightOp == ">" then decide (height > (Facts.daaHeight : Int))
  else decide (height ≥ (Facts.daaHeight : Int))

/-- `MockLatest(header, height, work)`: a repository holding one root branch with one header. -/
def mockLatest (r : Repo) (height : Int) (work : Nat) (hash prev time bits : Nat) : Repo × Bool :=
  match blockWork bits with
  | none => (r, false)       -- NewBranch panics
  | some _ =>
    ({ r with bs := [{ parent := none, parentHeight := height - 1,
                       hdrs := [{ hash, prev, time, bits, acc := work }] }], longest := 0 }, true)

/-- the difficulty adjustment check of `ProcessHeader`:
    `if height >= 556767 && !repo.disableDifficulty { target, err := previousBranch.Target(ctx, height) …
     bits := bitcoin.ConvertToBits(target, bitcoin.MaxBits); if bits != header.Bits { ErrInvalidTarget } }`. -/
def daaCheck (r : Repo) (pb : Nat) (height : Int) (bits : Nat) : Verdict :=
  if daaActive height && r.diffOn then
    match target r.bs pb height with
    | .ok t => if targetBits t ≠ bits % 2 ^ 32 then .invalidTarget else .ok
    | _ => .targetErr
  else .ok

/-- the end of `ProcessHeader`: add the header to `previousBranch` or start a new branch, then
    re-elect the longest branch. -/
def linkHeader (r : Repo) (pb : Nat) (previousHeight : Int) (hash prev time bits : Nat) : Repo × Verdict :=
  match r.bs[pb]? with
  | none => (r, .panic)
  | some b =>
    match b.hdrs.getLast? with
    | none => (r, .panic)
    | some last =>
      if last.hash ≠ prev then
        let longestHeight := (r.bs[r.longest]?.map Branch.height).getD 0
        if longestHeight - previousHeight > (Facts.defaultMaxBranchDepth : Int) then (r, .beyondDepth) else
        match newBranch r.bs (some pb) previousHeight hash prev time bits with
        | (bs', .ok) =>
          let l := longestOf bs'
          if l ≠ r.longest then
            if intersects bs' l r.longest then ({ r with bs := bs', longest := l }, .ok)
            else ({ r with bs := bs' }, .intersectErr)
          else ({ r with bs := bs' }, .ok)
        | (_, .panic) => (r, .panic)
        | (_, _) => (r, .newBranchErr)
      else
        match addHeader r.bs pb hash prev time bits with
        | (bs', .ok) =>
          if pb ≠ r.longest then
            let l := longestOf bs'
            if l ≠ r.longest then
              if intersects bs' l r.longest then ({ r with bs := bs', longest := l }, .ok)
              else ({ r with bs := bs' }, .intersectErr)
            else ({ r with bs := bs' }, .ok)
          else ({ r with bs := bs' }, .ok)
        | (_, .panic) => (r, .panic)
        | (_, _) => (r, .newBranchErr)

/-- `Repository.ProcessHeader` after its two proof-of-work statements: find the previous header,
    duplicate check, split protection, difficulty adjustment check, then link (split protection on,
    no invalid-hash list, default branch depth, no auto-clean height reached). -/
def processLinked (r : Repo) (hash prev time bits : Nat) : Repo × Verdict :=
  match branchesFind r.bs prev with
  | none =>
    if Facts.splits.any (fun s => s.2.2.1 == hash) then (r, .wrongChain)
    else if prev = genesisHash then (r, .wrongChain)
    else (r, .unknownHeader)
  | some (pb, previousHeight) =>
    let height := previousHeight + 1
    match branchesFind r.bs hash with
    | some _ => (r, .ok)
    | none =>
    if Facts.splits.any (fun s => (s.2.2.2 : Int) == height && s.2.2.1 == hash) then (r, .wrongChain)
    else if Facts.requiredSplit.any (fun s => (s.2.2.2 : Int) == height && s.2.2.1 != hash) then (r, .wrongChain)
    else if daaCheck r pb height bits ≠ .ok then (r, daaCheck r pb height bits)
    else linkHeader r pb previousHeight hash prev time bits

/-- `Repository.ProcessHeader`. `hash` is the header's double-SHA256 as a number, an input. -/
def processHeader (r : Repo) (hash prev time bits : Nat) : Repo × Verdict :=
  -- if !bitsAreValid(header.Bits) { return errors.Wrapf(ErrInvalidTarget, "malformed bits ...") }
  if !bitsAreValid bits then (r, .invalidTarget) else
  -- if !repo.disableDifficulty && !header.WorkIsValid() { return ErrNotEnoughWork }
  let powCheck : Option Bool :=
    if r.diffOn then (convertToDifficulty bits).map (fun t => decide (hash ≤ t)) else some true
  match powCheck with
  | none => (r, .panic)
  | some false => (r, .notEnoughWork)
  | some true => processLinked r hash prev time bits

end BRV.Pow
