/- The main-net / test-net configurations as `NewRepository` builds them from the split tables
   extracted from the source (`BRV.Facts.splits`, `BRV.Facts.requiredSplit`). Split hashes get
   small ids: distinct hash values numbered from 900001 in order of first appearance. -/
import BRV.Model.RepoOps

namespace BRV.Repo

def specialBase : Nat := 900000

def splitIds : List (Nat × Nat) :=
  let hashes := (Facts.splits ++ Facts.requiredSplit).foldl (fun acc (_, b, a, _) =>
    let acc := if acc.contains b then acc else acc ++ [b]
    if acc.contains a then acc else acc ++ [a]) ([] : List Nat)
  hashes.zipIdx.map fun (h, i) => (h, specialBase + 1 + i)

def idOfHash (h : Nat) : Nat := (List.lookup h splitIds).getD 0

def mkSplit (e : String × Nat × Nat × Nat) : Split :=
  { name := e.1, before := idOfHash e.2.1, after := idOfHash e.2.2.1, height := (e.2.2.2 : Int) }

/-- insertion sort, highest height first (sort.Sort of `Splits`). -/
def sortSplits (l : List Split) : List Split :=
  l.foldl (fun acc x =>
    let rec ins : List Split → List Split
      | [] => [x]
      | y :: ys => if x.height > y.height then x :: y :: ys else y :: ins ys
    ins acc) []

def mainCfg (maxDepth : Int) (inv : List Nat) : Cfg :=
  { mainNet := true, maxBranchDepth := maxDepth, cfgInvalid := inv, genesisId := 0,
    splits := sortSplits (Facts.splits.map mkSplit), required := (Facts.requiredSplit.map mkSplit).head? }

def testCfg (maxDepth : Int) (inv : List Nat) : Cfg :=
  { mainNet := false, maxBranchDepth := maxDepth, cfgInvalid := inv, genesisId := 0 }

end BRV.Repo
