/-
Byte-level model of the message loop of /repo: `handleMessage` (handlers.go), `readHeader`,
`readMessage`, `DiscardInput`, `DiscardInputWithCounter` (messages.go) and every handler's byte
accounting, following the Go code statement by statement.

Conventions
* `inp` is everything the peer has sent and the node has not yet consumed. A read of `k` bytes
  when fewer are available is the outcome `need` (the goroutine waits in `io.ReadFull`); the
  driver re-runs the message from its first byte when more input arrives.
* Every handler body returns `HOut`: state, effects so far, bytes it read itself (`used`, what the
  `WriteCounter` counted) and how the body ended. `finish` then performs the deferred
  `DiscardInputWithCounter(r, header.Length, counter)`: it reads `(L − used) mod 2^64` more bytes
  (uint64 wrap when the body over-read its declared length: effectively "swallow the stream").
* Allocation. `readMessage` (repository fix 716cf63) reads the payload into a buffer that grows
  with the bytes received; before the fix it did `make([]byte, header.Length)` up front. What is
  left are the `make(count)` calls inside the dependency's decoders: a request above the runtime's
  `maxAlloc` panics ("makeslice: len out of range"), which the handler goroutine now recovers
  (fix 97ac3db: error, connection closed); a request ≤ `maxAlloc` but larger than `env.mem` (what
  the host grants) is a fatal out-of-memory: outcome `panic`, the process aborts.
* The dependency's decoders (`wire.Msg*.BtcDecode`) are modelled by contract: which byte strings
  decode, and which sizes they pass to `make` before the data is read. They are validated by the
  differential runs, not proved about the Go code.
* SHA-256d is a parameter (`env.hash`, ideal hash); the driver plugs the real function in.
-/
import BRV.Model.Node

namespace BRV.Wire
open BRV BRV.Node

structure Env where
  net : Bytes                      -- 4 magic bytes of config.Network
  mem : Nat                        -- an allocation larger than this aborts the process
  hash : Bytes → Bytes             -- SHA-256d
  verifyOk : Bytes → Bool          -- HeaderRepository.VerifyHeader(header80) == nil
  processOk : Bytes → Bool         -- HeaderRepository.ProcessHeader(header80) == nil

def two64 : Nat := 18446744073709551616               -- 2^64
def maxInt64 : Nat := 9223372036854775807            -- math.MaxInt64
def maxAlloc : Nat := 281474976710656                 -- runtime maxAlloc on linux/amd64 (2^48)
def maxMessagePayload : Nat := 0x0000ffffffffffff      -- wire.MaxMessagePayload
def maxBlockPayload : Nat := 18446744073709551615      -- wire.MaxBlockPayload = math.MaxUint64

/-! ### sequential reads -/

inductive Rd (α : Type)
  | ok (a : α) (rest : Bytes)
  | need            -- fewer bytes available than the read wants
  | err             -- the reader returned an error other than lack of input
deriving Repr

def readN (k : Nat) (b : Bytes) : Rd Bytes :=
  if b.length < k then .need else .ok (b.take k) (b.drop k)

def leVal : Bytes → Nat
  | [] => 0
  | x :: r => x % 256 + 256 * leVal r

def beVal (b : Bytes) : Nat := leVal b.reverse

def readLE (k : Nat) (b : Bytes) : Rd Nat :=
  match readN k b with
  | .ok v r => .ok (leVal v) r
  | .need => .need
  | .err => .err

/-- `wire.ReadVarInt` including the canonical-encoding checks. -/
def readVarInt (b : Bytes) : Rd Nat :=
  match b with
  | [] => .need
  | d :: r =>
    if d % 256 < 0xfd then .ok (d % 256) r
    else if d % 256 = 0xfd then
      match readLE 2 r with
      | .ok v r' => if v < 0xfd then .err else .ok v r'
      | .need => .need
      | .err => .err
    else if d % 256 = 0xfe then
      match readLE 4 r with
      | .ok v r' => if v < 0x10000 then .err else .ok v r'
      | .need => .need
      | .err => .err
    else
      match readLE 8 r with
      | .ok v r' => if v < 0x100000000 then .err else .ok v r'
      | .need => .need
      | .err => .err

/-- bytes a failed (non-canonical) varint read consumed: the discriminant and its full width. -/
def varIntWidth (b : Bytes) : Nat :=
  match b with
  | [] => 0
  | d :: _ => if d % 256 < 0xfd then 1 else if d % 256 = 0xfd then 3 else if d % 256 = 0xfe then 5 else 9

def varIntEnc (n : Nat) : Bytes :=
  if n < 0xfd then [n]
  else if n < 0x10000 then 0xfd :: leN 2 n
  else if n < 0x100000000 then 0xfe :: leN 4 n
  else 0xff :: leN 8 n

/-! ### decoders of the dependency, by contract (inside `readMessage` the whole payload is in a
    `bytes.Buffer`, so lack of data is an error, never a wait) -/

inductive Dec (α : Type)
  | ok (a : α)
  | err
  | oom            -- asked `make` for more than `mem`
deriving Repr

/-- `make` of `n` bytes inside a decoder: `err` = recovered makeslice panic, `oom` = fatal. -/
def allocCheck (mem n : Nat) : Dec Unit :=
  if n > maxAlloc then .err else if n > mem then .oom else .ok ()

/-- buffer read of `k` bytes. -/
def bufN (k : Nat) (b : Bytes) : Option (Bytes × Bytes) :=
  if b.length < k then none else some (b.take k, b.drop k)

/-- `ReadVarInt` on a buffer (short = error). -/
def bufVarInt (b : Bytes) : Option (Nat × Bytes) :=
  match readVarInt b with
  | .ok v r => some (v, r)
  | _ => none

/-- `ReadVarString` / `ReadVarBytes` with limit `MaxMessagePayload`: `make([]byte, count)` BEFORE
    the data is read. -/
def bufVarBytes (mem : Nat) (b : Bytes) : Dec (Bytes × Bytes) :=
  match bufVarInt b with
  | none => .err
  | some (count, r) =>
    if count > maxMessagePayload then .err
    else match allocCheck mem count with
      | .err => .err
      | .oom => .oom
      | .ok _ =>
        match bufN count r with
        | none => .err
        | some (v, r') => .ok (v, r')

/-- `readScript`: scripts up to 512 bytes come from a pool, larger ones are `make`d up front. -/
def bufScript (mem : Nat) (b : Bytes) : Dec (Nat × Bytes) :=
  match bufVarInt b with
  | none => .err
  | some (count, r) =>
    if count > maxMessagePayload then .err
    else match (if count > 512 then allocCheck mem count else .ok ()) with
      | .err => .err
      | .oom => .oom
      | .ok _ =>
        match bufN count r with
        | none => .err
        | some (_, r') => .ok (count, r')

/-- `MsgVersion.BtcDecode`. -/
def decVersion (mem : Nat) (p : Bytes) : Dec Unit :=
  match bufN 20 p with
  | none => .err
  | some (_, r0) =>
  match bufN 26 r0 with            -- AddrYou
  | none => .err
  | some (_, r1) =>
  if r1.isEmpty then .ok () else
  match bufN 26 r1 with            -- AddrMe
  | none => .err
  | some (_, r2) =>
  if r2.isEmpty then .ok () else
  match bufN 8 r2 with             -- Nonce
  | none => .err
  | some (_, r3) =>
  if r3.isEmpty then .ok () else
  match bufVarBytes mem r3 with    -- UserAgent
  | .err => .err
  | .oom => .oom
  | .ok (ua, r4) =>
  if ua.length > 256 then .err else
  if r4.isEmpty then .ok () else
  match bufN 4 r4 with             -- LastBlock
  | none => .err
  | some (_, _) => .ok ()          -- the relay flag is read ignoring errors

/-- `MsgReject.BtcDecode`. -/
def decReject (mem : Nat) (p : Bytes) : Dec Unit :=
  match bufVarBytes mem p with
  | .err => .err
  | .oom => .oom
  | .ok (cmd, r1) =>
  match bufN 1 r1 with
  | none => .err
  | some (_, r2) =>
  match bufVarBytes mem r2 with
  | .err => .err
  | .oom => .oom
  | .ok (_, r3) =>
  if cmd = [98, 108, 111, 99, 107] ∨ cmd = [116, 120] then   -- "block" / "tx"
    match bufN 32 r3 with
    | none => .err
    | some _ => .ok ()
  else .ok ()

/-- `MsgProtoconf.BtcDecode`. -/
def decProtoconf (mem : Nat) (p : Bytes) : Dec Unit :=
  match bufVarInt p with
  | none => .err
  | some (n, r1) =>
  if n = 0 then .err else
  match bufN 4 r1 with
  | none => .err
  | some (_, r2) =>
  if n = 1 then .ok () else
  match bufVarBytes mem r2 with
  | .err => .err
  | .oom => .oom
  | .ok _ => .ok ()

/-- the `count` 30-byte addresses of `MsgAddr.BtcDecode`; result: the ports. -/
def decAddrs : Nat → Bytes → Option (List Nat)
  | 0, _ => some []
  | k+1, b =>
    match bufN 30 b with
    | none => none
    | some (a, r) =>
      match decAddrs k r with
      | none => none
      | some ps => some (beVal (a.drop 28) :: ps)

def decAddr (p : Bytes) : Dec (List Nat) :=
  match bufVarInt p with
  | none => .err
  | some (count, r) =>
    if count > 1000 then .err
    else match decAddrs count r with
      | none => .err
      | some ps => .ok ps

def maxTxInPerMessage : Nat := maxMessagePayload / 41 + 1
def maxTxOutPerMessage : Nat := maxMessagePayload / 9 + 1
def txInSize : Nat := 72      -- sizeof(wire.TxIn): `make([]TxIn, count)`
def txOutSize : Nat := 32     -- sizeof(wire.TxOut): `make([]TxOut, count)`

def decTxIns (mem : Nat) : Nat → Bytes → Dec Bytes
  | 0, b => .ok b
  | k+1, b =>
    match bufN 36 b with
    | none => .err
    | some (_, r1) =>
      match bufScript mem r1 with
      | .err => .err
      | .oom => .oom
      | .ok (_, r2) =>
        match bufN 4 r2 with
        | none => .err
        | some (_, r3) => decTxIns mem k r3

def decTxOuts (mem : Nat) : Nat → Bytes → Dec Bytes
  | 0, b => .ok b
  | k+1, b =>
    match bufN 8 b with
    | none => .err
    | some (_, r1) =>
      match bufScript mem r1 with
      | .err => .err
      | .oom => .oom
      | .ok (_, r2) => decTxOuts mem k r2

/-- `MsgTx.BtcDecode`: the remaining bytes after the transaction. The per-input / per-output
    slices are `make`d from the declared counts before any item is read. Loops are bounded by the
    data (each item needs ≥ 1 byte), so `min count (len+1)` iterations decide the result. -/
def decTx (mem : Nat) (p : Bytes) : Dec Bytes :=
  match bufN 4 p with
  | none => .err
  | some (_, r0) =>
  match bufVarInt r0 with
  | none => .err
  | some (nIn, r1) =>
  if nIn > maxTxInPerMessage then .err else
  match allocCheck mem (nIn * txInSize) with
  | .err => .err
  | .oom => .oom
  | .ok _ =>
  match decTxIns mem (min nIn (r1.length + 1)) r1 with
  | .err => .err
  | .oom => .oom
  | .ok r2 =>
  match bufVarInt r2 with
  | none => .err
  | some (nOut, r3) =>
  if nOut > maxTxOutPerMessage then .err else
  match allocCheck mem (nOut * txOutSize) with
  | .err => .err
  | .oom => .oom
  | .ok _ =>
  match decTxOuts mem (min nOut (r3.length + 1)) r3 with
  | .err => .err
  | .oom => .oom
  | .ok r4 =>
  match bufN 4 r4 with
  | none => .err
  | some (_, r5) => .ok r5

/-! ### handler bodies -/

inductive Res
  | ok        -- handler body returned nil
  | err       -- returned an error: readIncoming ends, the node stops
  | stop      -- called n.Stop (connection closed locally) and returned
  | need      -- waiting for input
  | wedge     -- blocked for ever on a channel send (no handler produces it since fix 62ac204: C14_never_wedges)
  | panic     -- process abort
deriving DecidableEq, Repr

structure HOut where
  st : State
  fx : List Effect := []
  used : Nat := 0
  res : Res := .ok
  altDone : Bool := false   -- with `res = need`: the alternate header handler has already returned
deriving Repr

/-- `DiscardInput(r, n)` seen from `avail` available bytes: `none` = still reading. The only
    allocation is the `Facts.discardChunk` buffer. -/
def discard (n avail : Nat) : Option Nat := if avail < n then none else some n

/-- number of reads `DiscardInput` issues: `n / chunk` full chunks and one remainder read. -/
def discardReads (n : Nat) : List Nat :=
  List.replicate (n / Facts.discardChunk) Facts.discardChunk ++
    (if n % Facts.discardChunk > 0 then [n % Facts.discardChunk] else [])

/-- `n - counter.Count()` in uint64. -/
def discardLen (L used : Nat) : Nat := (L % two64 + two64 - used % two64) % two64

/-- the deferred `DiscardInputWithCounter(r, L, counter)` after a handler body: state and effects
    are untouched; only the byte count and (when the discard has to wait) the result change. -/
def finish (L avail : Nat) (o : HOut) : HOut :=
  { o with
    res := match o.res with
      | .ok => if avail - o.used < discardLen L o.used then .need else .ok
      | .err => if avail - o.used < discardLen L o.used then .need else .err
      | r => r
    used := match o.res with
      | .ok => if avail - o.used < discardLen L o.used then o.used else o.used + discardLen L o.used
      | .err => if avail - o.used < discardLen L o.used then o.used else o.used + discardLen L o.used
      | _ => o.used }

/-- `readMessage` up to and including the payload read and the checksum: the payload, or how it
    ended. `classic` = the header command is not `extmsg` (checksum verified). -/
inductive RM
  | payload (p : Bytes)
  | tooLarge          -- L > MaxPayloadLength: discarded L bytes, ErrMessageTooLarge
  | tooLargeNow       -- L > math.MaxInt64: ErrMessageTooLarge at once, nothing read
  | badChecksum
  | need

def readMessage (e : Env) (maxLen L : Nat) (classic : Bool) (ck : Bytes) (inp : Bytes) : RM :=
  if L > maxLen then (if inp.length < L then .need else .tooLarge)
  else if L > maxInt64 then .tooLargeNow
  else if inp.length < L then .need              -- io.CopyN into a growing buffer
  else
    let p := inp.take L
    if classic ∧ (e.hash p).take 4 ≠ ck then .badChecksum else .payload p

/-- shared shape of the `readMessage`-only handlers: outcome of readMessage + decoder. -/
def viaReadMessage (s : State) (rm : RM) (L : Nat) (k : Bytes → HOut) : HOut :=
  match rm with
  | .payload p => k p
  | .tooLarge => { st := s, used := L, res := .err }
  | .tooLargeNow => { st := s, used := 0, res := .err }
  | .badChecksum => { st := s, used := L, res := .err }
  | .need => { st := s, res := .need }

def hVersion (e : Env) (s : State) (L : Nat) (ck inp : Bytes) : HOut :=
  viaReadMessage s (readMessage e 358 L true ck inp) L fun p =>
    match decVersion e.mem p with
    | .err => { st := s, used := L, res := .err }
    | .oom => { st := s, res := .panic }
    | .ok _ => { st := (hsPush s true).1, fx := (hsPush s true).2, used := L }

def hVerack (e : Env) (s : State) (L : Nat) (ck inp : Bytes) : HOut :=
  viaReadMessage s (readMessage e 0 L true ck inp) L fun _ =>
    { st := (hsPush s false).1, fx := (hsPush s false).2, used := L }

def hProtoconf (e : Env) (s : State) (L : Nat) (ck inp : Bytes) : HOut :=
  finish L inp.length <|
  viaReadMessage s (readMessage e maxMessagePayload L true ck inp) L fun p =>
    match decProtoconf e.mem p with
    | .err => { st := s, used := L, res := .err }
    | .oom => { st := s, res := .panic }
    | .ok _ =>
      let s' := { s with protoconfCount := s.protoconfCount + 1 }
      if s'.protoconfCount > 1 then { st := s', used := L, res := .err } else { st := s', used := L }

def hPing (e : Env) (s : State) (L : Nat) (ck inp : Bytes) : HOut :=
  viaReadMessage s (readMessage e 8 L true ck inp) L fun p =>
    if p.length < 8 then { st := s, used := L, res := .err }
    else { st := s, fx := [.send "pong" (leVal (p.take 8))], used := L }

def hPong (e : Env) (s : State) (L : Nat) (ck inp : Bytes) : HOut :=
  viaReadMessage s (readMessage e 8 L true ck inp) L fun p =>
    if p.length < 8 then { st := s, used := L, res := .err }
    else if leVal (p.take 8) ≠ s.pingNonce then { st := s, used := L, res := .err }
    else { st := s, used := L }

def hReject (e : Env) (s : State) (L : Nat) (ck inp : Bytes) : HOut :=
  viaReadMessage s (readMessage e maxMessagePayload L true ck inp) L fun p =>
    match decReject e.mem p with
    | .err => { st := s, used := L, res := .err }
    | .oom => { st := s, res := .panic }
    | .ok _ => { st := s, used := L }

def hAddress (e : Env) (s : State) (L : Nat) (ck inp : Bytes) : HOut :=
  viaReadMessage s (readMessage e 30009 L true ck inp) L fun p =>
    match decAddr p with
    | .err => { st := s, used := L, res := .err }
    | .oom => { st := s, res := .panic }
    | .ok ports => { st := s, fx := ports.map .peersAdd, used := L }

/-- `handleGetAddresses` reads nothing. -/
def hGetAddresses (s : State) : HOut :=
  { st := s, fx := [.peersGet, .send "addr" 0] }

/-- the nonce field (bytes 76..79) identifies a header in effects. -/
def hdrNonce (h : Bytes) : Nat := leVal (h.drop 76)

/-- `deserializeBlockHeader`: 80 bytes and the tx-count varint. -/
def readHeaderItem (b : Bytes) : Rd (Bytes × Nat) :=
  match readN 80 b with
  | .need => .need
  | .err => .err
  | .ok h r =>
    match readVarInt r with
    | .need => .need
    | .err => .err
    | .ok txc r' => .ok (h, txc) r'

/-- bytes consumed by a `deserializeBlockHeader` that failed on its tx-count varint. -/
def hdrItemErrUsed (b : Bytes) : Nat := 80 + min (varIntWidth (b.drop 80)) (b.drop 80).length

/-- what the alternate header handler (`headers.Repository.HandleHeadersMessage` in production)
    makes of the bytes teed to it: the headers it hands to `ProcessHeader` (first failing header
    included) and whether it has returned (`false` = it is waiting for more bytes). `remaining` =
    headers still announced by the count; `fuel` ≥ number of whole headers in the data + 1. -/
def altParseLoop (e : Env) : Nat → Nat → Bytes → List Nat × Bool
  | _, 0, _ => ([], true)
  | 0, _+1, _ => ([], false)
  | fuel+1, remaining+1, b =>
    match readHeaderItem b with
    | .ok (h, txc) r =>
      if txc ≠ 0 then ([], true)
      else if e.processOk h then
        let (l, fin) := altParseLoop e fuel remaining r
        (hdrNonce h :: l, fin)
      else ([hdrNonce h], true)
    | .need => ([], false)
    | .err => ([], true)

def altParse (e : Env) (teed : Bytes) (closedAfter : Bool) : List Nat × Bool :=
  match readVarInt teed with
  | .ok count r =>
    let (l, fin) := altParseLoop e (r.length / 81 + 1) count r
    (l, fin || closedAfter)
  | .need => ([], closedAfter)
  | .err => ([], true)

/-- prepend the alternate handler's effect when one is installed: it is fed every byte the main
    handler pulls through the tee (its own reads and the deferred discard); when the main handler
    returns the buffer is closed, which ends the alternate handler. `altDone` tells whether it has
    returned while the main handler is still waiting for input. -/
def withAlt (e : Env) (s : State) (inp : Bytes) (o : HOut) : HOut :=
  if s.hasHH then
    match o.res with
    | .need =>
      let (l, fin) := altParse e inp false
      { o with fx := .altHeaders l :: o.fx, altDone := fin }
    | _ =>
      let (l, _) := altParse e (inp.take o.used) true
      { o with fx := .altHeaders l :: o.fx, altDone := true }
  else o

def hHeadersVerifyBody (e : Env) (s : State) (inp : Bytes) : HOut :=
  match readVarInt inp with
  | .need => { st := s, res := .need }
  | .err => { st := s, used := min (varIntWidth inp) inp.length, res := .err }
  | .ok count r1 =>
    let u1 := inp.length - r1.length
    if count = 0 then { st := { s with stopped := true }, fx := [.stop], used := u1, res := .stop }
    else
      match readHeaderItem r1 with
      | .need => { st := s, used := u1, res := .need }
      | .err => { st := s, used := u1 + hdrItemErrUsed r1, res := .err }
      | .ok (h, txc) r2 =>
        let u2 := inp.length - r2.length
        if txc ≠ 0 then { st := s, used := u2, res := .err }
        else if e.verifyOk h then
          let (s', fx, stopped) := accept s
          { st := s', fx := .verifyHeader (hdrNonce h) :: fx, used := u2, res := if stopped then .stop else .ok }
        else { st := { s with stopped := true }, fx := [.verifyHeader (hdrNonce h), .stop], used := u2, res := .stop }

def hHeadersVerify (e : Env) (s : State) (L : Nat) (inp : Bytes) : HOut :=
  if !s.hsComplete then { st := s }       -- returns nil WITHOUT consuming the payload
  else finish L inp.length <| hHeadersVerifyBody e s inp   -- no tee to the alternate handler (fix 65aadb4)

/-- the header loop of `handleHeadersTrack`. -/
def trackLoop (e : Env) (s : State) : Nat → Bytes → Nat → List Effect → HOut
  | 0, _, used, fx => { st := s, fx := fx, used := used }
  | k+1, b, used, fx =>
    match readHeaderItem b with
    | .need => { st := s, fx := fx, used := used, res := .need }
    | .err => { st := s, fx := fx, used := used + hdrItemErrUsed b, res := .err }
    | .ok (h, txc) r =>
      let used' := used + (b.length - r.length)
      if txc ≠ 0 then { st := s, fx := fx, used := used', res := .err }
      else if e.processOk h then trackLoop e s k r used' (fx ++ [.processHeader (hdrNonce h)])
      else { st := { s with stopped := true }, fx := fx ++ [.processHeader (hdrNonce h), .stop], used := used', res := .stop }

def hHeadersTrackBody (e : Env) (s : State) (inp : Bytes) : HOut :=
  match readVarInt inp with
  | .need => { st := s, res := .need }
  | .err => { st := s, used := min (varIntWidth inp) inp.length, res := .err }
  | .ok count r1 =>
    let u1 := inp.length - r1.length
    -- a loop iteration needs ≥ 81 bytes, so `min count (len/81+1)` iterations decide the result
    trackLoop e s (min count (r1.length / 81 + 1)) r1 u1 []

def hHeadersTrack (e : Env) (s : State) (L : Nat) (inp : Bytes) : HOut :=
  if !s.ready then { st := s }
  else withAlt e s inp <| finish L inp.length <| hHeadersTrackBody e s inp

/-- the item loop of `handleInventory`; `pending` = items in the getdata being built. -/
def invLoop (s : State) : Nat → Bytes → Nat → List Effect → Nat → HOut
  | 0, _, used, fx, pending =>
    { st := s, fx := if pending > 0 then fx ++ [.send "getdata" pending] else fx, used := used }
  | k+1, b, used, fx, pending =>
    match readN 36 b with
    | .need => { st := s, fx := fx, used := used, res := .need }
    | .err => { st := s, fx := fx, used := used, res := .err }
    | .ok item r =>
      if leVal (item.take 4) ≠ 1 then invLoop s k r (used + 36) fx pending      -- not InvTypeTx
      else
        let h := item.drop 4
        if !(txAnnounce s h).2 then invLoop (txAnnounce s h).1 k r (used + 36) (fx ++ [.addTxID h]) pending
        else if pending ≥ 50000 then
          invLoop (txAnnounce s h).1 k r (used + 36) (fx ++ [.addTxID h, .send "getdata" pending]) 1
        else invLoop (txAnnounce s h).1 k r (used + 36) (fx ++ [.addTxID h]) (pending + 1)

/-- `handleInventory` never looks at header.Length and has no deferred discard. -/
def hInventory (s : State) (inp : Bytes) : HOut :=
  match readVarInt inp with
  | .need => { st := s, res := .need }
  | .err => { st := s, used := min (varIntWidth inp) inp.length, res := .err }
  | .ok count r1 => invLoop s (min count (r1.length / 36 + 1)) r1 (inp.length - r1.length) [] 0

/-- `handleTx` (reached with a tx manager): `readMessage` into `MsgTx`, then `AddTx`. -/
def hTx (e : Env) (s : State) (L : Nat) (classic : Bool) (ck inp : Bytes) : HOut :=
  if !s.hasTx then
    (match discard L inp.length with | none => { st := s, res := .need } | some n => { st := s, used := n })
  else
  viaReadMessage s (readMessage e maxBlockPayload L classic ck inp) L fun p =>
    match decTx e.mem p with
    | .err => { st := s, used := L, res := .err }
    | .oom => { st := s, res := .panic }
    | .ok rest =>
      let txid := e.hash (p.take (p.length - rest.length))
      { st := txDeliver s txid, fx := [.addTx txid], used := L }

/-! ### the requested block: transactions parsed from the stream -/

/-- a read from the connection inside `tx.Deserialize`: more bytes may still come (`need`). -/
inductive Sd (α : Type)
  | ok (a : α) (rest : Bytes)
  | need
  | err            -- decode error: handleBlock closes the channel and returns the error
  | panicked       -- makeslice panic, recovered by handleMessage: the channel is NOT closed
  | oom            -- fatal out of memory
deriving Repr

def sN (k : Nat) (b : Bytes) : Sd Bytes :=
  if b.length < k then .need else .ok (b.take k) (b.drop k)

def sVarInt (b : Bytes) : Sd Nat :=
  match readVarInt b with
  | .ok v r => .ok v r
  | .need => .need
  | .err => .err

def sAlloc (mem n : Nat) : Sd Unit :=
  if n > maxAlloc then .panicked else if n > mem then .oom else .ok () []

/-- `readScript` from the stream. -/
def sScript (mem : Nat) (b : Bytes) : Sd Unit :=
  match sVarInt b with
  | .need => .need
  | .err => .err
  | .panicked => .panicked
  | .oom => .oom
  | .ok count r =>
    if count > maxMessagePayload then .err
    else match (if count > 512 then sAlloc mem count else .ok () []) with
      | .need => .need
      | .err => .err
      | .panicked => .panicked
      | .oom => .oom
      | .ok _ _ =>
        match sN count r with
        | .ok _ r' => .ok () r'
        | _ => .need

def sTxIns (mem : Nat) : Nat → Nat → Bytes → Sd Unit
  | _, 0, b => .ok () b
  | 0, _+1, _ => .need
  | fuel+1, remaining+1, b =>
    match sN 36 b with
    | .ok _ r1 =>
      match sScript mem r1 with
      | .ok _ r2 =>
        match sN 4 r2 with
        | .ok _ r3 => sTxIns mem fuel remaining r3
        | _ => .need
      | .need => .need
      | .err => .err
      | .panicked => .panicked
      | .oom => .oom
    | _ => .need

def sTxOuts (mem : Nat) : Nat → Nat → Bytes → Sd Unit
  | _, 0, b => .ok () b
  | 0, _+1, _ => .need
  | fuel+1, remaining+1, b =>
    match sN 8 b with
    | .ok _ r1 =>
      match sScript mem r1 with
      | .ok _ r2 => sTxOuts mem fuel remaining r2
      | .need => .need
      | .err => .err
      | .panicked => .panicked
      | .oom => .oom
    | _ => .need

/-- `MsgTx.Deserialize` from the stream: the bytes after the transaction, or how it ended. -/
def sTx (mem : Nat) (b : Bytes) : Sd Unit :=
  match sN 4 b with
  | .ok _ r0 =>
    match sVarInt r0 with
    | .ok nIn r1 =>
      if nIn > maxTxInPerMessage then .err else
      match sAlloc mem (nIn * txInSize) with
      | .ok _ _ =>
        match sTxIns mem (r1.length + 1) nIn r1 with
        | .ok _ r2 =>
          match sVarInt r2 with
          | .ok nOut r3 =>
            if nOut > maxTxOutPerMessage then .err else
            match sAlloc mem (nOut * txOutSize) with
            | .ok _ _ =>
              match sTxOuts mem (r3.length + 1) nOut r3 with
              | .ok _ r4 =>
                match sN 4 r4 with
                | .ok _ r5 => .ok () r5
                | _ => .need
              | x => x
            | .panicked => .panicked
            | .oom => .oom
            | _ => .err
          | .need => .need
          | _ => .err
        | x => x
      | .panicked => .panicked
      | .oom => .oom
      | _ => .err
    | .need => .need
    | _ => .err
  | _ => .need

/-- the transaction loop of `handleBlock`: `got` transactions handed to the handler so far. -/
def blockLoop (mem : Nat) : Nat → Nat → Bytes → Nat → (Sd Unit × Nat)
  | _, 0, b, got => (.ok () b, got)
  | 0, _+1, _, got => (.need, got)
  | fuel+1, remaining+1, b, got =>
    match sTx mem b with
    | .ok _ r => blockLoop mem fuel remaining r (got + 1)
    | x => (x, got)

/-- `handleBlock` (installed by `RequestBlock`), streaming: the block handler is started once the
    transaction count is read and gets every transaction as it completes; `blockReader` is set as
    soon as the 80-byte header matched the request. The handler (the harness' and the downloader's)
    returns nil iff it got as many transactions as announced. `blockStarted` is set when the handler
    thread is started (after the count was read). The channel is closed and the handler waited for
    in one deferred call (fix 3c351de), so also a recovered makeslice panic ends the handler. -/
def hBlock (e : Env) (s : State) (L : Nat) (inp : Bytes) : HOut :=
  finish L inp.length <|
  match readN 80 inp with
  | .need | .err => { st := s, res := .need }
  | .ok h r1 =>
    let hash := e.hash h
    match s.blockReq with
    | none => { st := s, used := 80 }
    | some want =>
      if want ≠ hash then { st := s, used := 80 }
      else if !s.blockHandler then { st := completeBlock s hash, used := 80 }
      else
        let s1 := { s with blockReader := true, blockStarted := false }
        match readVarInt r1 with
        | .need => { st := s1, used := 80, res := .need }
        | .err => { st := s1, used := 80 + min (varIntWidth r1) r1.length, res := .err }   -- request left outstanding (fix 6b52a4a)
        | .ok txCount r2 =>
          let u2 := inp.length - r2.length
          let run := blockLoop e.mem (r2.length + 1) txCount r2 0
          let rec_ (got : Nat) (done : Option Bool) : BlockRec :=
            { called := true, count := txCount, got := got, done := done }
          match run.1 with
          | .need => { st := { s1 with blockStarted := true, bh := rec_ run.2 none }, used := u2, res := .need }
          | .err => { st := completeBlock { s1 with bh := rec_ run.2 (some false) } hash, used := u2, res := .err }
          | .panicked => { st := completeBlock { s1 with bh := rec_ run.2 (some false) } hash, used := u2, res := .err }
          | .oom => { st := s, res := .panic }
          | .ok _ r3 =>
            { st := completeBlock { s1 with bh := rec_ run.2 (some true) } hash, fx := [.updateScore],
              used := inp.length - r3.length }

def trimZeros (b : Bytes) : Bytes := (b.reverse.dropWhile (· == 0)).reverse

def ascii (s : String) : Bytes := s.toList.map Char.toNat

/-- `handleExtended`: 12-byte command and 8-byte length, then dispatch by the CURRENT table. -/
def hExtended (e : Env) (s : State) (inp : Bytes) : HOut :=
  match readN 12 inp with
  | .need | .err => { st := s, res := .need }
  | .ok cmd r1 =>
    match readLE 8 r1 with
    | .need | .err => { st := s, res := .need }
    | .ok L r2 =>
      let ext := trimZeros cmd
      let inner : HOut :=
        if !s.ready then { st := s }
        else if ext = ascii "block" then
          match s.table.get "block" with
          | some .block => hBlock e s L r2
          | _ => { st := s }
        else if ext = ascii "tx" then
          match s.table.get "tx" with
          | some .tx => hTx e s L false [] r2
          | _ => { st := s }
        else { st := s }
      let o := finish L r2.length inner
      { o with used := o.used + 20 }

/-! ### handleMessage -/

inductive Outcome
  | ok (s : State) (rest : Bytes) (fx : List Effect)
  | need (s : State) (fx : List Effect) (altDone : Bool := false)   -- s: state reached so far (flags only; the message is re-run)
  | closed (s : State) (fx : List Effect)
  | wedged (s : State) (fx : List Effect)
  | panic (fx : List Effect)
deriving Repr

def validUtf8 : Bytes → Bool
  | [] => true
  | b :: r =>
    let cont (c : Nat) : Bool := 0x80 ≤ c && c ≤ 0xBF
    if b < 0x80 then validUtf8 r
    else if b < 0xC2 then false
    else if b < 0xE0 then
      match r with
      | c1 :: r' => cont c1 && validUtf8 r'
      | _ => false
    else if b < 0xF0 then
      match r with
      | c1 :: c2 :: r' =>
        (if b = 0xE0 then 0xA0 ≤ c1 && c1 ≤ 0xBF else if b = 0xED then 0x80 ≤ c1 && c1 ≤ 0x9F else cont c1)
          && cont c2 && validUtf8 r'
      | _ => false
    else if b < 0xF5 then
      match r with
      | c1 :: c2 :: c3 :: r' =>
        (if b = 0xF0 then 0x90 ≤ c1 && c1 ≤ 0xBF else if b = 0xF4 then 0x80 ≤ c1 && c1 ≤ 0x8F else cont c1)
          && cont c2 && cont c3 && validUtf8 r'
      | _ => false
    else false

/-- lookup in `n.handlers` by the command bytes of the header. -/
def lookupCmd (t : Table) (cmd : Bytes) : Option Handler :=
  (t.find? (fun e => ascii e.1 == cmd)).map (·.2)

def dispatch (e : Env) (s : State) (h : Handler) (L : Nat) (ck body : Bytes) : HOut :=
  match h with
  | .version => hVersion e s L ck body
  | .verack => hVerack e s L ck body
  | .headersVerify => hHeadersVerify e s L body
  | .headersTrack => hHeadersTrack e s L body
  | .protoconf => hProtoconf e s L ck body
  | .ping => hPing e s L ck body
  | .pong => hPong e s L ck body
  | .reject => hReject e s L ck body
  | .extended => hExtended e s body
  | .address => hAddress e s L ck body
  | .getAddresses => hGetAddresses s
  | .inventory => hInventory s body
  | .tx => hTx e s L true ck body
  | .block => hBlock e s L body

def toOutcome (body : Bytes) (o : HOut) : Outcome :=
  match o.res with
  | .ok => .ok o.st (body.drop o.used) o.fx
  | .err => .closed { o.st with stopped := true } o.fx
  | .stop => .closed o.st o.fx
  | .need => .need o.st o.fx o.altDone
  | .wedge => .wedged o.st o.fx
  | .panic => .panic o.fx

/-- one iteration of `readIncoming`: `handleMessage` on the unread input. -/
def handleMessage (e : Env) (s : State) (inp : Bytes) : Outcome :=
  if inp.length < 4 then .need s []
  else if inp.take 4 ≠ e.net then .closed { s with stopped := true } []         -- ErrWrongNetwork
  else if inp.length < 24 then .need s []
  else
    let cmd := trimZeros ((inp.drop 4).take 12)
    let L := leVal ((inp.drop 16).take 4)
    let ck := (inp.drop 20).take 4
    let body := inp.drop 24
    if !validUtf8 cmd then
      (if body.length < L then .need s [] else .closed { s with stopped := true } [])
    else
      match lookupCmd s.table cmd with
      | none => if body.length < L then .need s [] else .ok s (body.drop L) []
      | some h => toOutcome body (dispatch e s h L ck body)

/-- how a run over a byte stream ends. -/
inductive End
  | idle (s : State) (rest : Bytes) (view : State)  -- waiting for input; rest = incomplete message, view = flags reached inside it
  | closed (s : State)
  | wedged (s : State)
  | panic
deriving Repr

/-- `readIncoming` over everything received; `fuel` ≥ number of messages (each takes ≥ 24 bytes). -/
def run (e : Env) : Nat → State → Bytes → List Effect → List Effect × End
  | 0, s, inp, fx => (fx, .idle s inp s)
  | fuel+1, s, inp, fx =>
    match handleMessage e s inp with
    | .ok s' rest fx' => run e fuel s' rest (fx ++ fx')
    | .need v fx' _ => (fx ++ fx', .idle s inp v)
    | .closed s' fx' => (fx ++ fx', .closed s')
    | .wedged s' fx' => (fx ++ fx', .wedged s')
    | .panic fx' => (fx ++ fx', .panic)

def runAll (e : Env) (s : State) (inp : Bytes) : List Effect × End := run e (inp.length / 24 + 1) s inp []

end BRV.Wire
