/-
Model of the request routing of `NodeManager` (node_manager.go): `nextNode`, `RequestHeaders`,
`RequestTxs`, `RequestBlock`, `SendTx`, and of `BitcoinNode.HasBlock` (bitcoin_node.go).

* `m.nodes` is a list of node ids (`Nat`), `m.nextNodeOffset` a `Nat`. What the manager reads of a
  node (`IsStopped`, `IsReady`, `IsBusy`, and whether `sendMessage` would find the outgoing channel
  open) is a `View : Nat → Flags`, an INPUT: the whole routing call runs under the manager's mutex
  and the view is constant during it, except for what the call itself does (`BitcoinNode.RequestBlock`
  stamps `requestTime`, i.e. makes the node busy, BEFORE it sends).
* `hasData` (the `NodeHasDataFunction`) is a predicate on ids; `nil` is `fun _ => true`.
* loops carry fuel; running out of fuel is the explicit outcome `none` of `scan` with the remark that
  `scan_fuel_enough` (Proofs/MgrLemmas) shows it never happens with the fuel `nextNode` gives, and
  `Err.spin` of the request loops (a retry loop that does not end while the view stays as it is:
  the real loop then spins under the manager's mutex until the node's `run()` clears `isReady`).
* the correspondence harness go/cmd/mgr writes the flags it read just before a routing call into
  the op text; `Driver/MgrMain.lean` replays the call with `scan` / the loops below: ONE definition
  for the theorems (Props/C13.lean, section "NodeManager") and the driver.
-/
namespace BRV.Mgr

/-- what the manager can see of one `BitcoinNode`. -/
structure Flags where
  ready : Bool      -- IsReady()
  busy : Bool       -- IsBusy(): requestTime != nil
  stopped : Bool    -- IsStopped()
  sendOk : Bool     -- outgoingMsgChannel is open: sendMessage succeeds (else ErrChannelClosed)
deriving DecidableEq, Repr, Inhabited

abbrev View := Nat → Flags
abbrev HasData := Nat → Bool

/-- `hasData == nil` -/
def allData : HasData := fun _ => true

/-- the four tests of `nextNode` on `m.nodes[m.nextNodeOffset]`, in source order. -/
def selectable (fl : View) (has : HasData) (id : Nat) : Bool :=
  !(fl id).stopped && (fl id).ready && !(fl id).busy && has id

/-- the `for` loop of `nextNode`: (remaining `m.nodes`, `m.nextNodeOffset`, result).
    One iteration per unit of fuel (the wrap `nextNodeOffset = 0; looped = true` is counted as an
    iteration of its own; the source falls through to the tests at index 0, which is what the next
    iteration does since `nodeCount != 0` there). -/
def scan (fl : View) (has : HasData) : Nat → List Nat → Nat → Bool → List Nat × Nat × Option Nat
  | 0, nodes, off, _ => (nodes, off, none)
  | fuel+1, nodes, off, looped =>
    if off ≥ nodes.length then
      if looped || nodes.length = 0 then (nodes, off, none)       -- "No nodes available"
      else scan fl has fuel nodes 0 true
    else
      match nodes[off]? with
      | none => (nodes, off, none)
      | some id =>
        if (fl id).stopped then scan fl has fuel (nodes.eraseIdx off) off looped
        else if !(fl id).ready then scan fl has fuel nodes (off + 1) looped
        else if (fl id).busy then scan fl has fuel nodes (off + 1) looped
        else if !has id then scan fl has fuel nodes (off + 1) looped
        else (nodes, off + 1, some id)

/-- every iteration removes a node, advances the offset or is the one wrap. -/
def scanMeasure (nodes : List Nat) (off : Nat) (looped : Bool) : Nat :=
  (if looped then 0 else nodes.length + 1) + (nodes.length - off) + 1

/-- `NodeManager.nextNode(ctx, hasData)`. -/
def nextNode (fl : View) (has : HasData) (nodes : List Nat) (off : Nat) : List Nat × Nat × Option Nat :=
  if nodes.length = 0 then (nodes, off, none) else scan fl has (2 * nodes.length + 2) nodes off false

/-! ### the request functions of one node, as far as the manager's loops depend on them -/

inductive NodeRes | ok | busy | chanClosed | other
deriving DecidableEq, Repr

/-- `BitcoinNode.RequestHeaders`: `ErrBusy` while a block request is outstanding, else
    `sendHeaderRequest` (`GetLocatorHashes` may fail: `locOk`; then `sendMessage`). -/
def nodeRequestHeaders (f : Flags) (locOk : Bool) : NodeRes :=
  if f.busy then .busy else if !locOk then .other else if f.sendOk then .ok else .chanClosed

/-- `BitcoinNode.RequestTxs` (at most one `getdata`: fewer ids than fit into one message). -/
def nodeRequestTxs (f : Flags) : NodeRes := if f.sendOk then .ok else .chanClosed

/-- `BitcoinNode.RequestBlock`: refuses a busy node; otherwise it FIRST stamps the request
    (`requestTime`, `blockRequest`, `lastRequestedBlock`) and then sends. -/
def nodeRequestBlock (f : Flags) : NodeRes :=
  if f.busy then .busy else if f.sendOk then .ok else .chanClosed

def setBusy (fl : View) (id : Nat) : View :=
  fun j => if j = id then { fl j with busy := true } else fl j

inductive Msg
  | getheaders
  | getdataBlock (b : Nat)
  | getdataTx (ts : List Nat)
  | tx
deriving DecidableEq, Repr

inductive Err | nil | notAvail | noHeader | other | spin
deriving DecidableEq, Repr

structure Routed where
  nodes : List Nat
  off : Nat
  sends : List (Nat × Msg) := []
  err : Err := .nil
  tried : List Nat := []      -- RequestBlock: nodes whose request was stamped (the last one is the canceller on success)
deriving Repr

/-- the `for` loop of `NodeManager.RequestHeaders`. -/
def reqHeadersLoop (fl : View) (locOk : Bool) : Nat → List Nat → Nat → Routed
  | 0, nodes, off => { nodes, off, err := .spin }
  | k+1, nodes, off =>
    match nextNode fl allData nodes off with
    | (nodes', off', none) => { nodes := nodes', off := off' }          -- return nil
    | (nodes', off', some id) =>
      match nodeRequestHeaders (fl id) locOk with
      | .ok => { nodes := nodes', off := off', sends := [(id, .getheaders)] }
      | .busy => reqHeadersLoop fl locOk k nodes' off'
      | .chanClosed => reqHeadersLoop fl locOk k nodes' off'
      | .other => { nodes := nodes', off := off', err := .other }

/-! ### TxManager.GetTxRequests, as far as RequestTxs depends on it

An entry = a txid that was announced and not received, with the nodes that announced it while it
was already being requested (`NodeIDs`), and whether its last request has timed out (`ripe`). The
harness makes every entry ripe before a `RequestTxs`; `GetTxRequests` stamps what it returns. -/

structure TxEntry where
  t : Nat
  from_ : List Nat
  ripe : Bool := true
deriving DecidableEq, Repr

def getTxRequests (pend : List TxEntry) (id : Nat) : List Nat × List TxEntry :=
  ((pend.filter fun e => e.ripe && e.from_.contains id).map (·.t),
   pend.map fun e => if e.ripe && e.from_.contains id then { e with from_ := e.from_.erase id, ripe := false } else e)

structure RoutedTx where
  r : Routed
  pend : List TxEntry

/-- the `for` loop of `NodeManager.RequestTxs` (after the `txManager == nil` test). -/
def reqTxsLoop (fl : View) : Nat → List Nat → Nat → List TxEntry → RoutedTx
  | 0, nodes, off, pend => { r := { nodes, off, err := .spin }, pend }
  | k+1, nodes, off, pend =>
    match nextNode fl allData nodes off with
    | (nodes', off', none) => { r := { nodes := nodes', off := off' }, pend }
    | (nodes', off', some id) =>
      let (txids, pend') := getTxRequests pend id
      if txids.isEmpty then { r := { nodes := nodes', off := off' }, pend := pend' }   -- len(txids) == 0: return nil
      else
        match nodeRequestTxs (fl id) with
        | .ok => { r := { nodes := nodes', off := off', sends := [(id, .getdataTx txids)] }, pend := pend' }
        | .busy => reqTxsLoop fl k nodes' off' pend'
        | .chanClosed => reqTxsLoop fl k nodes' off' pend'
        | .other => { r := { nodes := nodes', off := off', err := .other }, pend := pend' }

def reqTxs (fl : View) (hasTxManager : Bool) (fuel : Nat) (nodes : List Nat) (off : Nat) (pend : List TxEntry) : RoutedTx :=
  if !hasTxManager then { r := { nodes, off }, pend } else reqTxsLoop fl fuel nodes off pend

/-- the `for` loop of `NodeManager.RequestBlock` for block `b` (after `HashHeight(hash) != -1`).
    A node whose request failed with `ErrChannelClosed` stays stamped: busy, `lastRequestedBlock = b`. -/
def reqBlockLoop (has : HasData) (b : Nat) : Nat → View → List Nat → Nat → List Nat → Routed
  | 0, _, nodes, off, tried => { nodes, off, err := .spin, tried }
  | k+1, fl, nodes, off, tried =>
    match nextNode fl has nodes off with
    | (nodes', off', none) => { nodes := nodes', off := off', err := .notAvail, tried }
    | (nodes', off', some id) =>
      match nodeRequestBlock (fl id) with
      | .ok => { nodes := nodes', off := off', sends := [(id, .getdataBlock b)], tried := tried ++ [id] }
      | .busy => reqBlockLoop has b k fl nodes' off' tried
      | .chanClosed => reqBlockLoop has b k (setBusy fl id) nodes' off' (tried ++ [id])
      | .other => { nodes := nodes', off := off', err := .other, tried }

/-- `NodeManager.RequestBlock`: `height = none` is `HashHeight(hash) == -1`. -/
def reqBlock (fl : View) (has : HasData) (b : Nat) (height : Option Nat) (nodes : List Nat) (off : Nat) : Routed :=
  match height with
  | none => { nodes, off, err := .noHeader }
  | some _ => reqBlockLoop has b (nodes.length + 1) fl nodes off []

/-- `NodeManager.SendTx`: every node of `m.nodes`, in order; the list and the offset are not touched. -/
def sendTx (fl : View) (nodes : List Nat) : List (Nat × Msg) :=
  (nodes.filter fun id => !(!(fl id).ready || (fl id).busy || (fl id).stopped) && (fl id).sendOk).map fun id => (id, Msg.tx)

/-! ### BitcoinNode.HasBlock

Block hashes are ids (the hash is injective on the harness's table); `heightOf` is
`headers.HashHeight` (`none` = -1). -/

def hasBlock (heightOf : Nat → Option Nat) (lastReq lastHdr : Option Nat) (b height : Nat) : Bool :=
  if lastReq = some b then false                       -- already requested this block and failed
  else
    match lastHdr with
    | none => false
    | some l =>
      if l = b then true
      else
        match heightOf l with
        | none => false                                -- node's last header isn't in our chain
        | some lh => decide (lh ≥ height)

/-! ### the world of the correspondence scripts (go/cmd/mgr)

Per node: the stage its peer has brought it to (the harness's ground truth), the outstanding block
request and the two hashes `HasBlock` looks at. -/

inductive Stage | fresh | hs | verified | dead
deriving DecidableEq, Repr

structure Node where
  stage : Stage := .fresh
  req : Option Nat := none        -- blockRequest / requestTime (busy)
  lastReq : Option Nat := none    -- lastRequestedBlock
  lastHdr : Option Nat := none    -- lastHeaderHash
deriving Repr

structure World where
  nd : List Node := []
  order : List Nat := []          -- m.nodes
  off : Nat := 0                  -- m.nextNodeOffset
  pend : List TxEntry := []
deriving Repr

/-- the harness's table: ids below 10 are the chain (height 100 + id), 10..14 siblings of 2..6
    (same heights), everything else is unknown to `HashHeight`. -/
def heightOf (id : Nat) : Option Nat :=
  if id < 10 then some (100 + id) else if id < 15 then some (92 + id) else none

/-- the last locator hash of every header request of the harness's repository. -/
def tipId : Nat := 4

def World.node (w : World) (i : Nat) : Node := w.nd.getD i {}

def World.setNode (w : World) (i : Nat) (n : Node) : World := { w with nd := w.nd.set i n }

/-- the flags a node in this stage shows (what the model expects the harness to read). -/
def Node.flags (n : Node) : Flags :=
  { ready := n.stage == .verified, busy := n.req.isSome, stopped := n.stage == .dead, sendOk := true }

def Node.hasBlock (n : Node) (b : Nat) : Bool :=
  match heightOf b with
  | none => false
  | some h => Mgr.hasBlock heightOf n.lastReq n.lastHdr b h

def Node.alive (n : Node) : Bool := n.stage != .dead

/-- stamp a block request on the nodes of `tried`. -/
def World.stamp (w : World) (tried : List Nat) (b : Nat) : World :=
  tried.foldl (fun w i => w.setNode i { w.node i with req := some b, lastReq := some b }) w

end BRV.Mgr
