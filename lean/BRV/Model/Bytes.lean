/-
Little-endian fixed-width integer codecs over byte lists, as Go's `binary.Write/Read` with
`binary.LittleEndian` performs them. Bytes are `Nat`s below 256 (`ByteList`): theorems about
decoders quantify over *all* `List Nat`, a superset of all byte strings.
-/
namespace BRV

abbrev Bytes := List Nat

def Bytes.wf (b : Bytes) : Prop := ∀ x ∈ b, x < 256

/-- `n` as `k` little-endian bytes (low `k` bytes of `n`). -/
def leN : Nat → Nat → Bytes
  | 0, _ => []
  | k+1, n => (n % 256) :: leN k (n / 256)

/-- read `k` little-endian bytes. -/
def readLeN : Nat → Bytes → Option (Nat × Bytes)
  | 0, rest => some (0, rest)
  | _+1, [] => none
  | k+1, b :: rest =>
    match readLeN k rest with
    | none => none
    | some (v, rest') => some (b + 256 * v, rest')

theorem leN_length (k n : Nat) : (leN k n).length = k := by
  induction k generalizing n with
  | zero => rfl
  | succ k ih => simp [leN, ih]

theorem leN_wf (k n : Nat) : Bytes.wf (leN k n) := by
  induction k generalizing n with
  | zero => intro x hx; simp [leN] at hx
  | succ k ih =>
    intro x hx
    simp only [leN, List.mem_cons] at hx
    rcases hx with h | h
    · omega
    · exact ih _ x h

theorem readLeN_leN (k n : Nat) (rest : Bytes) (h : n < 256 ^ k) :
    readLeN k (leN k n ++ rest) = some (n, rest) := by
  induction k generalizing n with
  | zero => simp at h; subst h; rfl
  | succ k ih =>
    have h2 : n / 256 < 256 ^ k := by
      rw [Nat.pow_succ] at h
      exact Nat.div_lt_of_lt_mul (by rw [Nat.mul_comm]; exact h)
    simp only [leN, List.cons_append, readLeN, ih _ h2]
    congr 2
    omega

theorem readLeN_short (k : Nat) (b : Bytes) (h : b.length < k) : readLeN k b = none := by
  induction k generalizing b with
  | zero => omega
  | succ k ih =>
    cases b with
    | nil => rfl
    | cons x xs =>
      simp only [List.length_cons] at h
      simp [readLeN, ih xs (by omega)]

theorem readLeN_some_length (k : Nat) (b : Bytes) (v : Nat) (rest : Bytes)
    (h : readLeN k b = some (v, rest)) : b.length = k + rest.length := by
  induction k generalizing b v rest with
  | zero => simp [readLeN] at h; rw [h.2]; simp
  | succ k ih =>
    cases b with
    | nil => simp [readLeN] at h
    | cons x xs =>
      simp only [readLeN] at h
      split at h
      · cases h
      · rename_i v' r' heq
        simp only [Option.some.injEq, Prod.mk.injEq] at h
        have := ih xs v' r' heq
        simp only [List.length_cons]
        rw [← h.2]; omega

/-- two's complement of an `Int` into `bits` bits. -/
def toUnsigned (bits : Nat) (x : Int) : Nat := (x % (2 ^ bits : Int)).toNat

/-- interpret an unsigned `bits`-bit value as two's complement. -/
def toSigned (bits : Nat) (n : Nat) : Int :=
  if n < 2 ^ (bits - 1) then (n : Int) else (n : Int) - (2 ^ bits : Int)

/-- Go's wrap-around for `int32` arithmetic. -/
def wrap32 (x : Int) : Int := toSigned 32 (toUnsigned 32 x)

def inI32 (x : Int) : Prop := -(2:Int)^31 ≤ x ∧ x < (2:Int)^31

theorem toUnsigned32_lt (x : Int) : toUnsigned 32 x < 2 ^ 32 := by
  unfold toUnsigned
  have : x % (2 ^ 32 : Int) < 2 ^ 32 := Int.emod_lt_of_pos _ (by decide)
  have h0 : 0 ≤ x % (2 ^ 32 : Int) := Int.emod_nonneg _ (by decide)
  omega

theorem toSigned_toUnsigned32 (x : Int) (h : inI32 x) : toSigned 32 (toUnsigned 32 x) = x := by
  unfold toSigned toUnsigned inI32 at *
  have h0 : 0 ≤ x % (2 ^ 32 : Int) := Int.emod_nonneg _ (by decide)
  have hlt : x % (2 ^ 32 : Int) < 2 ^ 32 := Int.emod_lt_of_pos _ (by decide)
  obtain ⟨h1, h2⟩ := h
  split <;> omega

theorem wrap32_inI32 (x : Int) : inI32 (wrap32 x) := by
  unfold wrap32 toSigned inI32
  have := toUnsigned32_lt x
  split <;> omega

theorem wrap32_id (x : Int) (h : inI32 x) : wrap32 x = x := toSigned_toUnsigned32 x h

end BRV
