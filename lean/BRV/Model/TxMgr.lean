/-
Executable model of /repo/tx_manager.go (`TxManager`: AddTxID, AddTx, sendTx, GetTxRequests, Run, Clean).

Shape of the Go code that the model follows
* 256 buckets (`txMaps`, chosen by `txid[0]`), each a map txid ↦ *TxData under the bucket's RWMutex;
  every TxData has its own mutex. `AddTxID`/`AddTx` look the entry up (or create it) inside the
  bucket's write-lock section, RELEASE the bucket lock, and only then lock the entry: these are two
  separate atomic steps and other goroutines run in between.
* `GetTxRequests` walks the buckets in a shuffled order; inside a bucket it holds the bucket's READ
  lock and locks one entry at a time (so several pollers, and entry sections of AddTxID/AddTx that
  already hold the pointer, interleave entry by entry). `count >= max` is tested only after a whole
  bucket. Both the time-out comparison `time.Since(LastRequested) < requestTimeout` and the stamp
  `LastRequested = time.Now()` read the clock inside the entry's lock section (since repository fix
  9c84f1c; before it the stamp was the clock value read once when the call started, see
  `C06_old_formula_stale_stamp_anomaly` in Props/C06.lean).
* `AddTx` reads `now` before taking any lock; the first delivery marks `Received` and calls `sendTx`,
  which blocks on the channel (capacity `Facts.txChannelCap`) unless `interrupt` fires.
* `Run` is one goroutine: receive → `ProcessTx` → (relevant ⇒ `SaveTx`); an error ends the loop.

Modelling decisions
* a mutex critical section = one atomic function on `Store` (the `…Sec` functions);
* Go map ↦ `ent : TxId → Option Entry` plus the list `keys` of inserted txids (iteration domain);
  the bucket of a txid is `tx % Facts.txBuckets` (the harness grinds real transactions whose hash
  starts with that byte);
* the clock is explicit: `Store.clock`; sequential ops carry the reading `now`, the small-step
  semantics has a `tick` action; the request time-out is `Env.timeout` (same unit);
* `ProcessTx`/`SaveTx` are the oracle `Env.proc`/`Env.saveErr`; `processed`/`saved` list the CALLS;
* `grants`, `dropped` are ghost history (every `true` of AddTxID / inclusion in a GetTxRequests
  result with the clock value at that moment, `time`, and the value written to `LastRequested`, `stamp`
  (equal in the current code); every tx whose `sendTx` ended through `interrupt`);
* pointers: without `Clean` an entry is never removed from its map, so "the pointer obtained in
  the bucket section" is the txid. `Clean` exists only in the sequential model; the small-step
  semantics has no `Clean` (the property excludes it, see Props/C06.lean).
-/
import BRV.Gen.Facts

namespace BRV.TxMgr

abbrev TxId := Nat
abbrev NodeId := Nat

/-- `TxData` (FirstSeen and ReceivedFrom are never read by the code and are not modelled). -/
structure Entry where
  lastRequested : Nat
  received : Option Nat          -- `Received *time.Time`, nil = not seen yet
  nodeIDs : List NodeId
deriving DecidableEq, Repr, Inhabited

/-- `appendID`: append unless already in the list. -/
def appendID (ids : List NodeId) (n : NodeId) : List NodeId :=
  if n ∈ ids then ids else ids ++ [n]

/-- `removeID`: remove the first occurrence. -/
def removeID (ids : List NodeId) (n : NodeId) : List NodeId := ids.erase n

/-- `Latest()`. -/
def Entry.latest (e : Entry) : Nat :=
  match e.received with
  | some t => t
  | none => e.lastRequested

/-- one request grant (ghost): `time` = clock when it was decided, `stamp` = value stored in
    `LastRequested` (the same clock reading in the current code). -/
structure Grant where
  tx : TxId
  node : NodeId
  time : Nat
  stamp : Nat
deriving DecidableEq, Repr

inductive ProcOut
  | err                         -- ProcessTx returned an error: Run returns
  | ok (relevant : Bool)
deriving DecidableEq, Repr

structure Env where
  timeout : Nat
  proc : TxId → ProcOut := fun _ => .ok false
  saveErr : TxId → Bool := fun _ => false

def bucketOf (tx : TxId) : Nat := tx % Facts.txBuckets

structure Store where
  ent : TxId → Option Entry := fun _ => none
  keys : List TxId := []         -- txids present in some bucket map, insertion order
  chan : List TxId := []         -- txChannel, head = oldest
  processed : List TxId := []    -- ProcessTx calls, in call order
  saved : List TxId := []        -- SaveTx calls, in call order
  runAlive : Bool := true        -- Run has not returned
  clock : Nat := 0
  grants : List Grant := []      -- ghost, newest first
  dropped : List TxId := []      -- ghost: sendTx ended by `interrupt`

def Store.setEnt (st : Store) (tx : TxId) (e : Entry) : Store :=
  { st with ent := fun k => if k = tx then some e else st.ent k }

def Store.grant (st : Store) (tx : TxId) (node : NodeId) (stamp : Nat) : Store :=
  { st with grants := ⟨tx, node, st.clock, stamp⟩ :: st.grants }

/-! ### critical sections -/

/-- AddTxID, bucket write-lock section: look up; if absent create the entry (`LastRequested = now`,
    empty NodeIDs) and return `true` to the caller. Second component: `created`. -/
def annBucketSec (st : Store) (node : NodeId) (tx : TxId) : Store × Bool :=
  match st.ent tx with
  | some _ => (st, false)
  | none =>
    ((({ st with keys := st.keys ++ [tx] } : Store).setEnt tx ⟨st.clock, none, []⟩).grant tx node st.clock, true)

/-- AddTxID, entry-lock section; second component = the function's result. -/
def annEntrySec (env : Env) (st : Store) (node : NodeId) (tx : TxId) : Store × Bool :=
  match st.ent tx with
  | none => (st, false)          -- unreachable without Clean
  | some e =>
    if e.received.isSome then (st, false)                                   -- already received tx
    else if st.clock < e.lastRequested + env.timeout then                    -- time.Since(LastRequested) < requestTimeout
      (st.setEnt tx { e with nodeIDs := appendID e.nodeIDs node }, false)   -- requested recently
    else
      ((st.setEnt tx { e with lastRequested := st.clock, nodeIDs := removeID e.nodeIDs node }).grant tx node st.clock, true)

/-- AddTx, bucket write-lock section (`now` was read before): if absent create a received entry.
    Second component: `created` (then the caller goes straight to `sendTx`). -/
def dlvBucketSec (st : Store) (tx : TxId) (now : Nat) : Store × Bool :=
  match st.ent tx with
  | some _ => (st, false)
  | none => ((({ st with keys := st.keys ++ [tx] } : Store).setEnt tx ⟨now, some now, []⟩), true)

/-- AddTx, entry-lock section; second component = `isNew`. -/
def dlvEntrySec (st : Store) (tx : TxId) (now : Nat) : Store × Bool :=
  match st.ent tx with
  | none => (st, false)          -- unreachable without Clean
  | some e =>
    match e.received with
    | some _ => (st, false)
    | none => (st.setEnt tx { e with received := some now }, true)

/-- `m.txChannel <- tx`; `none` = the channel is full (the sender stays blocked). -/
def sendSec (st : Store) (tx : TxId) : Option Store :=
  if st.chan.length < Facts.txChannelCap then some { st with chan := st.chan ++ [tx] } else none

/-- sendTx's `<-interrupt` branch. -/
def dropSec (st : Store) (tx : TxId) : Store := { st with dropped := st.dropped ++ [tx] }

/-- one iteration of Run's loop; `none` = nothing to receive or Run already returned. -/
def runSec (env : Env) (st : Store) : Option Store :=
  if st.runAlive = false then none else
  match st.chan with
  | [] => none
  | tx :: rest =>
    match env.proc tx with
    | .err => some { st with chan := rest, processed := st.processed ++ [tx], runAlive := false }
    | .ok false => some { st with chan := rest, processed := st.processed ++ [tx] }
    | .ok true =>
      some { st with chan := rest, processed := st.processed ++ [tx], saved := st.saved ++ [tx],
                     runAlive := !env.saveErr tx }

/-- GetTxRequests, entry-lock section for one map element; `st.clock` is the reading of both
    `time.Since` and `time.Now()`. Second component: the txid was appended to the result. -/
def pollEntrySec (env : Env) (st : Store) (node : NodeId) (tx : TxId) : Store × Bool :=
  match st.ent tx with
  | none => (st, false)
  | some e =>
    if e.received.isSome then (st, false)                                  -- already received
    else if !(e.nodeIDs.contains node) then (st, false)                    -- not reported by this node
    else if st.clock < e.lastRequested + env.timeout then (st, false)       -- recently requested
    else
      ((st.setEnt tx { e with lastRequested := st.clock, nodeIDs := removeID e.nodeIDs node }).grant tx node st.clock, true)

/-! ### sequential API (each call runs alone, to completion; Run drains after every delivery) -/

def addTxID (env : Env) (st : Store) (node : NodeId) (tx : TxId) (now : Nat) : Store × Bool :=
  let st0 := { st with clock := now }
  let r := annBucketSec st0 node tx
  if r.2 then (r.1, true) else annEntrySec env r.1 node tx

/-- Run until it has nothing to do (fuel = channel length is enough). -/
def runAll (env : Env) : Nat → Store → Store
  | 0, st => st
  | n + 1, st =>
    match runSec env st with
    | none => st
    | some st' => runAll env n st'

def drain (env : Env) (st : Store) : Store := runAll env st.chan.length st

/-- `sendTx` in a sequential history: the send succeeds, or (channel full, which needs a dead Run)
    the call can only ever return through `interrupt`. -/
def sendOrDrop (st : Store) (tx : TxId) : Store :=
  match sendSec st tx with
  | some st' => st'
  | none => dropSec st tx

def addTx (env : Env) (st : Store) (_node : NodeId) (tx : TxId) (now : Nat) : Store :=
  let st0 := { st with clock := now }
  let r := dlvBucketSec st0 tx now
  let r2 := if r.2 then (r.1, true) else dlvEntrySec r.1 tx now
  if r2.2 then drain env (sendOrDrop r2.1 tx) else r2.1

/-- the `for txid, data := range txMap.txs` loop over the elements `todo` of one bucket. -/
def pollKeys (env : Env) (node : NodeId) : Store → List TxId → List TxId → Store × List TxId
  | st, [], acc => (st, acc)
  | st, k :: ks, acc =>
    let r := pollEntrySec env st node k
    pollKeys env node r.1 ks (if r.2 then acc ++ [k] else acc)

def bucketKeys (st : Store) (b : Nat) : List TxId := st.keys.filter (fun k => bucketOf k == b)

/-- the loop over the shuffled bucket indexes `order`; `count >= max` after each bucket. -/
def pollBuckets (env : Env) (node : NodeId) (max : Int) :
    Store → List Nat → List TxId → Store × List TxId
  | st, [], acc => (st, acc)
  | st, b :: bs, acc =>
    let r := pollKeys env node st (bucketKeys st b) acc
    if max ≤ (r.2.length : Int) then r else pollBuckets env node max r.1 bs r.2

/-- `order` is the outcome of `rand.Shuffle` (any list is accepted; Go's is a permutation of 0..255). -/
def getTxRequests (env : Env) (st : Store) (node : NodeId) (max : Int) (now : Nat) (order : List Nat) :
    Store × List TxId :=
  pollBuckets env node max { st with clock := now } order []

/-- `Clean(oldest)`: keep the entries with `Latest().After(oldest)`. -/
def clean (st : Store) (oldest : Nat) : Store :=
  { st with
    ent := fun k => match st.ent k with
      | some e => if oldest < e.latest then some e else none
      | none => none
    keys := st.keys.filter (fun k => match st.ent k with
      | some e => decide (oldest < e.latest)
      | none => false) }

inductive Op
  | ann (node : NodeId) (tx : TxId) (now : Nat)
  | dlv (node : NodeId) (tx : TxId) (now : Nat)
  | poll (node : NodeId) (max : Int) (now : Nat) (order : List Nat)
  | clean (oldest : Nat)
deriving Repr

def Op.isClean : Op → Bool
  | .clean _ => true
  | _ => false

/-- the clock reading an op carries (`clean` reads none that matters). -/
def Op.now? : Op → Option Nat
  | .ann _ _ t => some t
  | .dlv _ _ t => some t
  | .poll _ _ t _ => some t
  | .clean _ => none

def seqStep (env : Env) (st : Store) : Op → Store
  | .ann node tx now => (addTxID env st node tx now).1
  | .dlv node tx now => addTx env st node tx now
  | .poll node max now order => (getTxRequests env st node max now order).1
  | .clean oldest => clean st oldest

def seqRun (env : Env) (st : Store) (ops : List Op) : Store := ops.foldl (seqStep env) st

/-! ### small-step interleaving semantics (no Clean) -/

/-- a goroutine executing one API call, at its program counter. -/
inductive Thread
  | annBucket (node : NodeId) (tx : TxId)                       -- before the bucket section of AddTxID
  | annEntry (node : NodeId) (tx : TxId)                        -- holds the pointer, before the entry section
  | annDone (node : NodeId) (tx : TxId) (r : Bool)
  | dlvBucket (node : NodeId) (tx : TxId) (now : Nat) (intr : Bool)
  | dlvEntry (node : NodeId) (tx : TxId) (now : Nat) (intr : Bool)
  | dlvSend (tx : TxId) (intr : Bool)                           -- inside sendTx's select
  | dlvDone (tx : TxId) (isNew : Bool) (sent : Bool)
  | pollNext (node : NodeId) (max : Int) (order : List Nat) (acc : List TxId)
  | pollIn (node : NodeId) (max : Int) (bucket : Nat) (order : List Nat)
           (todo : List TxId) (acc : List TxId)                 -- holds the bucket's read lock
  | pollDone (node : NodeId) (acc : List TxId)
deriving DecidableEq, Repr

structure Config where
  st : Store := {}
  threads : List Thread := []

inductive Action
  | tick (d : Nat)                                              -- time passes
  | callAnn (node : NodeId) (tx : TxId)                         -- a goroutine enters AddTxID
  | callDlv (node : NodeId) (tx : TxId) (intr : Bool)           -- enters AddTx (reads `now`); `intr`: its interrupt may fire
  | callPoll (node : NodeId) (max : Int) (order : List Nat)     -- enters GetTxRequests (shuffle)
  | thread (i : Nat) (choice : Nat)                             -- thread i performs its next atomic step
  | run                                                         -- one iteration of Run
deriving Repr

/-- some GetTxRequests holds the read lock of bucket `b` (writers must wait). -/
def readersIn (ts : List Thread) (b : Nat) : Bool :=
  ts.any (fun t => match t with
    | .pollIn _ _ b' _ _ _ => b' == b
    | _ => false)

/-- next atomic step of one thread; `none` = finished or blocked. `choice` selects the map element
    visited next inside a bucket (Go's map iteration order) and, in `sendTx`, the `interrupt`
    branch (`choice ≠ 0`, only if the interrupt can fire). -/
def stepThread (env : Env) (c : Config) (i : Nat) (choice : Nat) : Option Config :=
  match c.threads[i]? with
  | none => none
  | some t =>
    match t with
    | .annBucket node tx =>
      if readersIn c.threads (bucketOf tx) then none else
      let r := annBucketSec c.st node tx
      some ⟨r.1, c.threads.set i (if r.2 then .annDone node tx true else .annEntry node tx)⟩
    | .annEntry node tx =>
      let r := annEntrySec env c.st node tx
      some ⟨r.1, c.threads.set i (.annDone node tx r.2)⟩
    | .annDone _ _ _ => none
    | .dlvBucket node tx now intr =>
      if readersIn c.threads (bucketOf tx) then none else
      let r := dlvBucketSec c.st tx now
      some ⟨r.1, c.threads.set i (if r.2 then .dlvSend tx intr else .dlvEntry node tx now intr)⟩
    | .dlvEntry _ tx now intr =>
      let r := dlvEntrySec c.st tx now
      some ⟨r.1, c.threads.set i (if r.2 then .dlvSend tx intr else .dlvDone tx false false)⟩
    | .dlvSend tx intr =>
      if choice = 0 then
        match sendSec c.st tx with
        | some st' => some ⟨st', c.threads.set i (.dlvDone tx true true)⟩
        | none => none
      else if intr then some ⟨dropSec c.st tx, c.threads.set i (.dlvDone tx true false)⟩
      else none
    | .dlvDone _ _ _ => none
    | .pollNext node max order acc =>
      match order with
      | [] => some ⟨c.st, c.threads.set i (.pollDone node acc)⟩
      | b :: bs => some ⟨c.st, c.threads.set i (.pollIn node max b bs (bucketKeys c.st b) acc)⟩
    | .pollIn node max b order todo acc =>
      match todo with
      | [] =>                                                   -- RUnlock; `if count >= max`
        some ⟨c.st, c.threads.set i
          (if max ≤ (acc.length : Int) then .pollDone node acc else .pollNext node max order acc)⟩
      | _ :: _ =>
        match todo[choice]? with
        | none => none
        | some k =>
          let r := pollEntrySec env c.st node k
          some ⟨r.1, c.threads.set i
            (.pollIn node max b order (todo.eraseIdx choice) (if r.2 then acc ++ [k] else acc))⟩
    | .pollDone _ _ => none

def step (env : Env) (c : Config) : Action → Option Config
  | .tick d => some { c with st := { c.st with clock := c.st.clock + d } }
  | .callAnn node tx => some { c with threads := c.threads ++ [.annBucket node tx] }
  | .callDlv node tx intr => some { c with threads := c.threads ++ [.dlvBucket node tx c.st.clock intr] }
  | .callPoll node max order => some { c with threads := c.threads ++ [.pollNext node max order []] }
  | .thread i choice => stepThread env c i choice
  | .run =>
    match runSec env c.st with
    | none => none
    | some st' => some { c with st := st' }

/-- run a schedule; actions that are not enabled are skipped (they take no step). -/
def exec (env : Env) (c : Config) (sched : List Action) : Config :=
  sched.foldl (fun c a => (step env c a).getD c) c

/-- reachability from the initial configuration, by enabled steps. -/
inductive Reach (env : Env) : Config → Prop
  | init : Reach env {}
  | step (c c' : Config) (a : Action) : Reach env c → step env c a = some c' → Reach env c'

end BRV.TxMgr
