/-
Executable model of /repo/peers.go (`StoragePeerRepository`): the list, the lookup map, the ops
and the byte codec of the stored file, written to follow the Go code statement by statement.

Go keeps `list []*Peer` and `lookup map[string]*Peer` pointing at the same objects. `lookup` is
modelled as "the LAST list element with that address" (`updLast`), which is what the Go code
builds in `Load` (later records overwrite the map entry) and what `Add` maintains.
The clock is an input: ops that read `time.Now()` carry the value that was read.
-/
import BRV.Model.Bytes
import BRV.Gen.Facts

namespace BRV.Peers

structure Peer where
  addr : Bytes
  score : Int
  time : Nat
deriving DecidableEq, Repr, Inhabited

inductive LoadResult
  | ok
  | errVersionRead      -- "Failed to read peers version"
  | errUnknownVersion   -- "Unknown Version"
  | errCountRead        -- "Failed to read peers count"
  | panic               -- makeslice / out of range: the process would abort
deriving DecidableEq, Repr

structure State where
  list : List Peer := []
  file : Option Bytes := none      -- what storage holds under the peers path
deriving Repr

/-- modify the last peer with address `a` (the one `lookup[a]` points to). -/
def updLast : List Peer → Bytes → (Peer → Peer) → Option (List Peer)
  | [], _, _ => none
  | p :: ps, a, f =>
    match updLast ps a f with
    | some ps' => some (p :: ps')
    | none => if p.addr = a then some (f p :: ps) else none

def hasAddr (l : List Peer) (a : Bytes) : Bool := l.any (fun p => p.addr == a)

/-- `Add`: refuses an address already in `lookup`. -/
def add (s : State) (a : Bytes) : State × Bool :=
  if hasAddr s.list a then (s, false)
  else ({ s with list := s.list ++ [{ addr := a, score := 0, time := 0 }] }, true)

/-- `UpdateScore`: `peer.LastTime = now; peer.Score += delta` with int32 wrap-around. -/
def updateScore (s : State) (a : Bytes) (delta : Int) (now : Nat) : State × Bool :=
  match updLast s.list a (fun p => { p with score := wrap32 (p.score + delta), time := now }) with
  | some l => ({ s with list := l }, true)
  | none => (s, false)

def updateTime (s : State) (a : Bytes) (now : Nat) : State × Bool :=
  match updLast s.list a (fun p => { p with time := now }) with
  | some l => ({ s with list := l }, true)
  | none => (s, false)

/-- `Get`: the filter; the Go code then shuffles, so the result is compared as a multiset. -/
def get (s : State) (lo hi : Int) : List Peer :=
  s.list.filter (fun p => decide (lo ≤ p.score) && (decide (hi = Facts.peersUnboundedSentinel) || decide (p.score ≤ hi)))

/-! ### the stored file -/

def encodePeer (p : Peer) : Bytes :=
  leN 4 (toUnsigned 32 (p.addr.length : Int)) ++ p.addr ++ leN 4 (toUnsigned 32 p.score) ++ leN 4 p.time

def encodePeers : List Peer → Bytes
  | [] => []
  | p :: ps => encodePeer p ++ encodePeers ps

def encode (l : List Peer) : Bytes :=
  [Facts.peersVersion] ++ leN 4 (toUnsigned 32 (l.length : Int)) ++ encodePeers l

/-- `readPeer`: `none` is any read error (the loop in `Load` stops at the first one). A negative
    or larger-than-remaining address size is a read error (repository fix: it used to size an
    allocation, aborting the process on negative sizes). -/
def readPeer (b : Bytes) : Option (Peer × Bytes) :=
  match readLeN 4 b with
  | none => none
  | some (sz, r1) =>
    let size := toSigned 32 sz
    if size < 0 then none
    else if r1.length < size.toNat then none
    else
      let a := r1.take size.toNat
      let r2 := r1.drop size.toNat
      match readLeN 4 r2 with
      | none => none
      | some (sc, r3) =>
        match readLeN 4 r3 with
        | none => none
        | some (t, r4) => some ({ addr := a, score := toSigned 32 sc, time := t }, r4)

theorem readPeer_shrinks (b : Bytes) (p : Peer) (r : Bytes) (h : readPeer b = some (p, r)) :
    r.length < b.length := by
  unfold readPeer at h
  split at h
  · cases h
  · rename_i sz r1 h1
    have l1 := readLeN_some_length 4 b sz r1 h1
    simp only at h
    split at h
    · cases h
    · split at h
      · cases h
      · split at h
        · cases h
        · rename_i sc r3 h3
          have l3 := readLeN_some_length 4 _ sc r3 h3
          split at h
          · cases h
          · rename_i t r4 h4
            have l4 := readLeN_some_length 4 _ t r4 h4
            simp only [Option.some.injEq, Prod.mk.injEq] at h
            rw [← h.2]
            simp only [List.length_drop] at l3
            omega

/-- the `for { readPeer ... }` loop of `Load`. -/
def readPeers (b : Bytes) : List Peer :=
  match _h : readPeer b with
  | none => []
  | some (p, r) => p :: readPeers r
termination_by b.length
decreasing_by exact readPeer_shrinks b p r _h

/-- `Load`'s parse of the stored bytes. The declared count only sizes a capacity hint, which the
    repaired code clamps to what the data can hold, so it never influences the result. -/
def decode (b : Bytes) : LoadResult × List Peer :=
  match b with
  | [] => (.errVersionRead, [])
  | v :: r0 =>
    if v ≠ 0 then (.errUnknownVersion, [])
    else
      match readLeN 4 r0 with
      | none => (.errCountRead, [])
      | some (_count, r1) => (.ok, readPeers r1)

def save (s : State) : State := { s with file := some (encode s.list) }

/-- `Load`: clears, then parses storage; `ErrNotFound` leaves the book empty. -/
def load (s : State) : State × LoadResult :=
  match s.file with
  | none => ({ s with list := [] }, .ok)
  | some b =>
    let (r, l) := decode b
    ({ s with list := l }, r)

def clear (_s : State) : State := { list := [], file := none }

/-! ### operations and runs -/

inductive Op
  | add (a : Bytes)
  | score (a : Bytes) (d : Int) (now : Nat)
  | time (a : Bytes) (now : Nat)
  | get (lo hi : Int)
  | count
  | save
  | load
  | loadRaw (b : Bytes)      -- put arbitrary bytes in storage, then Load
  | loadCut (k : Nat)        -- Load from the first k bytes of the stored file (the file itself is kept)
  | clear
deriving Repr

/-- the ops of the public API only (no hand-made or truncated files). -/
def Op.isApi : Op → Bool
  | .loadRaw _ => false
  | .loadCut _ => false
  | _ => true

def step (s : State) : Op → State
  | .add a => (add s a).1
  | .score a d now => (updateScore s a d now).1
  | .time a now => (updateTime s a now).1
  | .get _ _ => s
  | .count => s
  | .save => save s
  | .load => (load s).1
  | .loadRaw b => (load { s with file := some b }).1
  | .loadCut k =>
    match s.file with
    | none => { s with list := [] }
    | some b => { s with list := (decode (b.take k)).2 }
  | .clear => clear s

def run (s : State) (ops : List Op) : State := ops.foldl step s

end BRV.Peers
