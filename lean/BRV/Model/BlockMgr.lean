/-
Small-step model of /repo/block_manager.go (`BlockManager`): the request queue, `Run` /
`processRequest` (one goroutine: it executes processRequest, requestBlock, cancelDownloaders, Stop
and shutdown sequentially), the downloader registry, `onDownloaderCompleted` (one goroutine per
downloader) and `markBlockRequestComplete`.

A downloader is abstracted to what the manager sees of it: it is registered, it may have been
cancelled by the manager (`Cancel` + `thread.Stop`), its `Run` eventually returns nil or an error
(justified by the `BlockDl` theorems of C16; `dlReturn` is an environment step), after which its
`onDownloaderCompleted` runs (`dlFinish`). Blocks are identified by a number (`hash`).

Quirks kept as in the code: the first `requestBlock` of a request is unconditional (so one download
runs even with `concurrentBlockRequests = 0`, and downloaders left over from an earlier request for
the same hash are not counted); the tick requests a new download BEFORE it tests
`countWithoutActiveDownload > noDownloadLimit`; a request that is current when `Run` ends
(interrupt, ErrNodeNotAvailable) and the requests flushed from the queue get NO terminal signal;
`currentHash` survives the end of `processRequest`, so a late nil result for that hash is ignored
only through `currentIsComplete`.

ASSUMPTION: the requester receives from the `complete` channel it was given (the send of
`BlockAborted` is unbuffered, `Facts.requestCompleteCap = 0`), so `mgrAbort` is one step.
The fields `sigs marks okRets` are ghosts (event logs); no step reads them.
-/
import BRV.Gen.Facts

namespace BRV.BlockMgr

structure Req where
  id : Nat
  hash : Nat
  abortReq : Bool := false      -- the requester closed `abort`
deriving DecidableEq, Repr, Inhabited

structure Dl where
  id : Nat
  hash : Nat
  cancelled : Bool := false     -- the manager called Cancel + thread.Stop on it
  ret : Option Bool := none     -- `Run` returned: some true = nil, some false = an error
deriving DecidableEq, Repr, Inhabited

inductive Sig | closed | aborted
deriving DecidableEq, Repr, Inhabited

inductive MPc
  | idle                          -- in `for request := range m.requests`
  | initial (r : Req)             -- processRequest: current* set, about to send the first requestBlock
  | loop (r : Req) (noDl : Nat)   -- in the select loop; noDl = countWithoutActiveDownload
  | dead (nodeNotAvailable : Bool) -- Run has returned (after Stop and shutdown)
deriving DecidableEq, Repr, Inhabited

structure MSt where
  conc : Nat                      -- concurrentBlockRequests
  queue : List Req := []          -- m.requests
  pc : MPc := .idle
  curHash : Option Nat := none    -- m.currentHash
  curDone : Bool := false         -- m.currentIsComplete (currentComplete is closed)
  dls : List Dl := []             -- m.downloaders
  nextDl : Nat := 0
  nextReq : Nat := 0
  closed : Bool := false          -- m.requestsClosed
  intr : Bool := false
  sigs : List (Nat × Nat × Sig) := []   -- (request id, hash, signal) in delivery order
  marks : List (Nat × Nat) := []        -- (hash, downloader id): markBlockRequestComplete took effect
  okRets : List (Nat × Nat) := []       -- (downloader id, hash): a downloader's Run returned nil
deriving DecidableEq, Repr, Inhabited

inductive MLabel
  | add (hash : Nat)              -- AddRequest
  | abortEnv (rid : Nat)          -- the requester closes `abort` of request rid
  | interrupt                     -- the interrupt fires: requests are closed
  | take                          -- Run takes the next request, processRequest sets current*
  | reqInitial (ok : Bool)        -- the unconditional first requestBlock (requestor found a node or not)
  | tick (ok : Bool)              -- blockRequestDelay elapsed
  | mgrAbort                      -- select takes `<-request.abort`
  | mgrComplete                   -- select takes `<-m.currentComplete`
  | mgrIntr                       -- select takes `<-interrupt`
  | mgrEnd                        -- the closed request channel is drained: Run ends
  | dlReturn (i : Nat) (ok : Bool)    -- the Run of the downloader at registry position i returns
  | dlFinish (i : Nat)            -- its onDownloaderCompleted runs (removeDownloader finds it by identity)
deriving DecidableEq, Repr, Inhabited

def countHash (dls : List Dl) (h : Nat) : Nat := (dls.filter (fun d => d.hash == h)).length

/-- cancelDownloaders(hash): Cancel + thread.Stop on every registered downloader of that hash. -/
def cancelHash (dls : List Dl) (h : Nat) : List Dl :=
  dls.map (fun d => if d.hash == h then { d with cancelled := true } else d)

/-- Stop: Cancel + thread.Stop on every registered downloader. -/
def cancelAll (dls : List Dl) : List Dl := dls.map (fun d => { d with cancelled := true })

def setAbort (rid : Nat) (r : Req) : Req := if r.id == rid then { r with abortReq := true } else r

def addDl (s : MSt) (h : Nat) : MSt :=
  { s with dls := s.dls ++ [{ id := s.nextDl, hash := h }], nextDl := s.nextDl + 1 }

def step (s : MSt) : MLabel → Option MSt
  | .add h =>
    if s.closed then some s          -- AddRequest returns (nil, nil)
    else if s.queue.length < Facts.requestsCap then
      some { s with queue := s.queue ++ [{ id := s.nextReq, hash := h }], nextReq := s.nextReq + 1 }
    else none                        -- the caller waits for room in the channel
  | .abortEnv rid =>
    some { s with queue := s.queue.map (setAbort rid),
                  pc := match s.pc with
                        | .initial r => .initial (setAbort rid r)
                        | .loop r n => .loop (setAbort rid r) n
                        | pc => pc }
  | .interrupt => some { s with intr := true, closed := true }
  | .take =>
    match s.pc, s.queue with
    | .idle, r :: rest => some { s with pc := .initial r, queue := rest, curHash := some r.hash, curDone := false }
    | _, _ => none
  | .reqInitial ok =>
    match s.pc with
    | .initial r => some { (if ok then addDl s r.hash else s) with pc := .loop r 0 }
    | _ => none
  | .tick ok =>
    match s.pc with
    | .loop r n =>
      let active := countHash s.dls r.hash
      let n' := if active > 0 then 0 else n + 1
      let s1 := if active < s.conc ∧ ok then addDl s r.hash else s
      if n' > Facts.noDownloadLimit then
        -- return ErrNodeNotAvailable: Run flushes the queue, then Stop and shutdown
        some { s1 with pc := .dead true, queue := [], closed := true, dls := cancelAll s1.dls }
      else some { s1 with pc := .loop r n' }
    | _ => none
  | .mgrAbort =>
    match s.pc with
    | .loop r _ =>
      if r.abortReq then
        some { s with pc := .idle, dls := cancelHash s.dls r.hash, sigs := s.sigs ++ [(r.id, r.hash, .aborted)] }
      else none
    | _ => none
  | .mgrComplete =>
    match s.pc with
    | .loop r _ =>
      if s.curDone then
        some { s with pc := .idle, dls := cancelHash s.dls r.hash, sigs := s.sigs ++ [(r.id, r.hash, .closed)] }
      else none
    | _ => none
  | .mgrIntr =>
    match s.pc with
    | .loop _ _ =>
      if s.intr then some { s with pc := .dead false, queue := [], dls := cancelAll s.dls } else none
    | _ => none
  | .mgrEnd =>
    match s.pc, s.queue with
    | .idle, [] => if s.closed then some { s with pc := .dead false, dls := cancelAll s.dls } else none
    | _, _ => none
  | .dlReturn i ok =>
    match s.dls[i]? with
    | some d =>
      if d.ret.isNone then
        some { s with dls := s.dls.set i { d with ret := some ok },
                      okRets := if ok then s.okRets ++ [(d.id, d.hash)] else s.okRets }
      else none
    | none => none
  | .dlFinish i =>
    match s.dls[i]? with
    | some d =>
      match d.ret with
      | none => none
      | some ok =>
        let s1 := { s with dls := s.dls.eraseIdx i }                         -- removeDownloader
        if ok && s.curHash == some d.hash && !s.curDone then                 -- markBlockRequestComplete
          some { s1 with curDone := true, marks := s.marks ++ [(d.hash, d.id)] }
        else some s1
    | none => none

def init (conc : Nat) : MSt := { conc := conc }

inductive Reach : MSt → Prop
  | init (conc : Nat) : Reach (init conc)
  | step {s s' : MSt} (l : MLabel) : Reach s → step s l = some s' → Reach s'

end BRV.BlockMgr
