/-
`Repository.VerifyMerkleProof` (headers.go): locate the header (supplied in the proof, or looked
up by block hash), check the index is inside the tree (repaired), then `MerkleProof.Verify`
(dependency, modelled in Model/Merkle.lean over the free hash algebra).
-/
import BRV.Model.RepoOps
import BRV.Model.Merkle

namespace BRV.Repo

open BRV.Merkle (H)

structure MProof where
  index : Int                    -- `Index int`
  core : Merkle.Proof            -- TxID / Path / DuplicatedIndexes (its own `index` field is unused)
  header : Option Hdr            -- `BlockHeader`
  blockHash : Option Nat         -- `BlockHash`
deriving Repr

inductive VErr
  | unknown | notAvailable | read | notVerifiable | badIndex | wrongRoot
deriving DecidableEq, Repr

def mapReadErr : ReadErr → VErr
  | .unknown => .unknown
  | .notAvailable => .notAvailable
  | _ => .read

/-- find the header the proof is about, with its height and most-work-chain flag. -/
def locate (r : Repo) (p : MProof) : Except VErr (Hdr × Int × Bool) :=
  match p.header with
  | some hd =>
    match checkHeader r hd.id with
    | .ok (h, f) => .ok (hd, h, f)
    | .error e => .error (mapReadErr e)
  | none =>
    match p.blockHash with
    | some b =>
      match getHeader r b with
      | .ok x => .ok x
      | .error e => .error (mapReadErr e)
    | none => .error .notVerifiable

def depthOf (p : MProof) : Nat := p.core.path.length + p.core.dups.length

/-- `VerifyMerkleProof`; `mrOf` gives the merkle root a header commits to (`none` = not a root of
    any block known to the model: never equal to a computed root). -/
def verifyMerkleProof (r : Repo) (mrOf : Hdr → Option H) (p : MProof) : Except VErr (Int × Bool) :=
  match locate r p with
  | .error e => .error e
  | .ok (hd, h, f) =>
    if p.index < 0 ∨ p.index ≥ 2 ^ depthOf p then .error .badIndex
    else
      match ({ p.core with index := some p.index.toNat } : Merkle.Proof).verify (mrOf hd) with
      | .ok => .ok (h, f)
      | .badIndex => .error .badIndex
      | .wrongRoot => .error .wrongRoot

/-- the transactions of the block a header with `mr = n > 0` commits to, as ideal-hash leaves. -/
def blockLeaves (hd : Hdr) : List H := (List.range hd.mr).map fun i => H.leaf (hd.id * 1000000 + i)

def mrOfBlock (hd : Hdr) : Option H := if hd.mr = 0 then none else Merkle.merkleRoot (blockLeaves hd)

end BRV.Repo
