/-
Small-step model of the SIGNALLING of /repo/block_downloader.go (`BlockDownloader`): the goroutine
that executes `Run`, the goroutine that executes `HandleBlock`, any number of callers of `Cancel`
and `Stop`, and the environment (interrupt, timers, the canceller's answer, the tx stream).

Conventions (DESIGN section 3): one program counter per goroutine; a `stateLock` critical section is
ONE atomic step; a channel send/receive is a step of its own, in program order; channels are FIFO
lists with the capacity extracted from the source (`Facts.startedCap`, `Facts.completeCap`); a send
on a full channel is the explicit outcome `.blocked` (never silently totalised); timers
(2 min, 1 h, `Facts.cancelWaitLimit` x 10 s) are nondeterministic steps of `Run`; what the canceller
(`BlockRequestCanceller.CancelBlockRequest`) answers is an input of the step that asks.

ASSUMPTION (how the node uses it, bitcoin_node.go / handlers.go): `HandleBlock` is called at most once
per downloader (`hStart` is enabled only while the handler is `idle`). `Run` is called once.
The content handling of `HandleBlock` (merkle tree, proofs) is abstracted to the inputs `procOk`,
`root`, `ok` of the labels (property C04 covers the content).

The fields `sentS recvS sentC recvC promised confirmed` are ghosts (history counters); no step reads them.
-/
import BRV.Gen.Facts

namespace BRV.BlockDl

/-- what travels on `Complete` (and what `HandleBlock` returns): nil, errBlockDownloadCancelled,
    ErrWrongBlock, any other error. -/
inductive Err | ok | cancelled | wrong | fail
deriving DecidableEq, Repr, Inhabited

/-- what `Run` returns: the error received on `Complete`, threads.Interrupted, ErrTimeout. -/
inductive Ret | err (e : Err) | interrupted | timeout
deriving DecidableEq, Repr, Inhabited

/-- value on `Started`: the block hash (sent by `HandleBlock`) or `true` (sent by `Cancel`/`Stop`). -/
inductive Tok | handler | canceller
deriving DecidableEq, Repr, Inhabited

/-- what a `Cancel`/`Stop` call still has to send after its critical section
    (program order: `Started` first, then `Complete`). -/
structure Pend where
  s : Bool := false
  c : Bool := false
deriving DecidableEq, Repr, Inhabited

inductive RunPc
  | idle                                 -- `Run` not called yet
  | phase1                               -- first select (interrupt / Started / 2 min / Complete)
  | gotStarted                           -- received from Started, `isStarted = true` not yet written
  | phase2                               -- second select (interrupt / 1 h / Complete)
  | cancelCall (r : Ret)                 -- in cancelAndWaitForComplete, about to enter `Cancel`
  | cancelSend (r : Ret) (p : Pend)      -- `Cancel`'s critical section done, its sends pending
  | waitComplete (r : Ret) (ticks : Nat) -- the give-up loop: `ticks` 10 s timers fired so far
  | gotComplete (r : Ret)                -- received from Complete, `isComplete = true` not yet written
  | returned (r : Ret)
deriving DecidableEq, Repr, Inhabited

inductive HPc
  | idle                       -- `HandleBlock` not called (yet)
  | sendStarted                -- called, about to `bd.Started <- hash`
  | check1                     -- about to test `wasCancelled()` and the hash
  | loop (i : Nat)             -- in `for tx := range txChannel`, `i` txs accepted so far
  | afterTx (i : Nat)          -- ProcessTx succeeded, about to test `wasCancelled()`
  | flush (e : Err)            -- `for range txChannel {}`: draining until the channel is closed, then return e
  | finalCheck                 -- count and merkle root fine, about to test `wasCancelled()` (last check)
  | confirming                 -- past the last check: ProcessCoinbaseTx / ConfirmTx / AppendBlockTxIDs
  | sendComplete (e : Err)     -- about to `bd.Complete <- e`
  | done (e : Err)             -- returned
deriving DecidableEq, Repr, Inhabited

structure St where
  hasCanceller : Bool := true        -- `SetCanceller` was called (always, in block_manager.go)
  cancelled : Bool := false          -- isCancelled
  started : Bool := false            -- isStarted
  complete : Bool := false           -- isComplete
  intr : Bool := false               -- the interrupt channel is closed
  qS : List Tok := []                -- Started
  qC : List Err := []                -- Complete
  run : RunPc := .idle
  hdl : HPc := .idle
  hWrong : Bool := false             -- HandleBlock's header hashes to another block
  hN : Nat := 0                      -- HandleBlock's txCount
  hRoot : Bool := true               -- the computed merkle root will equal the header's
  callers : List Pend := []          -- Cancel/Stop calls that left their critical section with sends to do
  sentS : Nat := 0
  recvS : Nat := 0
  sentC : Nat := 0
  recvC : Nat := 0
  promised : Bool := false           -- a canceller answered "already started"
  confirmed : Bool := false          -- the handler passed its last cancellation check and went on to ProcessCoinbaseTx
deriving DecidableEq, Repr, Inhabited

inductive Label
  -- environment
  | run                                         -- the thread calls `Run`
  | intr                                        -- the interrupt channel is closed
  | cancel (ans : Bool)                         -- somebody calls `Cancel`: its critical section
  | stop                                        -- somebody calls `Stop`: its critical section
  | hStart (wrong : Bool) (n : Nat) (root : Bool)  -- the node calls `HandleBlock`
  | hTx (procOk : Bool)                         -- a tx arrives on txChannel (ProcessTx succeeds or fails)
  | hEos                                        -- txChannel is closed
  | hConfirm (ok : Bool)                        -- the confirmations succeed or fail
  -- internal steps of the callers / the handler / Run
  | callerSend (i : Nat)
  | hSendStarted | hCheck1 | hAfterTx | hFinalCheck | hSendComplete
  | rRecvStarted | rSetStarted | rRecvComplete | rSetComplete | rIntr
  | rCancelDecide (ans : Bool) | rCancelSend
  -- timers
  | rTimeout
deriving DecidableEq, Repr, Inhabited

inductive Outcome
  | disabled
  | blocked            -- the step is a channel send and the channel is full
  | next (s : St)
deriving DecidableEq, Repr, Inhabited

/-- `Cancel`'s critical section (block_downloader.go:258-282). -/
def cancelDecide (s : St) (ans : Bool) : St × Pend :=
  if s.complete then (s, {})
  else if s.cancelled then (s, {})
  else ({ s with cancelled := true, promised := s.promised || (s.hasCanceller && ans) },
        { s := !s.started, c := s.hasCanceller && !ans })

/-- `Stop`'s critical section (block_downloader.go:212-228). -/
def stopDecide (s : St) : St × Pend :=
  if s.complete then (s, {})
  else if s.cancelled then (s, {})
  else ({ s with cancelled := true }, { s := !s.started, c := !s.started })

inductive PendOut
  | nothing | blocked | sent (s : St) (p : Pend)

/-- the next send of a `Cancel`/`Stop` call. -/
def sendPend (s : St) (p : Pend) : PendOut :=
  if p.s then
    if s.qS.length < Facts.startedCap then
      .sent { s with qS := s.qS ++ [Tok.canceller], sentS := s.sentS + 1 } { p with s := false }
    else .blocked
  else if p.c then
    if s.qC.length < Facts.completeCap then
      .sent { s with qC := s.qC ++ [Err.cancelled], sentC := s.sentC + 1 } { p with c := false }
    else .blocked
  else .nothing

def Pend.isEmpty (p : Pend) : Bool := !p.s && !p.c

def addCaller (s : St) (p : Pend) : St :=
  if p.isEmpty then s else { s with callers := s.callers ++ [p] }

def step (s : St) : Label → Outcome
  | .run =>
    match s.run with
    | .idle => .next { s with run := .phase1 }
    | _ => .disabled
  | .intr => .next { s with intr := true }
  | .cancel ans =>
    let (s', p) := cancelDecide s ans
    .next (addCaller s' p)
  | .stop =>
    let (s', p) := stopDecide s
    .next (addCaller s' p)
  | .callerSend i =>
    match s.callers[i]? with
    | none => .disabled
    | some p =>
      match sendPend s p with
      | .nothing => .disabled
      | .blocked => .blocked
      | .sent s' p' => .next { s' with callers := s'.callers.set i p' }
  | .hStart w n root =>
    match s.hdl with
    | .idle => .next { s with hdl := .sendStarted, hWrong := w, hN := n, hRoot := root }
    | _ => .disabled
  | .hSendStarted =>
    match s.hdl with
    | .sendStarted =>
      if s.qS.length < Facts.startedCap then
        .next { s with qS := s.qS ++ [Tok.handler], sentS := s.sentS + 1, hdl := .check1 }
      else .blocked
    | _ => .disabled
  | .hCheck1 =>
    match s.hdl with
    | .check1 =>
      if s.cancelled then .next { s with hdl := .sendComplete .cancelled }
      else if s.hWrong then .next { s with hdl := .sendComplete .wrong }
      else .next { s with hdl := .loop 0 }
    | _ => .disabled
  | .hTx procOk =>
    match s.hdl with
    | .loop i => .next { s with hdl := if procOk then .afterTx i else .flush .fail }
    | .flush e => .next { s with hdl := .flush e }
    | _ => .disabled
  | .hAfterTx =>
    match s.hdl with
    | .afterTx i =>
      if s.cancelled then .next { s with hdl := .flush .cancelled }
      else .next { s with hdl := .loop (i + 1) }
    | _ => .disabled
  | .hEos =>
    match s.hdl with
    | .loop i =>
      if i ≠ s.hN then .next { s with hdl := .sendComplete .cancelled }
      else if !s.hRoot then .next { s with hdl := .sendComplete .fail }
      else .next { s with hdl := .finalCheck }
    | .flush e => .next { s with hdl := .sendComplete e }
    | _ => .disabled
  | .hFinalCheck =>
    match s.hdl with
    | .finalCheck =>
      if s.cancelled then .next { s with hdl := .sendComplete .cancelled }
      else .next { s with hdl := .confirming, confirmed := true }
    | _ => .disabled
  | .hConfirm ok =>
    match s.hdl with
    | .confirming => .next { s with hdl := .sendComplete (if ok then .ok else .fail) }
    | _ => .disabled
  | .hSendComplete =>
    match s.hdl with
    | .sendComplete e =>
      if s.qC.length < Facts.completeCap then
        .next { s with qC := s.qC ++ [e], sentC := s.sentC + 1, hdl := .done e }
      else .blocked
    | _ => .disabled
  | .rRecvStarted =>
    match s.run, s.qS with
    | .phase1, _ :: rest => .next { s with run := .gotStarted, qS := rest, recvS := s.recvS + 1 }
    | _, _ => .disabled
  | .rSetStarted =>
    match s.run with
    | .gotStarted => .next { s with run := .phase2, started := true }
    | _ => .disabled
  | .rRecvComplete =>
    match s.run, s.qC with
    | .phase1, e :: rest => .next { s with run := .gotComplete (.err e), qC := rest, recvC := s.recvC + 1 }
    | .phase2, e :: rest => .next { s with run := .gotComplete (.err e), qC := rest, recvC := s.recvC + 1 }
    | .waitComplete r _, _ :: rest => .next { s with run := .gotComplete r, qC := rest, recvC := s.recvC + 1 }
    | _, _ => .disabled
  | .rSetComplete =>
    match s.run with
    | .gotComplete r => .next { s with run := .returned r, complete := true }
    | _ => .disabled
  | .rIntr =>
    if s.intr then
      match s.run with
      | .phase1 => .next { s with run := .cancelCall .interrupted }
      | .phase2 => .next { s with run := .cancelCall .interrupted }
      | _ => .disabled
    else .disabled
  | .rCancelDecide ans =>
    match s.run with
    | .cancelCall r =>
      let (s', p) := cancelDecide s ans
      .next { s' with run := .cancelSend r p }
    | _ => .disabled
  | .rCancelSend =>
    match s.run with
    | .cancelSend r p =>
      match sendPend s p with
      | .nothing => .next { s with run := .waitComplete r 0 }
      | .blocked => .blocked
      | .sent s' p' => .next { s' with run := .cancelSend r p' }
    | _ => .disabled
  | .rTimeout =>
    match s.run with
    | .phase1 => .next { s with run := .cancelCall .timeout }
    | .phase2 => .next { s with run := .returned .timeout }
    | .waitComplete r k =>
      if k + 1 ≥ Facts.cancelWaitLimit then .next { s with run := .returned r }
      else .next { s with run := .waitComplete r (k + 1) }
    | _ => .disabled

def init (hasCanceller : Bool) : St := { hasCanceller := hasCanceller }

/-- states reachable from a fresh downloader by any interleaving of any length. -/
inductive Reach : St → Prop
  | init (hc : Bool) : Reach (init hc)
  | step {s s' : St} (l : Label) : Reach s → step s l = .next s' → Reach s'

/-- run a list of labels; `none` when one is disabled or blocked. -/
def runLabels (s : St) : List Label → Option St
  | [] => some s
  | l :: ls =>
    match step s l with
    | .next s' => runLabels s' ls
    | _ => none

theorem reach_runLabels (s : St) (ls : List Label) (s' : St) (hs : Reach s)
    (h : runLabels s ls = some s') : Reach s' := by
  induction ls generalizing s with
  | nil => simp only [runLabels, Option.some.injEq] at h; exact h ▸ hs
  | cons l ls ih =>
    simp only [runLabels] at h
    split at h
    · rename_i s1 h1; exact ih s1 (Reach.step l hs h1) h
    · cases h

/-! ### call-granularity closure (what the harness can observe)

The harness performs one call (`run`, `hstart`, `htx`, `heos`, `cancel`, `stop`, `intr`) and waits
until every goroutine is parked. `settle` explores every order of the internal steps enabled after
the call and returns the set of quiescent states (timers are not internal: the harness never waits
for them). -/

def internalLabels (s : St) : List Label :=
  (List.range s.callers.length).map Label.callerSend ++
  [.hSendStarted, .hCheck1, .hAfterTx, .hFinalCheck, .hSendComplete,
   .rRecvStarted, .rSetStarted, .rRecvComplete, .rSetComplete, .rIntr, .rCancelSend]

def succs (s : St) (extra : List Label) : List St :=
  (internalLabels s ++ extra).filterMap fun l =>
    match step s l with
    | .next s' => some s'
    | _ => none

def anyBlocked (s : St) : Bool :=
  (internalLabels s).any fun l => step s l == .blocked

def insertNew (acc : List St) (s : St) : List St := if acc.contains s then acc else s :: acc

/-- all quiescent states reachable by internal steps (`fuel` bounds the depth; the internal steps
    strictly decrease a measure, so a small fuel suffices — see `Props/C16.lean`). -/
def settle (fuel : Nat) (extra : St → List Label) (front : List St) : List St :=
  match fuel with
  | 0 => front
  | fuel + 1 =>
    let (quiet, moving) := front.partition fun s => (succs s (extra s)).isEmpty
    if moving.isEmpty then quiet
    else
      let nxt := moving.foldl (fun acc s => (succs s (extra s)).foldl insertNew acc) quiet
      settle fuel extra nxt

end BRV.BlockDl
