/-
Executable model of block synchronisation in /repo/node_manager.go:
`synchronizeBlocks` (the walk-back that computes `hashes`, then the request loop) and the restart
flag of `TriggerBlockSynchronize` / `runSynchronizeBlocks`.

* The header repository is ENVIRONMENT: a `View` (best chain as block ids by height + the lowest
  height still held in memory) that may be replaced between any two steps (`Ev.setView`).
* `planRes` follows the Go statements of the walk-back in source order (the order is the extracted
  fact `Facts.syncWalkOrder`, the two comparisons are `Facts.syncStartGuardOp` / `syncWalkStopOp`):
  start test first, then `PreviousHash` with the by-height fallback for headers pruned from memory.
* Whether `close(abort)` is guarded (`Facts.syncAbortGuard`) and whether nil channels from
  `AddRequest` end the round (`Facts.syncNilCompleteCheck`) are extracted facts the machine reads.
* The request loop is a small-step machine (`step`): one `select` iteration = one event. The block
  manager is environment too: it may close `complete` (block processed), answer a closed `abort`
  with `BlockAborted`, or do nothing (busy / exited).
* Go `panic`s (close of a closed / nil channel) and blocking are explicit outcomes.
* A deterministic scheduler (`D`, bottom of the file) replays harness scripts for the correspondence.
-/
import BRV.Gen.Facts

namespace BRV.Sync

abbrev Id := Nat

/-- what `synchronizeBlocks` can see of the header repository. `chain[h]` is the best-chain block
    at height `h`; headers below `window` are pruned from memory (`Branch.AtHeight` returns nil). -/
structure View where
  chain : List Id
  window : Nat := 0
  /-- blocks the repository still knows that are NOT on the best chain (side branches, e.g. the
      old tip after a reorg): (id, height, parent id). `branches.Find` finds them. -/
  side : List (Id × Nat × Id) := []
deriving Repr, DecidableEq

/-- `headers.LastHash()` -/
def View.lastHash (v : View) : Option Id := v.chain.getLast?

def View.sideRec (v : View) (x : Id) : Option (Nat × Id) :=
  (v.side.find? (fun r => r.1 == x)).map (·.2)

/-- `headers.HashHeight(hash)`; `none` is the Go `-1`. The lookup covers every branch held. -/
def View.hashHeight (v : View) (x : Id) : Option Nat :=
  if v.chain.idxOf x < v.chain.length then some (v.chain.idxOf x) else (v.sideRec x).map (·.1)

/-- `headers.Hash(ctx, height)`: the BEST-CHAIN block at the height; `none` is the error return
    (height beyond the tip). Pruned heights are read back from storage, so the window does not
    matter here. -/
def View.hashAt (v : View) (h : Nat) : Option Id := v.chain[h]?

/-- `headers.PreviousHash(hash)`: nil when the hash is unknown, when it is the first block, or
    when the predecessor is no longer in memory. For a block on a side branch it is that block's
    own predecessor (side branches are kept in memory down to their fork point). -/
def View.previousHash (v : View) (x : Id) : Option Id :=
  if v.chain.idxOf x < v.chain.length then
    match v.chain.idxOf x with
    | 0 => none
    | h + 1 => if h < v.window then none else v.chain[h]?
  else (v.sideRec x).map (·.2)

/-- a Go integer comparison whose operator is an extracted fact. -/
def cmpOp (op : String) (a b : Nat) : Bool :=
  if op = "<" then decide (a < b)
  else if op = "<=" then decide (a ≤ b)
  else if op = ">" then decide (a > b)
  else if op = ">=" then decide (a ≥ b)
  else decide (a = b)

/-- every way the first half of `synchronizeBlocks` can end. -/
inductive PlanRes
  | noTip                          -- `lastHeight == -1`
  | belowStart                     -- `lastHeight < StartBlockHeight`: not at start height yet
  | inSync                         -- tip already processed
  | lost                           -- not in memory and no longer the best-chain block at its height: reorg, silent return
  | errPrevHash                    -- `headers.Hash(ctx, height-1)` failed: error return
  | plan (l : List Id) (h0 : Nat)  -- `hashes` and the height of its first element
  | fuelOut                        -- model artefact, proved unreachable (`planRes_ne_fuelOut`)
deriving Repr, DecidableEq

/-- the predecessor lookup of one loop iteration: `PreviousHash`, and when that is nil (header not
    in memory) the fallback by height, guarded by "still the best-chain block at this height". -/
inductive PrevRes
  | found (p : Id)
  | reorged
  | err
deriving Repr, DecidableEq

def prevOf (v : View) (hash : Id) (height : Nat) : PrevRes :=
  match v.previousHash hash with
  | some p => .found p
  | none =>
    match v.hashAt height with
    | none => .reorged
    | some cur =>
      if cur ≠ hash then .reorged
      else
        match v.hashAt (height - 1) with
        | none => .err
        | some p => .found p

/-- the `for { ... }` walk-back loop; `hash`/`height`/`acc` are the Go variables
    `hash`/`height`/`hashes`. Statement order as in the source (`Facts.syncWalkOrder`):
    start-test, PreviousHash, nil-fallback, processed-test, hash=prev, prepend, height--.
    (`height - 1` is only evaluated after the start test failed, i.e. with `height > start ≥ 0`.) -/
def walk (v : View) (proc : Id → Bool) (start : Nat) : Nat → Id → Nat → List Id → PlanRes
  | 0, _, _, _ => .fuelOut
  | fuel + 1, hash, height, acc =>
    if cmpOp Facts.syncWalkStopOp height start then .plan acc height
    else
      match prevOf v hash height with
      | .reorged => .lost
      | .err => .errPrevHash
      | .found prev =>
        if proc prev then .plan acc height
        else walk v proc start fuel prev (height - 1) (prev :: acc)

/-- the first half of `synchronizeBlocks`. -/
def planRes (v : View) (proc : Id → Bool) (start : Nat) : PlanRes :=
  match v.lastHash with
  | none => .noTip
  | some last =>
    match v.hashHeight last with
    | none => .noTip
    | some lastHeight =>
      if cmpOp Facts.syncStartGuardOp lastHeight start then .belowStart
      else if proc last then .inSync
      else walk v proc start (lastHeight + 1) last lastHeight [last]

/-- pair every planned hash with the height the request loop will pass to `AddRequest`. -/
def withHeights : List Id → Nat → List (Id × Nat)
  | [], _ => []
  | x :: xs, h => (x, h) :: withHeights xs (h + 1)

/-- `plan view processed start`: the (hash, height) requests of a round, `none` when the round
    returns before the request loop. -/
def plan (v : View) (proc : Id → Bool) (start : Nat) : Option (List (Id × Nat)) :=
  match planRes v proc start with
  | .plan l h0 => some (withHeights l h0)
  | _ => none

/-! ### the same walk-back when the header repository changes BETWEEN the round's own reads

Every call of the header repository is a separate lock acquisition, so new headers or a reorg can
land between any two of them. `Env` gives the view that is current when a call is made, as a
function of the calls made so far in this round (an adversary may use the whole history; "after
the k-th call of kind c, switch to view v'" is one instance). `planResE` issues the calls in
exactly the order of the Go source. -/

inductive Call | lastHash | hashHeight | previousHash | hash | height
deriving Repr, DecidableEq

abbrev Env := List Call → View

/-- the walk-back loop, one environment read per repository call. -/
def walkE (E : Env) (proc : Id → Bool) (start : Nat) :
    Nat → List Call → Id → Nat → List Id → PlanRes × List Call
  | 0, hist, _, _, _ => (.fuelOut, hist)
  | fuel + 1, hist, hash, height, acc =>
    if cmpOp Facts.syncWalkStopOp height start then (.plan acc height, hist)
    else
      -- previousHash, _ := m.headers.PreviousHash(hash)
      match (E hist).previousHash hash with
      | some prev =>
        let hist := hist ++ [.previousHash]
        if proc prev then (.plan acc height, hist)
        else walkE E proc start fuel hist prev (height - 1) (prev :: acc)
      | none =>
        let hist := hist ++ [.previousHash]
        -- currentHash, err := m.headers.Hash(ctx, height)
        match (E hist).hashAt height with
        | none => (.lost, hist ++ [.hash])
        | some cur =>
          let hist := hist ++ [.hash]
          if cur ≠ hash then (.lost, hist)
          else
            -- previousHash, err = m.headers.Hash(ctx, height-1)
            match (E hist).hashAt (height - 1) with
            | none => (.errPrevHash, hist ++ [.hash])
            | some prev =>
              let hist := hist ++ [.hash]
              if proc prev then (.plan acc height, hist)
              else walkE E proc start fuel hist prev (height - 1) (prev :: acc)

/-- the first half of `synchronizeBlocks`, one environment read per repository call:
    `LastHash()`, then `HashHeight(lashHash)` (the extracted `Facts.syncLastHeightExpr`), … -/
def planResE (E : Env) (proc : Id → Bool) (start : Nat) : PlanRes × List Call :=
  match (E []).lastHash with
  | none => (.noTip, [.lastHash])
  | some last =>
    match (E [.lastHash]).hashHeight last with
    | none => (.noTip, [.lastHash, .hashHeight])
    | some lastHeight =>
      let hist := [.lastHash, .hashHeight]
      if cmpOp Facts.syncStartGuardOp lastHeight start then (.belowStart, hist)
      else if proc last then (.inSync, hist)
      else walkE E proc start (lastHeight + 1) hist last lastHeight [last]

/-- "right after the k-th call of kind `c` returns, the repository changes from `v` to `v'`". -/
def injectEnv (v v' : View) (c : Call) (k : Nat) : Env :=
  fun hist => if k ≥ 1 ∧ (hist.filter (· == c)).length ≥ k then v' else v

/-! ### the request loop -/

/-- the loop is inside `select`, waiting on the request for `hash`. -/
structure Wait where
  hash : Id
  height : Nat
  rest : List Id
  abortClosed : Bool := false   -- `close(abort)` already executed
  nilChans : Bool := false      -- `AddRequest` returned (nil, nil): the manager had closed its queue
deriving Repr, DecidableEq

inductive RoundEnd
  | noTip | belowStart | inSync | lost | errPrevHash   -- returned before the request loop
  | mgrStopped                               -- `AddRequest` returned nil channels and the round returns
  | finished                                 -- every planned block completed
  | aborted                                  -- `complete` delivered `BlockAborted`
  | interrupted
  | errHeaderHash                            -- `headers.Hash` failed in the poll
  | panicDoubleClose                         -- `close(abort)` on an already closed channel
  | panicNilClose                            -- `close(abort)` on a nil channel
  | fuelOut
deriving Repr, DecidableEq

inductive RState
  | waiting (w : Wait)
  | ended (e : RoundEnd)
deriving Repr, DecidableEq

structure S where
  start : Nat
  view : View
  processed : List Id := []          -- blocks recorded by `AppendBlockTxIDs`
  reqs : List (Id × Nat) := []       -- `AddRequest` calls of the current round, oldest first
  rs : RState := .ended .finished
  mgrClosed : Bool := false          -- `BlockManager.requestsClosed`
deriving Repr

def S.isProcessed (s : S) (x : Id) : Bool := s.processed.contains x

/-- is `close(abort)` protected by the per-request `aborted` flag? -/
def abortGuarded : Bool := Facts.syncAbortGuard == "!aborted"

/-- does the loop return when `AddRequest` hands back nil channels? -/
def nilChecked : Bool := Facts.syncNilCompleteCheck == 1

/-- `AddRequest(hash, height)` then enter the `select` — or return when the block manager has
    closed its queue (nil channels) and the code checks for it. -/
def addRequest (s : S) (hash : Id) (height : Nat) (rest : List Id) : S :=
  if s.mgrClosed && nilChecked then { s with rs := .ended .mgrStopped }
  else
    { s with reqs := s.reqs ++ [(hash, height)],
             rs := .waiting { hash := hash, height := height, rest := rest, nilChans := s.mgrClosed } }

/-- start of a round, given the outcome of the walk-back: the first `AddRequest`. -/
def startRoundWith (s : S) : PlanRes → S
  | .noTip => { s with reqs := [], rs := .ended .noTip }
  | .belowStart => { s with reqs := [], rs := .ended .belowStart }
  | .inSync => { s with reqs := [], rs := .ended .inSync }
  | .lost => { s with reqs := [], rs := .ended .lost }
  | .errPrevHash => { s with reqs := [], rs := .ended .errPrevHash }
  | .fuelOut => { s with reqs := [], rs := .ended .fuelOut }
  | .plan [] _ => { s with reqs := [], rs := .ended .finished }
  | .plan (x :: xs) h0 => addRequest { s with reqs := [] } x h0 xs

/-- start of a round: the walk-back, then the first `AddRequest`. -/
def startRound (s : S) : S := startRoundWith s (planRes s.view s.isProcessed s.start)

/-- start of a round under a changing repository: plan with one read per call; the view that is
    current after the last read is what the request loop starts with. -/
def startRoundE (s : S) (E : Env) : S :=
  let r := planResE E s.isProcessed s.start
  startRoundWith { s with view := E r.2 } r.1

inductive Ev
  | setView (v : View)   -- environment: new headers, reorg, prune — any change at all
  | poll                 -- `case <-time.After(10 s)`
  | complete             -- `case err := <-complete` with err == nil (manager closed the channel)
  | aborted              -- `case err := <-complete` with err == BlockAborted
  | interrupt            -- `case <-interrupt`
deriving Repr

/-- one `select` iteration. Events that cannot happen in the state (e.g. `aborted` before the abort
    channel was closed, anything on nil channels) leave the state unchanged. -/
def step (s : S) : Ev → S
  | .setView v => { s with view := v }
  | ev =>
    match s.rs with
    | .ended _ => s
    | .waiting w =>
      match ev with
      | .setView _ => s
      | .poll =>
        match s.view.hashAt w.height with
        | none => { s with rs := .ended .errHeaderHash }
        | some x =>
          if x = w.hash then s
          else if w.nilChans then { s with rs := .ended .panicNilClose }
          else if w.abortClosed then
            (if abortGuarded then s else { s with rs := .ended .panicDoubleClose })
          else { s with rs := .waiting { w with abortClosed := true } }
      | .complete =>
        if w.nilChans then s
        else
          let s := { s with processed := s.processed ++ [w.hash] }
          match w.rest with
          | [] => { s with rs := .ended .finished }
          | n :: rest => addRequest s n (w.height + 1) rest
      | .aborted =>
        if w.abortClosed && !w.nilChans then { s with rs := .ended .aborted } else s
      | .interrupt => { s with rs := .ended .interrupted }

def run (s : S) (evs : List Ev) : S := evs.foldl step s

/-! ### the restart flag (`TriggerBlockSynchronize` / `runSynchronizeBlocks`) -/

/-- state of `blockManagerThread`. `exiting`: `runSynchronizeBlocks` has read the flag (false) or
    is returning an error, but `InterruptableThread` has not yet set `isComplete`. `dead`: the
    thread function panicked — `isComplete` is never set. -/
inductive TPc | nil | running | exiting | complete | dead
deriving Repr, DecidableEq

structure T where
  delayDone : Bool := false
  thread : TPc := .nil
  flag : Bool := false        -- blockSyncNeeded
  rounds : Nat := 0           -- rounds started so far
deriving Repr, DecidableEq

inductive RoundOutcome | ok | err | interrupted | panic
deriving Repr, DecidableEq

inductive TEv
  | delayComplete              -- markStartupDelayComplete (sets the flag, then triggers)
  | trigger
  | roundEnd (o : RoundOutcome)
  | markComplete               -- the thread wrapper sets isComplete
deriving Repr

def trigger (t : T) : T :=
  if !t.delayDone then t
  else
    let t := if t.thread = .complete then { t with thread := .nil } else t
    if t.thread ≠ .nil then { t with flag := true }
    else { t with thread := .running, rounds := t.rounds + 1 }

def tstep (t : T) : TEv → T
  | .delayComplete => trigger { t with delayDone := true }
  | .trigger => trigger t
  | .roundEnd o =>
    if t.thread ≠ .running then t
    else
      match o with
      | .ok => if t.flag then { t with flag := false, rounds := t.rounds + 1 } else { t with thread := .exiting }
      | .err => { t with thread := .exiting }
      | .interrupted => { t with thread := .exiting }
      | .panic => { t with thread := .dead }
  | .markComplete => if t.thread = .exiting then { t with thread := .complete } else t

def trun (t : T) (evs : List TEv) : T := evs.foldl tstep t

/-! ### deterministic scheduler for the correspondence scripts -/

inductive Outcome | ok | nonode | drop | wrong | hang
deriving Repr, DecidableEq

inductive Served | done | hang | dead
deriving Repr, DecidableEq

/-- the block manager (concurrency 1) serving ONE request from the scripted source: every failed
    attempt is retried at the next tick; more than `noDownloadLimit` consecutive ticks without an
    active download end the manager (`ErrNodeNotAvailable`). Result, number of `RequestBlock`
    calls, remaining outcomes. An empty script delivers. -/
def serve : List Outcome → Nat → Served × Nat × List Outcome
  | [], _ => (.done, 1, [])
  | .ok :: r, _ => (.done, 1, r)
  | .hang :: r, _ => (.hang, 1, r)
  | .nonode :: r, k =>
    if k + 1 ≥ Facts.noDownloadLimit + 2 then (.dead, 1, r)
    else
      let (x, n, r') := serve r (k + 1)
      (x, n + 1, r')
  | .drop :: r, _ =>
    let (x, n, r') := serve r 0
    (x, n + 1, r')
  | .wrong :: r, _ =>
    let (x, n, r') := serve r 0
    (x, n + 1, r')

structure D where
  s : S
  t : T := {}
  outs : List Outcome := []
  hung : Bool := false        -- a request hangs at the source
  mgrStale : Bool := false    -- the manager is still occupied by a request whose round is gone
  threadMode : Bool := false
  reqLog : List Id := []
  cb : List Id := []
  conf : List (Id × Nat) := []
deriving Repr

def D.waiting (d : D) : Option Wait :=
  match d.s.rs with
  | .waiting w => some w
  | .ended _ => none

def roundOutcome : RoundEnd → RoundOutcome
  | .interrupted => .interrupted
  | .errHeaderHash => .err
  | .errPrevHash => .err
  | .panicDoubleClose => .panic
  | .panicNilClose => .panic
  | _ => .ok

/-- in thread mode: when the round has ended, tell the thread machine; `true` when it started
    another round (restart flag). Idempotent once the thread has left `running`. -/
def afterRound (d : D) : D × Bool :=
  if !d.threadMode then (d, false)
  else
    match d.s.rs with
    | .waiting _ => (d, false)
    | .ended e =>
      let t1 := tstep d.t (.roundEnd (roundOutcome e))
      if t1.rounds > d.t.rounds then ({ d with t := t1, s := startRound d.s }, true)
      else ({ d with t := tstep t1 .markComplete }, false)

/-- serve requests until the round ends, a request hangs, or nothing can answer. -/
def drive : Nat → D → D
  | 0, d => d
  | fuel + 1, d =>
    match d.s.rs with
    | .ended _ =>
      let (d', again) := afterRound d
      if again then drive fuel d' else d'
    | .waiting w =>
      if w.nilChans || d.s.mgrClosed || d.mgrStale || d.hung then d
      else
        let (x, n, outs') := serve d.outs 0
        let d := { d with outs := outs', reqLog := d.reqLog ++ List.replicate n w.hash }
        match x with
        | .done =>
          drive fuel { d with cb := d.cb ++ [w.hash], conf := d.conf ++ [(w.hash, w.height)],
                              s := step d.s .complete }
        | .hang => { d with hung := true }
        | .dead => { d with s := { d.s with mgrClosed := true } }

def driveFuel (d : D) : Nat := 4 * (d.s.view.chain.length + 4) + 16

end BRV.Sync
