/-
Executable model of /repo/headers (branches.go, headers.go): the header repository as the Go code
implements it — branch objects with parent pointers (arena indices), per-branch height maps, the
session-wide `heights` map, `longest`, the invalid list, and storage at record granularity.

Hashes are abstract ids (`Nat`): a header is `{id, prev, bits, time, mr}` where `id` stands for
its double-SHA-256 (collision-freeness on the headers used is assumed). Go maps are association
lists with unique keys. Panics of the Go code are explicit outcomes. Pointer identity is arena
index identity: a mutation of a branch is visible through every reference, as in Go.
-/
import BRV.Model.Work
import BRV.Gen.Facts

namespace BRV.Repo

structure Hdr where
  id : Nat
  prev : Nat
  bits : Nat
  time : Nat
  mr : Nat := 0
deriving DecidableEq, Repr, Inhabited

structure HData where
  hdr : Hdr
  work : Nat            -- accumulated work up to and including this header
deriving DecidableEq, Repr, Inhabited

/-! ### maps -/

abbrev HMap := List (Nat × Int)

def HMap.get? (m : HMap) (k : Nat) : Option Int := List.lookup k m
def HMap.set (m : HMap) (k : Nat) (v : Int) : HMap := (k, v) :: m.filter (fun e => e.1 != k)
def HMap.del (m : HMap) (k : Nat) : HMap := m.filter (fun e => e.1 != k)

/-! ### branches -/

structure Branch where
  parent : Option Nat          -- arena index of the parent branch (Go pointer); none = nil
  parentHeight : Int
  first : Hdr                  -- firstHeader, never pruned
  offset : Int
  headers : List HData
  hmap : HMap                  -- heightsMap (may be stale after Trim: modelled as is)
deriving Repr, Inhabited

def Branch.height (b : Branch) : Int := b.parentHeight + b.offset + b.headers.length - 1
/-- `ParentHeight()` in the Go code (sic): parentHeight + offset − 1. -/
def Branch.parentHeightFn (b : Branch) : Int := b.parentHeight + b.offset - 1
def Branch.prunedLowest (b : Branch) : Int := b.parentHeight + b.offset
def Branch.last? (b : Branch) : Option HData := b.headers.getLast?

abbrev Arena := List Branch

/-- list index by an `Int` offset, `none` outside the list (Go: explicit bounds tests precede the index). -/
def getI {α : Type} (l : List α) (i : Int) : Option α :=
  if i < 0 then none else l[i.toNat]?

/-- `Branch.AtHeight`: recursion through parent branches (fuel = arena size bounds the depth). -/
def atHeight (ar : Arena) : Nat → Nat → Int → Option HData
  | 0, _, _ => none
  | fuel + 1, bi, h =>
    match ar[bi]? with
    | none => none
    | some b =>
      if h > b.parentHeight then
        getI b.headers (h - b.parentHeight - b.offset)   -- above tip / pruned ⇒ none
      else
        match b.parent with
        | none => none
        | some p => atHeight ar fuel p h

/-- `Branch.Find`: own map, then the parent's, recursively. -/
def bfind (ar : Arena) : Nat → Nat → Nat → Option Int
  | 0, _, _ => none
  | fuel + 1, bi, id =>
    match ar[bi]? with
    | none => none
    | some b =>
      match b.hmap.get? id with
      | some h => some h
      | none =>
        match b.parent with
        | none => none
        | some p => bfind ar fuel p id

/-! ### storage (record granularity) -/

structure BranchFile where
  first : Hdr
  parentHeight : Int
  offset : Int
  headers : List HData
deriving Repr, Inhabited, DecidableEq

structure Store where
  main : List (Nat × List HData) := []      -- version-1 main files: index ↦ records
  mainV0 : List (Nat × List Hdr) := []      -- legacy version-0 main files (headers only)
  branches : List (Nat × BranchFile) := []  -- keyed by the id of the branch's first header
  index : Option (List Nat) := none
  invalid : Option (List Nat) := none
deriving Repr, Inhabited

inductive StoreEv
  | mainWrite (file : Nat) (recs : List HData)
  | mainRemove (file : Nat)
  | branchWrite (key : Nat) (bf : BranchFile)
  | indexWrite (l : List Nat)
  | invalidWrite (l : List Nat)
deriving Repr

def assocSet {β : Type} (m : List (Nat × β)) (k : Nat) (v : β) : List (Nat × β) :=
  (k, v) :: m.filter (fun e => e.1 != k)

def Store.apply (s : Store) : StoreEv → Store
  | .mainWrite f recs => { s with main := assocSet s.main f recs, mainV0 := s.mainV0.filter (fun e => e.1 != f) }
  | .mainRemove f => { s with main := s.main.filter (fun e => e.1 != f), mainV0 := s.mainV0.filter (fun e => e.1 != f) }
  | .branchWrite k bf => { s with branches := assocSet s.branches k bf }
  | .indexWrite l => { s with index := some l }
  | .invalidWrite l => { s with invalid := some l }

/-! ### the repository -/

structure Split where
  name : String
  before : Nat
  after : Nat
  height : Int
deriving Repr, Inhabited, DecidableEq

structure Cfg where
  mainNet : Bool := false
  maxBranchDepth : Int := 144
  cfgInvalid : List Nat := []
  genesisId : Nat := 0           -- id of the real genesis hash of the network (repo.genesisHash)
  splits : List Split := []      -- sorted highest height first, as NewRepository does
  required : Option Split := none
deriving Repr, Inhabited

structure Repo where
  arena : Arena := []
  branches : List Nat := []       -- repo.branches: arena indices, order significant
  longest : Nat := 0
  heights : HMap := []            -- repo.heights: only grows
  invalid : List Nat := []
  store : Store := {}
  cfg : Cfg := {}
  disableDifficulty : Bool := false
  disableSplit : Bool := false
  events : List StoreEv := []     -- storage writes since the last reset, oldest first (for C12)
deriving Repr, Inhabited

def Repo.fuel (r : Repo) : Nat := r.arena.length + 1

def Repo.br (r : Repo) (i : Nat) : Branch := r.arena[i]?.getD default

def Repo.at (r : Repo) (bi : Nat) (h : Int) : Option HData := atHeight r.arena r.fuel bi h
def Repo.find (r : Repo) (bi : Nat) (id : Nat) : Option Int := bfind r.arena r.fuel bi id

/-- `Branches.Find`: the first branch, in list order, whose ancestry contains the hash. -/
def Repo.branchesFind (r : Repo) (id : Nat) : Option (Nat × Int) :=
  r.branches.findSome? fun bi => (r.find bi id).map fun h => (bi, h)

inductive Verdict
  | ok | known | unknown | wrongChain | badWork | badBits | invalid | tooDeep
  | err (msg : String)
  | panic (msg : String)
deriving DecidableEq, Repr, Inhabited

/-- `Branches.Longest`: first branch with maximal last accumulated work (`none` = a `Last()` on an
    empty branch would panic, or there is no branch). -/
def longestOf (ar : Arena) (bs : List Nat) : Option Nat :=
  let rec go : List Nat → Option (Nat × Nat) → Option (Nat × Nat)
    | [], acc => acc
    | bi :: rest, acc =>
      match (ar[bi]?.bind Branch.last?) with
      | none => none
      | some l =>
        match acc with
        | none => go rest (some (bi, l.work))
        | some (rb, rw) => if l.work > rw then go rest (some (bi, l.work)) else go rest (some (rb, rw))
  (go bs none).map (·.1)

/-- the ancestry of a branch as (branch, highest height of the chain inside that branch, id of the
    header at that height): the branch itself up to its tip, each ancestor up to the fork point. -/
def chainLinks (ar : Arena) : Nat → Nat → Int → Nat → List (Nat × Int × Nat)
  | 0, _, _, _ => []
  | fuel + 1, cur, height, hash =>
    (cur, height, hash) ::
      (match ar[cur]? with
       | none => []
       | some c =>
         match c.parent with
         | none => []
         | some p => chainLinks ar fuel p c.parentHeight c.first.prev)

/-- `Branch.IntersectHash` (repaired): the last header the chains ending in the two branches have in
    common — in the first branch common to both ancestries, the lower of the two leaving heights. -/
def intersectHash (ar : Arena) (fuel : Nat) (b other : Nat) : Option Nat :=
  let start := fun (x : Nat) =>
    match ar[x]? with
    | some bx => (bx.height, (match bx.last? with | some l => l.hdr.id | none => 0))
    | none => ((0 : Int), 0)
  let ol := chainLinks ar fuel other (start other).1 (start other).2
  let bl := chainLinks ar fuel b (start b).1 (start b).2
  bl.findSome? fun (cur, h, hash) =>
    match ol.find? (fun e => e.1 == cur) with
    | some (_, oh, ohash) => some (if oh < h then ohash else hash)
    | none => none

def Repo.setBranch (r : Repo) (bi : Nat) (b : Branch) : Repo := { r with arena := r.arena.set bi b }

/-- `sendBranchUpdate`: the headers of `branch` above the intersect, lowest first, as sent to every
    subscriber; an error can occur after some headers were already sent. -/
def sendBranchUpdate (r : Repo) (branch prevLongest : Nat) : List Hdr × Option String :=
  match intersectHash r.arena r.fuel branch prevLongest with
  | none => ([], some "Intersect not found")
  | some ih =>
    match r.find branch ih with
    | none => ([], some "Intersect missing")
    | some bh =>
      let latest := (r.br branch).height
      let n := (latest - bh).toNat
      let rec collect : Nat → Int → List Hdr → List Hdr × Option String
        | 0, _, acc => (acc.reverse, none)
        | k + 1, h, acc =>
          match r.at branch h with
          | none => (acc.reverse, some "Height Unavailable")
          | some d => collect k (h + 1) (d.hdr :: acc)
      collect n (bh + 1) []

/-- `NewBranch(parent, parentHeight, header)`: parent lookup errors come before the work
    computation (which panics on malformed bits). -/
def newBranch (r : Repo) (parent : Option Nat) (parentHeight : Int) (h : Hdr) : Except Verdict Branch :=
  let base : Except Verdict Nat :=
    match parent with
    | none => .ok 0
    | some p =>
      match r.at p parentHeight with
      | none => .error (.err "new branch: Header Data Not Found")
      | some last => if last.hdr.id ≠ h.prev then .error (.err "new branch: Wrong Previous Hash") else .ok last.work
  match base with
  | .error e => .error e
  | .ok bw =>
    match Work.blockWork h.bits with
    | none => .error (.panic "ConvertToDifficulty index out of range")
    | some w =>
      .ok { parent := parent, parentHeight := parentHeight, first := h, offset := 1,
            headers := [{ hdr := h, work := bw + w }], hmap := [(h.id, parentHeight + 1)] }

end BRV.Repo
