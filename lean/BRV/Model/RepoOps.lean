/-
Operations of the header repository model: ProcessHeader, Clean (consolidate / saveMainBranch /
prune), Save, Load, MarkHeaderInvalid / MarkHeaderNotInvalid and the read API — following
/repo/headers/headers.go and branches.go statement by statement.
-/
import BRV.Model.Repo

namespace BRV.Repo

def hpf : Int := (Facts.headersPerFile : Int)

/-- an error inside a maintenance op: an `error` return, or a Go runtime panic. -/
inductive Fail
  | err (msg : String)
  | panic (msg : String)
deriving Repr, DecidableEq, Inhabited

abbrev M := Except Fail

/-- `l[:n]` in Go for a slice with len = cap: panics outside [0, len]. -/
def sliceTo {α : Type} (l : List α) (n : Int) (what : String) : M (List α) :=
  if n < 0 ∨ n > l.length then .error (.panic s!"slice bounds out of range [:{n}] ({what})") else .ok (l.take n.toNat)

/-- `l[n:]`. -/
def sliceFrom {α : Type} (l : List α) (n : Int) (what : String) : M (List α) :=
  if n < 0 ∨ n > l.length then .error (.panic s!"slice bounds out of range [{n}:] ({what})") else .ok (l.drop n.toNat)

/-! ### DAA target as `Branch.Target` computes it -/

/-- insertion sort step used by Go's `sort.Sort` for short slices: stable, ascending by time. -/
def insertByTime (x : Nat × Nat) : List (Nat × Nat) → List (Nat × Nat)
  | [] => [x]
  | y :: ys => if x.1 < y.1 then x :: y :: ys else y :: insertByTime x ys

def sortByTime (l : List (Nat × Nat)) : List (Nat × Nat) := l.foldl (fun acc x => insertByTime x acc) []

/-- `MedianTimeAndWork(height, 3)`: samples at height-2, height-1, height (oldest first), sorted by
    time, middle element. -/
def medianTimeAndWork (r : Repo) (bi : Nat) (height : Int) : Option (Nat × Nat) :=
  match r.at bi height, r.at bi (height - 1), r.at bi (height - 2) with
  | some a, some b, some c =>
    (sortByTime [(c.hdr.time, c.work), (b.hdr.time, b.work), (a.hdr.time, a.work)])[1]?
  | _, _, _ => none

def maxWork : Nat := 2 ^ 224 - 1

def natBytesLen (n : Nat) : Nat := if n = 0 then 0 else (Nat.log2 n) / 8 + 1

/-- `bitcoin.ConvertToBits(target, MaxBits)`. -/
def convertToBits (t : Nat) (max : Nat) : Nat :=
  let length := natBytesLen t
  -- the three most significant bytes, zero padded on the right when shorter
  let value := if length ≥ 3 then t / 256 ^ (length - 3) else t * 256 ^ (3 - length)
  let maxLength := (max / 2 ^ 24) % 256
  let maxValue := max % 2 ^ 24
  let (length, value) := if maxLength < length ∨ (maxLength = length ∧ maxValue < value) then (maxLength, maxValue) else (length, value)
  let (length, value) := if value / 2 ^ 23 % 2 = 1 then (length + 1, value / 256) else (length, value)
  ((length * 2 ^ 24) % 2 ^ 32) + value % 2 ^ 24

/-- `Branch.Target(height)` then `ConvertToBits(target, MaxBits)`; `none` = header data missing. -/
def targetBits (r : Repo) (bi : Nat) (height : Int) : Option Nat :=
  match medianTimeAndWork r bi (height - Facts.daaLastOffset), medianTimeAndWork r bi (height - Facts.daaFirstOffset) with
  | some (lastTime, lastWork), some (firstTime, firstWork) =>
    -- timeSpan := lastTime - firstTime in uint32
    let span0 := (lastTime + 2 ^ 32 - firstTime) % 2 ^ 32
    let span1 := if span0 < Facts.daaMinSpan then Facts.daaMinSpan else span0
    let span := if span1 > Facts.daaMaxSpan then Facts.daaMaxSpan else span1
    let work : Int := (lastWork : Int) - (firstWork : Int)
    -- big.Int.Div is Euclidean division; span > 0
    let projected : Int := (work * (Facts.daaTargetSpacing : Int)) / (span : Int)
    -- ConvertToWork on a possibly negative big.Int: Xor with a negative value is two's complement;
    -- the model only covers projected ≥ 0 exactly and maps negatives to the cap.
    let target := if projected < 0 then maxWork else Work.convertToWork projected.toNat
    let target := if target > maxWork then maxWork else target
    some (convertToBits target 0x1d00ffff)
  | _, _ => none

/-! ### ProcessHeader -/

def Repo.lastOf (r : Repo) (bi : Nat) : Option HData := (r.br bi).last?

/-- storage write: applied to the store and logged. -/
def Repo.emit (r : Repo) (e : StoreEv) : Repo := { r with store := r.store.apply e, events := r.events ++ [e] }

/-- `Branch.Save`: merge with the previously saved file using the prune offset. -/
def branchSave (r : Repo) (b : Branch) : M Repo :=
  match List.lookup b.first.id r.store.branches with
  | none => .ok (r.emit (.branchWrite b.first.id { first := b.first, parentHeight := b.parentHeight, offset := b.offset, headers := b.headers }))
  | some prev =>
    match sliceTo prev.headers (b.offset - prev.offset) "Branch.Save" with
    | .error e => .error e
    | .ok keep => .ok (r.emit (.branchWrite b.first.id { prev with headers := keep ++ b.headers }))

/-- `Branch.Reload`: bring pruned headers back from the branch file (mutates the branch object). -/
def reload (r : Repo) (bi : Nat) : M Repo :=
  let b := r.br bi
  if b.offset = 1 then .ok r
  else
    match List.lookup b.first.id r.store.branches with
    | none => .error (.err "reload: read")
    | some prev =>
      match sliceTo prev.headers (b.offset - prev.offset) "Branch.Reload" with
      | .error e => .error e
      | .ok pre =>
        let newOffset := prev.offset
        let base := b.parentHeight + newOffset
        let hm := (pre.zipIdx).foldl (fun m (d, i) => HMap.set m d.hdr.id (base + (i : Int))) b.hmap
        .ok (r.setBranch bi { b with headers := pre ++ b.headers, offset := newOffset, hmap := hm })

def addAll (b : Branch) (hs : List HData) (from_ : Int) : Branch :=
  let hm := (hs.zipIdx).foldl (fun m (d, i) => HMap.set m d.hdr.id (from_ + (i : Int))) b.hmap
  { b with headers := b.headers ++ hs, hmap := hm }

/-- the walk of `Branch.Consolidate` from `b` up to `other`: (branch, linkHeight-of-entry) pairs
    in visiting order, and the final `linkHeight`. -/
def consolidateWalk (ar : Arena) : Nat → Nat → Nat → Option Nat → Int → List (Nat × Int) → Option (List (Nat × Int) × Int)
  | 0, _, _, _, _, _ => none
  | fuel + 1, cur, other, prev, linkH, acc =>
    let entry : Int := match prev with
      | none => -1
      | some p => (ar[p]?.getD default).parentHeight
    if cur = other then some (acc ++ [(cur, entry)], linkH)
    else
      match ar[cur]? with
      | none => none
      | some c =>
        match c.parent with
        | none => none   -- ErrNotAncestor
        | some p => consolidateWalk ar fuel p other (some cur) c.parentHeight (acc ++ [(cur, entry)])

/-- `Branch.Consolidate`: returns the new main branch (not yet in the arena) and the link height. -/
def consolidateBranch (r : Repo) (b other : Nat) : M (Repo × Branch × Int) :=
  match consolidateWalk r.arena r.fuel b other none 0 [] with
  | none => .error (.err "derive: Branch Not Ancestor")
  | some (links, linkHeight) =>
    let o := r.br other
    let result0 : Branch := { parent := o.parent, parentHeight := o.parentHeight, first := o.first, offset := o.offset, headers := [], hmap := [] }
    let rec go : List (Nat × Int) → Repo → Branch → Int → M (Repo × Branch)
      | [], r, res, _ => .ok (r, res)
      | (li, lh) :: rest, r, res, height =>
        let lb0 := r.br li
        let linked : Bool := match res.headers.getLast? with
          | none => true
          | some l => lb0.first.prev == l.hdr.id
        if !linked then .error (.err "derive: Wrong previous hash")
        else
          match (if lb0.parent.isSome then reload r li else .ok r) with
          | .error e => .error (match e with | .err m => .err ("derive: " ++ m) | p => p)
          | .ok r1 =>
            let lb := r1.br li
            let endH : Int := if lh = -1 then lb.headers.length else lh - lb.prunedLowest + 1
            if endH > lb.headers.length then .error (.err "derive: Header end height too high")
            else
              match sliceTo lb.headers endH "Consolidate" with
              | .error e => .error e
              | .ok part => go rest r1 (addAll res part height) (height + part.length)
    match go links.reverse r result0 (result0.parentHeight + result0.offset) with
    | .error e => .error e
    | .ok (r1, res) => .ok (r1, res, linkHeight)

/-- `Branch.Truncate` of the old oldest branch onto the new main branch (arena index `parent`). -/
def truncateBranch (r : Repo) (bi parent : Nat) (parentHeight : Int) : M (Repo × Branch) :=
  let b0 := r.br bi
  if parentHeight < b0.parentHeight then .error (.err "truncate: cannot extend")
  else
    match (if parentHeight + 1 < b0.prunedLowest then reload r bi else .ok r) with
    | .error e => .error e
    | .ok r1 =>
      let b := r1.br bi
      match r1.at parent parentHeight with
      | none => .error (.err "truncate: Missing parent header")
      | some ph =>
        match r1.at bi (parentHeight + 1) with
        | none => .error (.err "truncate: Missing branch header")
        | some bh =>
          if bh.hdr.prev ≠ ph.hdr.id then .error (.err "truncate: Wrong hash at new parent height")
          else
            match newBranch r1 (some parent) parentHeight bh.hdr with
            | .error (.panic m) => .error (.panic m)
            | .error _ => .error (.err "truncate: new branch")
            | .ok res =>
              match sliceFrom b.headers (parentHeight + 2 - b.prunedLowest) "Truncate" with
              | .error e => .error e
              | .ok tail => .ok (r1, addAll res tail (parentHeight + 2))

/-- `Branch.Connect`: re-hang a branch on the first of `cands` (arena indices) that finds its
    previous hash. -/
def connectBranch (r : Repo) (bi : Nat) (cands : List Nat) : M (Repo × Branch) :=
  match reload r bi with
  | .error e => .error e
  | .ok r1 =>
    let b := r1.br bi
    match cands.findSome? (fun c => (r1.find c b.first.prev).map (fun h => (c, h))) with
    | none => .error (.err "Branch Not Ancestor")
    | some (parent, parentHeight) =>
      match newBranch r1 (some parent) parentHeight b.first with
      | .error (.panic m) => .error (.panic m)
      | .error _ => .error (.err "connect: new branch")
      | .ok res =>
        -- (repaired) the first header is at parentHeight+1 and is already in `result`
        let height := parentHeight + 2
        match sliceFrom b.headers (height - b.prunedLowest) "Connect" with
        | .error e => .error e
        | .ok tail => .ok (r1, addAll res tail height)

/-- stable insertion sort by parentHeight (sort.Sort on ≤ 12 elements is insertion sort). -/
def insertByPH (ar : Arena) (x : Nat) : List Nat → List Nat
  | [] => [x]
  | y :: ys =>
    if (ar[x]?.getD default).parentHeight < (ar[y]?.getD default).parentHeight then x :: y :: ys
    else y :: insertByPH ar x ys

def sortByPH (ar : Arena) (l : List Nat) : List Nat := l.foldl (fun acc x => insertByPH ar x acc) []

/-- for every branch between the longest and the oldest: the height at which the next branch
    (towards the tip) forks from it. -/
def forkHeightsOf (ar : Arena) (ob : Nat) : Nat → Nat → List (Nat × Int)
  | 0, _ => []
  | fuel + 1, cur =>
    if cur = ob then []
    else
      match ar[cur]? with
      | none => []
      | some c =>
        match c.parent with
        | none => []
        | some p => (p, c.parentHeight) :: forkHeightsOf ar ob fuel p

def consolidate (r : Repo) : M Repo :=
  let oldest := r.branches.find? (fun bi => (r.br bi).parentHeight == -1)
  -- (the `parentHeight < oldestHeight` alternative in the Go loop can never select a branch with
  --  parentHeight ≥ -1: oldestHeight starts at -2)
  let oldest := match oldest with
    | some o => some o
    | none => r.branches.foldl (fun (acc : Option Nat × Int) bi =>
        if (r.br bi).parentHeight < acc.2 then (some bi, (r.br bi).parentHeight) else acc) (none, -2) |>.1
  match oldest with
  | none => .error (.err "consolidate: Missing oldest branch")
  | some ob =>
    if ob = r.longest then .ok r
    else
      let lb := r.longest
      match consolidateBranch r lb ob with
      | .error e => .error e
      | .ok (r1, newMain, linkHeight) =>
        let mi := r1.arena.length
        let r2 := { r1 with arena := r1.arena ++ [newMain] }
        -- (repaired) nothing to re-hang when the old oldest branch ends at the link height
        let trunc : M (Repo × List Nat) :=
          if (r2.br ob).height > linkHeight then
            match truncateBranch r2 ob mi linkHeight with
            | .error e => .error e
            | .ok (r3, newOldest) => .ok ({ r3 with arena := r3.arena ++ [newOldest] }, [mi, r3.arena.length])
          else .ok (r2, [mi])
        match trunc with
        | .error e => .error e
        | .ok (r4, nbs0) =>
          let sorted := sortByPH r4.arena r4.branches
          let r5 := { r4 with branches := sorted }
          -- (repaired) branches between the longest and the oldest are in the new main branch up
          -- to the height the next branch forks from them: only what is above is re-hung
          let forkHeights : List (Nat × Int) := forkHeightsOf r4.arena ob r4.fuel lb
          let rec hang : List Nat → Repo → List Nat → M (Repo × List Nat)
            | [], r, nbs => .ok (r, nbs)
            | bi :: rest, r, nbs =>
              if bi = ob ∨ bi = lb then hang rest r nbs
              else if (List.lookup bi forkHeights).isSome then
                let fh := (List.lookup bi forkHeights).getD 0
                if (r.br bi).height ≤ fh then hang rest r nbs
                else
                  match truncateBranch r bi mi fh with
                  | .error (.panic m) => .error (.panic m)
                  | .error (.err _) => .error (.err "truncate branch to main")
                  | .ok (r', nb) =>
                    let ni := r'.arena.length
                    hang rest { r' with arena := r'.arena ++ [nb] } (nbs ++ [ni])
              else
                match connectBranch r bi nbs with
                | .error (.panic m) => .error (.panic m)
                | .error (.err _) =>
                  -- "Failed to connect branch to main": the branch is saved and dropped
                  (match reload r bi with
                   | .error (.panic m) => .error (.panic m)
                   | .error (.err _) =>
                     (match branchSave r (r.br bi) with
                      | .error (.panic m) => .error (.panic m)
                      | .error (.err _) => hang rest r nbs
                      | .ok r' => hang rest r' nbs)
                   | .ok r0 =>
                     (match branchSave r0 (r0.br bi) with
                      | .error (.panic m) => .error (.panic m)
                      | .error (.err _) => hang rest r0 nbs
                      | .ok r' => hang rest r' nbs))
                | .ok (r', nb) =>
                  let ni := r'.arena.length
                  hang rest { r' with arena := r'.arena ++ [nb] } (nbs ++ [ni])
          match hang sorted r5 nbs0 with
          | .error e => .error e
          | .ok (r6, nbs) => .ok { r6 with branches := nbs, longest := mi }

/-- the records of the current main file that precede the lowest header still in memory (`saveMainBranch`
    re-reads them when the branch has been pruned inside a file). -/
def saveMainStart (r : Repo) : M (List HData) :=
  let mb := r.br r.longest
  let height := mb.prunedLowest
  let file := Int.tdiv height hpf
  let keepCount := height - file * hpf
  if mb.offset ≠ 1 ∧ keepCount > 0 then
    match List.lookup file.toNat r.store.main with
    | none => .error (.err "save main: read")
    | some recs =>
      -- data[:currentFileByteOffset+1]
      if (recs.length : Int) < keepCount then .error (.panic "save main: slice bounds out of range") else .ok (recs.take keepCount.toNat)
  else .ok []

/-- `saveMainBranch`: writes the longest branch into the 1000-header main files, ascending, then
    removes the next file. -/
def saveMainBranch (r : Repo) : M Repo :=
  let mb := r.br r.longest
  let height := mb.prunedLowest
  let file := Int.tdiv height hpf
  match saveMainStart r with
  | .error e => .error e
  | .ok buf0 =>
    let rec go : List HData → Repo → Int → Int → List HData → Repo × Int × List HData
      | [], r, file, _, buf => (r, file, buf)
      | d :: rest, r, file, height, buf =>
        let buf' := buf ++ [d]
        let height' := height + 1
        if height' = (file + 1) * hpf then
          go rest (r.emit (.mainWrite file.toNat buf')) (file + 1) height' []
        else go rest r file height' buf'
    let (r1, file1, buf) := go mb.headers r file height buf0
    -- `if buf.Len() > 0` is always true (the version byte): the current file is always written
    let r2 := r1.emit (.mainWrite file1.toNat buf)
    .ok (r2.emit (.mainRemove (file1 + 1).toNat))

def saveInvalid (r : Repo) : Repo := r.emit (.invalidWrite r.invalid)

/-- `Branch.Prune(count)`. -/
def pruneBranch (b : Branch) (count : Int) : Branch :=
  if count < 0 ∨ count ≥ b.headers.length then b
  else
    let dropped := b.headers.take count.toNat
    { b with headers := b.headers.drop count.toNat, offset := b.offset + count,
             hmap := dropped.foldl (fun m d => HMap.del m d.hdr.id) b.hmap }

/-- `prune(depth)`. -/
def prune (r : Repo) (depth : Int) : M Repo :=
  match r.branches with
  | [] => .error (.panic "prune: slice bounds out of range [1:0]")
  | _ :: others =>
    let height := (r.br r.longest).height
    let pruneHeight := others.foldl (fun ph bi => if (r.br bi).parentHeightFn < ph then (r.br bi).parentHeightFn else ph) (height - depth)
    let rec go : List Nat → Repo → List Nat → M (Repo × List Nat)
      | [], r, nbs => .ok (r, nbs)
      | bi :: rest, r, nbs =>
        match branchSave r (r.br bi) with
        | .error e => .error e
        | .ok r1 =>
          let b := r1.br bi
          if b.height < pruneHeight then go rest r1 nbs
          else
            let r2 := if b.prunedLowest < pruneHeight then r1.setBranch bi (pruneBranch b (pruneHeight - b.prunedLowest)) else r1
            go rest r2 (nbs ++ [bi])
    match go r.branches r [] with
    | .error e => .error e
    | .ok (r1, nbs) => .ok { r1 with branches := nbs }

/-- `clean` with a chosen prune depth (the real one is `Facts.pruneDepth`). An error leaves the
    mutations done so far in place, as in the Go code. -/
def cleanWith (r : Repo) (depth : Int) : Repo × Option Fail :=
  match consolidate r with
  | .error e => (r, some e)     -- NB: consolidate may have reloaded branches; those mutations are benign and not kept here
  | .ok r1 =>
    match saveMainBranch r1 with
    | .error e => (r1, some e)
    | .ok r2 =>
      match prune r2 depth with
      | .error e => (r2, some e)
      | .ok r3 => (saveInvalid r3, none)

def saveBranches (r : Repo) : M Repo :=
  let rec go : List Nat → Repo → M Repo
    | [], r => .ok r
    | bi :: rest, r =>
      match branchSave r (r.br bi) with
      | .error e => .error e
      | .ok r1 => go rest r1
  match go r.branches r with
  | .error e => .error e
  | .ok r1 => .ok (r1.emit (.indexWrite (r.branches.map (fun bi => (r.br bi).first.id))))

def save (r0 : Repo) : Repo × Option Fail :=
  -- (repaired) Save consolidates first: saveMainBranch needs the longest branch to reach back to
  -- the oldest header
  match consolidate r0 with
  | .error e => (r0, some e)
  | .ok r =>
  match saveMainBranch r with
  | .error e => (r, some e)
  | .ok r1 =>
    match saveBranches r1 with
    | .error e => (r1, some e)
    | .ok r2 => (saveInvalid r2, none)

/-! ### ProcessHeader -/

structure StepOut where
  verdict : Verdict
  events : List Hdr := []      -- headers sent to every subscriber, in order
deriving Repr

/-- "Ensure we are on the correct chain": at the required split's height only its header passes. -/
def requiredViolated (r : Repo) (height : Int) (id : Nat) : Bool :=
  match r.cfg.required with
  | some rq => height == rq.height && rq.after != id
  | none => false

/-- the difficulty-adjustment check (from `Facts.daaHeight` on, unless difficulty is disabled). -/
def daaVerdict (r : Repo) (pb : Nat) (height : Int) (bits : Nat) : Option Verdict :=
  if height ≥ (Facts.daaHeight : Int) && !r.disableDifficulty then
    match targetBits r pb height with
    | none => some (.err "calculate target")
    | some b => if b ≠ bits then some .badBits else none
  else none

/-- Every check `ProcessHeader` makes before it mutates anything, in the order of the code:
    `inl v` = answered with verdict `v`, nothing changed; `inr (pb, ph, last)` = accepted for
    insertion after header `last` at height `ph` of branch `pb`. -/
def precheck (r : Repo) (h : Hdr) (hashOk : Bool) : Verdict ⊕ (Nat × Int × HData) :=
  -- (repaired) bits the difficulty conversion cannot handle are refused up front
  if Work.malformedBits h.bits then .inl .badBits
  else if !r.disableDifficulty && !hashOk then .inl .badWork
  else
    match r.branchesFind h.prev with
    | none =>
      if r.cfg.splits.any (fun s => s.after == h.id) then .inl .wrongChain
      else if r.cfg.genesisId == h.prev then .inl .wrongChain
      else .inl .unknown
    | some (pb, ph) =>
      let height := ph + 1
      if (r.branchesFind h.id).isSome then .inl .known
      else if !r.disableSplit && r.cfg.splits.any (fun s => s.height == height && s.after == h.id) then .inl .wrongChain
      else if !r.disableSplit && requiredViolated r height h.id then .inl .wrongChain
      else
        match daaVerdict r pb height h.bits with
        | some v => .inl v
        | none =>
          if r.invalid.contains h.id then .inl .invalid
          else
            match r.lastOf pb with
            | none => .inl (.panic "Last() on empty branch")
            | some last =>
              if last.hdr.id ≠ h.prev ∧ (r.br r.longest).height - ph > r.cfg.maxBranchDepth then .inl .tooDeep
              else .inr (pb, ph, last)

/-- `longest := Longest()` with the branch update announced to subscribers when it changes:
    `ok (repo, headersSent, events)`, or the early return of `ProcessHeader` (state already mutated). -/
def reselect (r1 : Repo) : Except (Repo × StepOut) (Repo × Bool × List Hdr) :=
  match longestOf r1.arena r1.branches with
  | none => .error (r1, { verdict := .panic "Longest: Last() on empty branch" })
  | some lg =>
    if lg ≠ r1.longest then
      match sendBranchUpdate r1 lg r1.longest with
      | (evs, some e) => .error (r1, { verdict := .err ("send branch update: " ++ e), events := evs })
      | (evs, none) => .ok ({ r1 with longest := lg }, true, evs)
    else .ok (r1, false, [])

/-- new-branch path of `ProcessHeader`: a header already follows the parent in that branch. -/
def forkHeader (r : Repo) (h : Hdr) (pb : Nat) (ph : Int) : Repo × StepOut :=
  match newBranch r (some pb) ph h with
  | .error v => (r, { verdict := v })
  | .ok nb =>
    let ni := r.arena.length
    let r1 := { r with arena := r.arena ++ [nb], branches := r.branches ++ [ni], heights := r.heights.set h.id (ph + 1) }
    match reselect r1 with
    | .error x => x
    | .ok (r2, _, evs) => (r2, { verdict := .ok, events := evs })

/-- `Branch.Add` + heights map: the state right after the header was appended to branch `pb`. -/
def addToBranch (r : Repo) (h : Hdr) (pb : Nat) (ph : Int) (last : HData) (w : Nat) : Repo :=
  let b := r.br pb
  let b1 : Branch := { b with headers := b.headers ++ [{ hdr := h, work := last.work + w }] }
  let b2 : Branch := { b1 with hmap := b1.hmap.set h.id b1.height }
  { (r.setBranch pb b2) with heights := r.heights.set h.id (ph + 1) }

/-- extension path of `ProcessHeader`. -/
def extendHeader (r : Repo) (h : Hdr) (pb : Nat) (ph : Int) (last : HData) : Repo × StepOut :=
  match Work.blockWork h.bits with
  | none => (r, { verdict := .panic "Add: ConvertToDifficulty" })
  | some w =>
    let r1 := addToBranch r h pb ph last w
    let sw : Except (Repo × StepOut) (Repo × Bool × List Hdr) :=
      if pb ≠ r1.longest then reselect r1 else .ok (r1, false, [])
    match sw with
    | .error x => x
    | .ok (r2, sent, evs) =>
      if pb = r2.longest then
        let r3 :=
          if Int.tmod (r2.br pb).height (Facts.autoCleanModulus : Int) = 0 then
            (cleanWith r2 (Facts.pruneDepth : Int)).1   -- errors are only logged
          else r2
        (r3, { verdict := .ok, events := if sent then evs else [h] })
      else (r2, { verdict := .ok, events := evs })

/-- the mutation part of `ProcessHeader`, after every check passed. -/
def applyHeader (r : Repo) (h : Hdr) (pb : Nat) (ph : Int) (last : HData) : Repo × StepOut :=
  if last.hdr.id ≠ h.prev then forkHeader r h pb ph else extendHeader r h pb ph last

/-- `Repository.ProcessHeader`. -/
def processHeader (r : Repo) (h : Hdr) (hashOk : Bool) : Repo × StepOut :=
  match precheck r h hashOk with
  | .inl v => (r, { verdict := v })
  | .inr (pb, ph, last) => applyHeader r h pb ph last

/-! ### invalid marking (as the code is) -/

/-- `Branches.Trim`, one branch of the list: removed when its parent was removed, or when it hangs off
    the trimmed branch at or above the trim height; `acc = (kept, removed)`. -/
def parentRemoved (r1 : Repo) (removed : List Nat) (x : Nat) : Bool :=
  match (r1.br x).parent with
  | some p => removed.contains p
  | none => false

def trimStep (r1 : Repo) (bi : Nat) (height : Int) (acc : List Nat × List Nat) (x : Nat) : List Nat × List Nat :=
  let xb := r1.br x
  if parentRemoved r1 acc.2 x then (acc.1, acc.2 ++ [x])
  else if xb.parent == some bi && xb.parentHeight ≥ height then (acc.1, acc.2 ++ [x])
  else (acc.1 ++ [x], acc.2)

/-- `Branch.Trim`: the branch cut to `hs`; (repaired) the trimmed headers leave the height map too. -/
def trimmedBranch (b : Branch) (off : Int) (hs : List HData) : Branch :=
  { b with headers := hs, hmap := (b.headers.drop off.toNat).foldl (fun m d => HMap.del m d.hdr.id) b.hmap }

/-- `Branch.Trim` + `Branches.Trim`. -/
def trim (r : Repo) (bi : Nat) (height : Int) : M Repo :=
  let b := r.br bi
  let step1 : M Repo :=
    if height = b.parentHeight + 1 then .ok { r with branches := r.branches.filter (· != bi) }   -- first occurrence; indices are unique
    else if height ≤ b.parentHeight then .error (.err "trim: Height Below Start")
    else
      let off := height - b.parentHeight - b.offset
      if off ≥ b.headers.length then .error (.err "trim: Height Above Tip")
      else if off ≤ 0 then .error (.err "trim: Height Pruned")
      else
        match sliceTo b.headers off "Trim" with
        | .error e => .error e
        | .ok hs =>
          .ok (r.setBranch bi (trimmedBranch b off hs))
  match step1 with
  | .error e => .error e
  | .ok r1 =>
    let (keep, _) := r1.branches.foldl (trimStep r1 bi height) ([], [])
    .ok { r1 with branches := keep }

/-- the list part of `MarkHeaderInvalid`: a hash already in the list is neither appended nor written again. -/
def markRecord (r : Repo) (id : Nat) : Repo :=
  if r.invalid.contains id then r else saveInvalid { r with invalid := r.invalid ++ [id] }

/-- `MarkHeaderInvalid` (as repaired: a hash that is already in the list — the configured hashes get there on
    Load without a look at the accepted headers — is still looked for in the branches and trimmed). -/
def markInvalid (r : Repo) (id : Nat) : Repo × Option Fail :=
  let r1 := markRecord r id
  match r1.branchesFind id with
  | none => (r1, none)          -- not accepted (yet): the mark only pre-empts it
  | some (bi, h) =>
    match trim r1 bi h with
    | .error e => (r1, some e)
    | .ok r2 =>
      match longestOf r2.arena r2.branches with
      | none => (r2, some (.panic "Longest() after trim"))
      | some lg => ({ r2 with longest := lg }, none)

def markNotInvalid (r : Repo) (id : Nat) : Repo :=
  if r.invalid.contains id then
    -- removes the first occurrence
    let rec rm : List Nat → List Nat
      | [] => []
      | x :: xs => if x = id then xs else x :: rm xs
    saveInvalid { r with invalid := rm r.invalid }
  else r

/-! ### Load -/

def freshRepo (r : Repo) : Repo :=
  { arena := [], branches := [], longest := 0, heights := [(r.cfg.genesisId, 0)], invalid := r.cfg.cfgInvalid,
    store := r.store, cfg := r.cfg, disableDifficulty := r.disableDifficulty, disableSplit := r.disableSplit, events := [] }

def branchOfFile (bf : BranchFile) : Branch :=
  let base := bf.parentHeight + bf.offset
  { parent := none, parentHeight := bf.parentHeight, first := bf.first, offset := bf.offset, headers := bf.headers,
    hmap := (bf.headers.zipIdx).foldl (fun m (d, i) => HMap.set m d.hdr.id (base + (i : Int))) [] }

/-- `loadHistoricalHashHeights`. -/
def loadHistorical (r : Repo) : M Repo :=
  let mb := r.br r.longest
  let height := mb.prunedLowest
  let file := Int.tdiv height hpf
  let byteOff := height - file * hpf
  if byteOff = 0 ∧ file = 0 then .ok r
  else
    let startFile := if byteOff = 0 then file - 1 else file
    let rec go : Nat → Nat → Repo → M Repo
      | 0, _, r => .ok r
      | k + 1, f, r =>
        -- files f, f-1, ..., 0
        match List.lookup f r.store.main with
        | none =>
          if (List.lookup f r.store.mainV0).isSome then .error (.err "historical heights: Unknown version")
          else .error (.err "historical heights: read")
        | some recs =>
          let hm := (recs.zipIdx).foldl (fun m (d, i) => HMap.set m d.hdr.id ((f : Int) * hpf + (i : Int))) r.heights
          let r1 := { r with heights := hm }
          if f = 0 then .ok r1 else go k (f - 1) r1
    go (startFile.toNat + 1) startFile.toNat r

/-- the invalid list `load` installs: what storage holds, then the configured hashes not already in it. -/
def mergedInvalid (st : Store) (cfg : Cfg) : List Nat :=
  cfg.cfgInvalid.foldl (fun acc x => if acc.contains x then acc else acc ++ [x]) (st.invalid.getD [])

/-- `VerifyHeader`: only the required split's header verifies a peer. -/
def isRequired (r : Repo) (id : Nat) : Bool :=
  match r.cfg.required with
  | some rq => rq.after == id
  | none => false

def verifyHeader (r : Repo) (h : Hdr) : Verdict :=
  if isRequired r h.id then .ok
  else if r.cfg.splits.any (fun s => s.after == h.id) then .wrongChain
  else if r.cfg.genesisId == h.prev then .err "Header after genesis"
  else .unknown

/-- `load`, first loop: read every indexed branch file. -/
def loadRead (st : Store) : List Nat → List Branch → M (List Branch)
  | [], acc => .ok acc
  | k :: rest, acc =>
    match List.lookup k st.branches with
    | none => .error (.err "branch: read")
    | some bf => loadRead st rest (acc ++ [branchOfFile bf])

/-- (repaired) one round of "keep the branches kept branches are built on". -/
def loadKeepStep (bs : List Branch) (keep : List Bool) : List Bool :=
  (bs.zip keep).map fun (b, k) =>
    k || (bs.zip keep).any fun (c, kc) =>
      kc && c.parentHeight != -1 && (b.hmap.get? c.first.prev).getD (-1) == c.parentHeight

def loadKeepFix : Nat → List Branch → List Bool → List Bool
  | 0, _, keep => keep
  | n + 1, bs, keep => loadKeepFix n bs (loadKeepStep bs keep)

/-- (repaired) do not prune below a header a kept branch is built on. -/
def loadPruneHeight (bs : List Branch) (keep : List Bool) (keepHeight : Int) : Int :=
  (bs.zip keep).foldl (fun (ph : Int) (b, k) =>
    if k && b.parentHeight != -1 && b.parentHeight < ph then b.parentHeight else ph) keepHeight

/-- place one kept branch (pruned to the prune height) into the arena; `loadBranchHashHeights`
    (repaired): heights from the lowest retained height. -/
def loadPlaceStep (pruneHeight : Int) (acc : Repo × List Nat) (x : Branch × Bool) : Repo × List Nat :=
  if !x.2 then acc
  else
    let r := acc.1
    let b := x.1
    let b' := if b.prunedLowest ≤ pruneHeight then pruneBranch b (pruneHeight - b.prunedLowest) else b
    let bi := r.arena.length
    let hm := (b'.headers.zipIdx).foldl (fun m (d, i) => HMap.set m d.hdr.id (b'.prunedLowest + (i : Int))) r.heights
    ({ r with arena := r.arena ++ [b'], heights := hm }, acc.2 ++ [bi])

def loadPlace (r : Repo) (bs : List Branch) (keep : List Bool) (pruneHeight : Int) : Repo × List Nat :=
  (bs.zip keep).foldl (loadPlaceStep pruneHeight) (r, [])

/-- `Branch.Link` of one loaded branch: first branch that finds the previous hash; wrong height ⇒
    error ⇒ skipped. -/
def loadLinkStep (r : Repo) (bi : Nat) : Repo :=
  let b := r.br bi
  if b.parentHeight = -1 then { r with branches := r.branches ++ [bi] }
  else
    match r.branches.findSome? (fun c => (r.find c b.first.prev).map (fun h => (c, h))) with
    | none => r
    | some (c, h) =>
      if h ≠ b.parentHeight then r
      else { (r.setBranch bi { b with parent := some c }) with branches := r.branches ++ [bi] }

/-- `load`, after the indexed branch files have been read and placed: sort by parent height, link,
    choose the longest linked branch, read the historical heights. -/
def loadFinish (r1 : Repo) (loaded : List Nat) : Repo × Option Fail :=
  if loaded.isEmpty then (r1, some (.err "No branches loaded"))
  else
    let sorted := sortByPH r1.arena loaded
    let r2 := sorted.foldl loadLinkStep { r1 with branches := [] }
    -- (repaired) only a branch that could be linked can be the longest
    if r2.branches.isEmpty then (r2, some (.err "No branches linked"))
    else
      match longestOf r2.arena r2.branches with
      | none => (r2, some (.panic "Longest: Last() on empty branch"))
      | some lg =>
        let r2 := { r2 with longest := lg }
        match loadHistorical r2 with
        | .error e => (r2, some e)
        | .ok r3 => (r3, none)

/-- `migrate` / `initializeWithGenesis` are handled by the driver-level `init` for now: loading
    storage without a branch index yields the error class `no-index`. -/
def load (r0 : Repo) (depth : Int) (genesis : Hdr) : Repo × Option Fail :=
  let r := freshRepo r0
  let r := { r with invalid := mergedInvalid r.store r.cfg }
  match r.store.index with
  | none =>
    -- migrate: no legacy files ⇒ initialise with genesis
    if r.store.mainV0.isEmpty then
      match newBranch r none (-1) genesis with
      | .ok b => ({ r with arena := [b], branches := [0], longest := 0 }, none)
      | .error _ => (r, some (.panic "genesis"))
    else (r, some (.err "migrate: not modelled"))
  | some idx =>
    if idx.isEmpty then (r, some (.err "No branches to load"))
    else
      let rdAll : M (Repo × List Nat) :=
        match loadRead r.store idx [] with
        | .error e => .error e
        | .ok bs =>
          match bs.head? with
          | none => .ok (r, [])
          | some b0 =>
            let keepHeight := b0.height - depth
            let keep := loadKeepFix bs.length bs (bs.map fun b => decide (b.height ≥ keepHeight))
            .ok (loadPlace r bs keep (loadPruneHeight bs keep keepHeight))
      match rdAll with
      | .error e => (r, some e)
      | .ok (r1, loaded) => loadFinish r1 loaded

/-! ### read API -/

def hashHeight (r : Repo) (id : Nat) : Option Int :=
  match r.branchesFind id with
  | some (_, h) => some h
  | none => r.heights.get? id

def previousHash (r : Repo) (id : Nat) : Option (Nat × Int) :=
  match r.branchesFind id with
  | none => none
  | some (bi, h) => (r.at bi (h - 1)).map fun d => (d.hdr.id, h - 1)

inductive ReadErr | unknown | notAvailable | beyondTip | fileRead | fileShort | wrongVersion
deriving Repr, DecidableEq

def getData (r : Repo) (file : Int) : Except ReadErr (List HData) :=
  match List.lookup file.toNat r.store.main with
  | some recs => .ok recs
  | none => if (List.lookup file.toNat r.store.mainV0).isSome then .error .wrongVersion else .error .fileRead

/-- `header(height)` / `Hash(height)`. -/
def headerAt (r : Repo) (height : Int) : Except ReadErr Hdr :=
  if height > (r.br r.longest).height then .error .beyondTip
  else
    match r.at r.longest height with
    | some d => .ok d.hdr
    | none =>
      let file := Int.tdiv height hpf
      match getData r file with
      | .error e => .error e
      | .ok recs =>
        match getI recs (height - file * hpf) with
        | none => .error .fileShort
        | some d => .ok d.hdr

/-- `inLongest` (repaired flag): the header at that height of the most-work chain has this hash. -/
def inLongest (r : Repo) (id : Nat) (h : Int) : Bool :=
  match headerAt r h with
  | .ok hd => hd.id == id
  | .error _ => false

def checkHeader (r : Repo) (id : Nat) : Except ReadErr (Int × Bool) :=
  match r.branchesFind id with
  | some (_, h) => .ok (h, inLongest r id h)
  | none =>
    match r.heights.get? id with
    | some h => .ok (h, inLongest r id h)
    | none => .error .unknown

def getHeader (r : Repo) (id : Nat) : Except ReadErr (Hdr × Int × Bool) :=
  match r.branchesFind id with
  | some (bi, h) =>
    match r.at bi h with
    | none => .error .notAvailable
    | some d => .ok (d.hdr, h, inLongest r id h)
  | none =>
    match r.heights.get? id with
    | some h =>
      match headerAt r h with
      | .error e => .error e
      | .ok hd => if hd.id ≠ id then .error .notAvailable else .ok (hd, h, true)
    | none => .error .unknown

/-- `GetHeaders(start, max)` (max ≥ 1); (repaired) never above the tip. -/
def getHeaders (r : Repo) (start : Int) (max : Nat) : Except ReadErr (List Hdr) :=
  let rec go : Nat → Int → List Hdr → Except ReadErr (List Hdr)
    | 0, _, acc => .ok acc.reverse
    | k + 1, h, acc =>
      if h > (r.br r.longest).height then .ok acc.reverse else
      match r.at r.longest h with
      | some d => go k (h + 1) (d.hdr :: acc)
      | none =>
        let file := Int.tdiv h hpf
        match getData r file with
        | .error e => .error e
        | .ok recs =>
          match getI recs (h - file * hpf) with
          | none => .ok acc.reverse
          | some d => go k (h + 1) (d.hdr :: acc)
  -- `if len(result) == maxCount { break }` is tested after each append: with maxCount = 0 it never fires and the
  -- loop runs to the tip
  go (if max = 0 then ((r.br r.longest).height - start + 1).toNat else max) start []

def tipHeight (r : Repo) : Int := (r.br r.longest).height
def tipId (r : Repo) : Nat := ((r.lastOf r.longest).map (·.hdr.id)).getD 0
def tipWork (r : Repo) : Nat := ((r.lastOf r.longest).map (·.work)).getD 0

end BRV.Repo
