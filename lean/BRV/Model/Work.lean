/-
Compact-bits → target → work, as the dependency `pkg/bitcoin` computes them
(ConvertToDifficulty / ConvertToWork), used by the header repository model for per-header work.
`none` = the Go code panics (index out of range in ConvertToDifficulty).
-/
namespace BRV.Work

/-- big-endian bytes to number (`big.Int.SetBytes`). -/
def beToNat : List Nat → Nat
  | [] => 0
  | b :: rest => b * 256 ^ rest.length + beToNat rest

/-- `bitcoin.ConvertToDifficulty`. `bits` is a uint32. -/
def convertToDifficulty (bits : Nat) : Option Nat :=
  let length0 := (bits / 2 ^ 24) % 256
  -- "Remove leading zero": length-- in uint8 (wraps 0 → 255), bits <<= 8 in uint32
  let noHigh := (bits / 2 ^ 16) % 256 == 0
  let length := if noHigh then (length0 + 255) % 256 else length0
  let bits' := if noHigh then (bits * 256) % 2 ^ 32 else bits
  -- b := make([]byte, length); b[0] if length > 0; b[1] if length >= 1 (panics when length = 1); b[2] if length > 2
  if length = 1 then none
  else
    let b0 := (bits' / 2 ^ 16) % 256
    let b1 := (bits' / 2 ^ 8) % 256
    let b2 := bits' % 256
    if length = 0 then some 0
    else if length = 2 then some (b0 * 256 + b1)
    else some ((b0 * 65536 + b1 * 256 + b2) * 256 ^ (length - 3))

def all256 : Nat := 2 ^ 256 - 1

/-- `bitcoin.ConvertToWork`: (All256Bits XOR d) / (d + 1) + 1. -/
def convertToWork (d : Nat) : Nat := (all256 ^^^ d) / (d + 1) + 1

def blockWork (bits : Nat) : Option Nat := (convertToDifficulty bits).map convertToWork

theorem convertToWork_pos (d : Nat) : 1 ≤ convertToWork d := by
  unfold convertToWork; exact Nat.le_add_left 1 _

theorem blockWork_pos (bits w : Nat) (h : blockWork bits = some w) : 1 ≤ w := by
  unfold blockWork at h
  cases hd : convertToDifficulty bits with
  | none => simp [hd] at h
  | some d => simp [hd] at h; rw [← h]; exact convertToWork_pos d

/-- `!bitsAreValid(bits)` of /repo/headers/proof_of_work.go (repaired code): the bits values
    `ProcessHeader` refuses up front — sign bit set, zero mantissa, a length byte of 0 or above 32,
    or an effective length of one byte (on which `ConvertToDifficulty` panics). -/
def malformedBits (bits : Nat) : Bool :=
  let lengthByte := (bits / 2 ^ 24) % 256
  let effective := if (bits / 2 ^ 16) % 256 == 0 then (lengthByte + 255) % 256 else lengthByte
  (bits / 2 ^ 23) % 2 == 1 || bits % 2 ^ 23 == 0 || lengthByte == 0 || lengthByte > 32 || effective == 1

/-- bits accepted by the guard never make the difficulty conversion panic. -/
theorem convertToDifficulty_some_of_valid (bits : Nat) (h : malformedBits bits = false) :
    (convertToDifficulty bits).isSome = true := by
  unfold malformedBits at h
  unfold convertToDifficulty
  simp only [Bool.or_eq_false_iff, beq_eq_false_iff_ne, ne_eq, decide_eq_false_iff_not] at h
  obtain ⟨⟨⟨⟨_, _⟩, _⟩, _⟩, h5⟩ := h
  by_cases hn : ((bits / 2 ^ 16) % 256 == 0) = true
  · simp only [hn, ↓reduceIte] at h5 ⊢
    simp only [h5, ↓reduceIte]
    split <;> (try split) <;> rfl
  · simp only [hn, Bool.false_eq_true, ↓reduceIte] at h5 ⊢
    simp only [h5, ↓reduceIte]
    split <;> (try split) <;> rfl

/-- the bits values the repaired `ProcessHeader` refuses include every word on which the
    conversion panics. -/
theorem malformed_of_panics (bits : Nat) (h : convertToDifficulty bits = none) : malformedBits bits = true := by
  cases hm : malformedBits bits with
  | true => rfl
  | false =>
    have := convertToDifficulty_some_of_valid bits hm
    rw [h] at this
    cases this

end BRV.Work
