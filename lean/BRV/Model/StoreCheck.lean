/-
An executable test of the hypothesis of the Load soundness theorem (`StoreOK`, Proofs/LoadSound.lean):
used by the driver to evaluate that hypothesis on every storage image a check loads, and by `decide`
on concrete examples.  `storeOKb s = true → StoreOK s` is proved in Proofs/LoadSound.lean.
-/
import BRV.Model.RepoOps

namespace BRV.Repo

def linkedb : List HData → Bool
  | [] => true
  | [_] => true
  | a :: b :: rest => (b.hdr.prev == a.hdr.id) && linkedb (b :: rest)

def fileOKb (bf : BranchFile) : Bool :=
  !bf.headers.isEmpty && linkedb bf.headers && decide (-1 ≤ bf.parentHeight) && decide (1 ≤ bf.offset) &&
  (bf.offset != 1 || (match bf.headers.head? with | some d => d.hdr == bf.first | none => true)) &&
  (bf.parentHeight == -1 || bf.offset == 1)

/-- main-chain files exist up to the height the branch file reaches. -/
def mainCoverb (s : Store) (bf : BranchFile) : Bool :=
  (List.range ((bf.parentHeight + bf.offset + bf.headers.length).toNat / Facts.headersPerFile + 1)).all
    fun g => (List.lookup g s.main).isSome

def storeOKb (s : Store) : Bool :=
  match s.index with
  | some (k0 :: rest) =>
    (match List.lookup k0 s.branches with
     | some bf0 => bf0.parentHeight == -1
     | none => false) &&
    (k0 :: rest).all fun k =>
      match List.lookup k s.branches with
      | some bf => fileOKb bf && mainCoverb s bf
      | none => false
  | _ => false

def idsOf (hs : List HData) : List Nat := hs.map (·.hdr.id)

/-- the hashes of all records of the indexed branch files, file by file. -/
def storeIds (st : Store) (idx : List Nat) : List Nat :=
  (idx.map fun k => idsOf ((List.lookup k st.branches).getD default).headers).flatten

def nodupb : List Nat → Bool
  | [] => true
  | a :: t => !t.contains a && nodupb t

/-- executable test of `StoreUniq` (Proofs/LoadIds.lean): no hash occurs twice in the indexed branch files. -/
def storeUniqB (s : Store) : Bool :=
  match s.index with
  | some idx => nodupb (storeIds s idx)
  | none => false

end BRV.Repo
