/-
Executable model of `BlockDownloader.HandleBlock` / `handleBlock` (/repo/block_downloader.go),
statement by statement, as a function from what the environment does to the list of external
calls made (TxProcessor / BlockTxManager) and the outcome.

Environment = inputs:
* the header that arrives (`Header`: its merkle-root field and everything else, `nonce`); the block
  hash is an ideal hash of the header, so "header hashes to the requested block" is `header = requested`;
* the announced transaction count and the list of txids that come out of the channel before it is closed;
* a scripted processor: the result of the k-th `ProcessTx` call (relevant / not relevant / error),
  whether `ProcessCoinbaseTx` fails, which `ConfirmTx` call fails, whether `AppendBlockTxIDs` fails;
* scripted cancellation: `Cancel` before `HandleBlock`, during the k-th `ProcessTx`, or after the
  last transaction was handled but before the channel is closed.

Signalling on `Started`/`Complete` is property C16's subject; here only the value put on `Complete`
is kept (`complete`), because it differs from the returned error for a wrong block.
-/
import BRV.Model.Merkle
import BRV.Gen.Facts

namespace BRV.Merkle

structure Header where
  root : Option H      -- MerkleRoot field (none = all-zero)
  nonce : Nat          -- stands for all other header fields
deriving DecidableEq, Repr, Inhabited

inductive ProcRes
  | relevant
  | notRelevant
  | error
deriving DecidableEq, Repr, Inhabited

structure Env where
  requested : Header                 -- bd.hash (the hash the downloader was created for)
  height : Int                       -- bd.height
  proc : Nat → ProcRes               -- result of the k-th ProcessTx call (k from 0)
  preCancelled : Bool := false       -- Cancel/Stop before HandleBlock
  cancelDuring : Option Nat := none  -- Cancel while the k-th ProcessTx runs
  cancelAfterLast : Bool := false    -- Cancel after the last received tx was handled, before the channel closes
  coinbaseErr : Bool := false        -- ProcessCoinbaseTx returns an error
  confirmErr : Option Nat := none    -- the k-th ConfirmTx call returns an error
  storeErr : Bool := false           -- AppendBlockTxIDs returns an error

inductive Call
  | processTx (txid : H)
  | processCoinbase (blockHash : Header) (tx : Option H)                 -- tx none = nil *wire.MsgTx
  | confirm (txid : H) (height : Int) (proof : Proof) (header blockHash : Header)  -- proof.BlockHeader / BlockHash
  | appendTxIDs (blockHash : Header) (txids : List H)
deriving DecidableEq, Repr

inductive Result
  | ok                -- nil
  | cancelled         -- errBlockDownloadCancelled (also returned for a wrong tx count)
  | wrongBlock        -- ErrWrongBlock (only ever put on Complete)
  | wrongRoot         -- merkle_proof.ErrWrongMerkleRoot
  | proofCount        -- "Wrong merkle proof count"
  | proofInvalid      -- "merkle proof: ..." (a proof of a relevant tx does not Verify against the header)
  | processErr        -- "process tx: ..."
  | coinbaseErr       -- "process coinbase tx: ..."
  | confirmErr        -- "confirm tx: ..."
  | storeErr          -- "save block txids: ..."
  | panic             -- the process would abort (slice index out of range in the merkle tree)
deriving DecidableEq, Repr

structure Out where
  calls : List Call
  ret : Result          -- what HandleBlock returns to the node
  complete : Result     -- what HandleBlock puts on bd.Complete
deriving Repr

/-- state of the `for tx := range txChannel` loop. -/
structure LoopState where
  tree : Tree := newTree (Facts.merkleTreePrune != 0)   -- merkle_proof.NewMerkleTree(true); argument extracted from the source
  blockTxIDs : List H := []
  coinbase : Option H := none
  i : Nat := 0
  cancelled : Bool := false          -- bd.isCancelled
  calls : List Call := []

/-- the receive loop. `inr` = the function returned from inside the loop (the rest of the channel
    is flushed, which makes no calls). -/
def txLoop (env : Env) : List H → LoopState → LoopState ⊕ (List Call × Result)
  | [], st => .inl st
  | txid :: rest, st =>
    let coinbase := if st.i = 0 then some txid else st.coinbase
    -- isRelevant, err := bd.txProcessor.ProcessTx(ctx, tx); the environment may call Cancel meanwhile
    let calls := st.calls ++ [Call.processTx txid]
    let cancelled := st.cancelled || (env.cancelDuring == some st.i)
    match env.proc st.i with
    | .error => .inr (calls, .processErr)
    | r =>
      let (ids, tree1) :=
        if r = .relevant then (st.blockTxIDs ++ [txid], st.tree.addMerkleProof txid)
        else (st.blockTxIDs, st.tree)
      match tree1.addHash txid with
      | none => .inr (calls, .panic)
      | some tree2 =>
        if cancelled then .inr (calls, .cancelled)
        else txLoop env rest
          { tree := tree2, blockTxIDs := ids, coinbase := coinbase, i := st.i + 1,
            cancelled := cancelled, calls := calls }

/-- the `for i, txid := range blockTxIDs` loop of ConfirmTx calls, `k` = number of calls made so far. -/
def confirmLoop (env : Env) (header : Header) : List H → List Proof → Nat → List Call → List Call × Bool
  | txid :: ids, p :: ps, k, calls =>
    let calls := calls ++ [Call.confirm txid env.height p header env.requested]
    if env.confirmErr = some k then (calls, false)
    else confirmLoop env header ids ps (k + 1) calls
  | _, _, _, calls => (calls, true)

/-- `handleBlock`. -/
def handleBlockInner (env : Env) (header : Header) (txCount : Nat) (recv : List H) : List Call × Result :=
  match txLoop env recv {} with
  | .inr r => r
  | .inl st =>
    if st.i ≠ txCount then (st.calls, .cancelled)
    else
      match st.tree.finalize with
      | none => (st.calls, .panic)
      | some (root, proofs) =>
        if root ≠ header.root then (st.calls, .wrongRoot)
        else if proofs.length ≠ st.blockTxIDs.length then (st.calls, .proofCount)
        -- for i := range blockTxIDs { merkleProofs[i].BlockHeader = header; ...; merkleProofs[i].Verify() }
        -- (the two lengths are equal here, so the loop visits every proof)
        else if proofs.any (fun p => p.verify header.root != .ok) then (st.calls, .proofInvalid)
        else if st.cancelled || env.cancelAfterLast then (st.calls, .cancelled)
        else
          let calls := st.calls ++ [Call.processCoinbase env.requested st.coinbase]
          if env.coinbaseErr then (calls, .coinbaseErr)
          else
            let (calls, okc) := confirmLoop env header st.blockTxIDs proofs 0 calls
            if ¬ okc then (calls, .confirmErr)
            else
              let calls := calls ++ [Call.appendTxIDs env.requested st.blockTxIDs]
              if env.storeErr then (calls, .storeErr) else (calls, .ok)

/-- `HandleBlock`. -/
def handleBlock (env : Env) (header : Header) (txCount : Nat) (recv : List H) : Out :=
  if env.preCancelled then { calls := [], ret := .cancelled, complete := .cancelled }
  else if env.requested ≠ header then { calls := [], ret := .ok, complete := .wrongBlock }
  else
    let (calls, r) := handleBlockInner env header txCount recv
    { calls := calls, ret := r, complete := r }

end BRV.Merkle
