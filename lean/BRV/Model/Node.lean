/-
Message-level model of one peer connection of /repo (`BitcoinNode`): the handler table, the
handshake goroutine, `accept`, the handshake channel, and `NodeManager.nextNode`.

What is modelled, statement by statement (bitcoin_node.go, handlers.go):
* `NewBitcoinNode` installs the pre-accept handler table. The table is NOT written here: it is
  `Facts.preAcceptHandlers`, extracted from the source on every run; `accept()` adds
  `Facts.acceptHandlers` (with their guarding conditions). Handler *names* are interpreted by
  `Handler.ofName`; an unknown name or condition breaks `C13_tables_interpreted`.
* `handshake` goroutine: consumes `handshakeChannel` FIFO; returns after the message that makes
  `versionReceived ∧ verAckReceived`; after it returned NOBODY drains the channel (capacity
  `Facts.handshakeCap`). `handleVersion/handleVerack` send with `select { case ch <- msg: default: }`
  (repository fix 62ac204; before it the (cap+1)-th later version/verack blocked the read loop for
  ever): a message that finds the channel full is dropped.
  While the goroutine lives it is modelled as consuming eagerly: it does nothing else than wait on
  the channel, and the number of items left behind when it returns (those pushed after the
  completing message) does not depend on timing.
* `accept`: table switch, `ready`, `verified`, verify-only `Stop`, the four sends.
* the 3 s handshake time-out and the 10 min ping period are clock inputs that the model does not
  take (scripts are run well inside them); `pingNonce` is an input (`State.pingNonce`).

Byte parsing (what each handler consumes) lives in Model/Wire.lean, which calls the actions here.
-/
import BRV.Model.Bytes
import BRV.Gen.Facts

namespace BRV.Node

inductive Handler
  | version | verack | headersVerify | headersTrack | protoconf | ping | pong | reject | extended
  | address | getAddresses | inventory | tx | block
deriving DecidableEq, Repr, Inhabited

/-- the handler functions of handlers.go the model knows how to interpret. -/
def Handler.ofName : String → Option Handler
  | "handleVersion" => some .version
  | "handleVerack" => some .verack
  | "handleHeadersVerify" => some .headersVerify
  | "handleHeadersTrack" => some .headersTrack
  | "handleProtoconf" => some .protoconf
  | "handlePing" => some .ping
  | "handlePong" => some .pong
  | "handleReject" => some .reject
  | "handleExtended" => some .extended
  | "handleAddress" => some .address
  | "handleGetAddresses" => some .getAddresses
  | "handleInventory" => some .inventory
  | "handleTx" => some .tx
  | "handleBlock" => some .block
  | _ => none

/-- `wire.Cmd*` constants (dependency tokenized/pkg, pinned by go.sum) → command strings. -/
def cmdString : String → Option String
  | "CmdVersion" => some "version"
  | "CmdVerAck" => some "verack"
  | "CmdGetAddr" => some "getaddr"
  | "CmdAddr" => some "addr"
  | "CmdGetBlocks" => some "getblocks"
  | "CmdInv" => some "inv"
  | "CmdGetData" => some "getdata"
  | "CmdNotFound" => some "notfound"
  | "CmdBlock" => some "block"
  | "CmdTx" => some "tx"
  | "CmdGetHeaders" => some "getheaders"
  | "CmdHeaders" => some "headers"
  | "CmdPing" => some "ping"
  | "CmdPong" => some "pong"
  | "CmdReject" => some "reject"
  | "CmdSendHeaders" => some "sendheaders"
  | "CmdFeeFilter" => some "feefilter"
  | "CmdProtoconf" => some "protoconf"
  | "CmdExtended" => some "extmsg"
  | _ => none

/-- guarding conditions that occur around handler assignments. -/
def condHolds (cond : String) (hasTx : Bool) : Option Bool :=
  if cond = "" then some true
  else if cond = "n.txManager != nil" then some hasTx
  else none

/-- `n.handlers`: command string → handler (a Go map; assignment replaces). -/
abbrev Table := List (String × Handler)

def Table.get (t : Table) (c : String) : Option Handler := t.lookup c
def Table.set (t : Table) (c : String) (h : Handler) : Table := (c, h) :: t.filter (fun e => e.1 != c)
def Table.del (t : Table) (c : String) : Table := t.filter (fun e => e.1 != c)

/-- execute a block of `n.handlers[wire.CmdX] = n.handleY` assignments extracted from the source. -/
def install (es : List (String × String × String)) (hasTx : Bool) (t : Table) : Table :=
  es.foldl (fun t e =>
    match cmdString e.1, Handler.ofName e.2.1, condHolds e.2.2 hasTx with
    | some c, some h, some true => t.set c h
    | _, _, _ => t) t

/-- every entry of an extracted table is understood by the model. -/
def interpreted (es : List (String × String × String)) : Bool :=
  es.all fun e => (cmdString e.1).isSome && (Handler.ofName e.2.1).isSome && (condHolds e.2.2 true).isSome

/-- the table `NewBitcoinNode` builds. -/
def preTable : Table := install Facts.preAcceptHandlers false []

/-- handlers that touch the header repository, the tx manager or the peer address book, or that
    answer requests with their contents. -/
def Handler.touchesRepos : Handler → Bool
  | .headersTrack | .address | .getAddresses | .inventory | .tx | .block => true
  | _ => false

inductive Effect
  | verifyHeader (nonce : Nat)          -- HeaderRepository.VerifyHeader (read-only)
  | processHeader (nonce : Nat)         -- HeaderRepository.ProcessHeader
  | altHeaders (nonces : List Nat)      -- alternate header handler (SetHeaderHandler) fed these headers
  | addTxID (h : Bytes)                 -- TxManager.AddTxID
  | addTx (h : Bytes)                   -- TxManager.AddTx
  | peersAdd (port : Nat)               -- PeerRepository.Add
  | peersGet                            -- PeerRepository.Get (answering with the address book)
  | updateScore                         -- PeerRepository.UpdateScore
  | send (cmd : String) (arg : Nat)     -- message queued for the peer (arg: pong nonce / item count)
  | accepted                            -- the instant `accept` stores ready and verified
  | stop                                -- n.Stop: connection closed locally
deriving DecidableEq, Repr

/-- effects an unverified peer must not be able to cause. An alternate-handler invocation that was
    fed no complete header reaches nothing. -/
def Effect.touches : Effect → Bool
  | .processHeader _ => true
  | .altHeaders l => !l.isEmpty
  | .addTxID _ => true
  | .addTx _ => true
  | .peersAdd _ => true
  | .peersGet => true
  | .updateScore => true
  | _ => false

/-- what the TxManager holds about one txid, as far as one connection can see it: when it was last
    requested (clock reading, ms), whether the tx has arrived, and whether this node is in the
    `NodeIDs` list (it announced the tx while another request was outstanding). -/
structure TxEntry where
  id : Bytes
  requested : Nat
  received : Bool
  queued : Bool
deriving DecidableEq, Repr

/-- what the block handler passed to `RequestBlock` (the downloader's HandleBlock) has seen. -/
structure BlockRec where
  called : Bool := false        -- the handler function was started
  count : Nat := 0              -- transaction count it was given
  got : Nat := 0                -- transactions handed over on the channel so far
  done : Option Bool := none    -- it returned: `some true` = nil (all transactions), `some false` = error
deriving DecidableEq, Repr

structure State where
  table : Table := preTable
  -- handshake goroutine locals and life
  versionReceived : Bool := false
  verAckSent : Bool := false
  verAckReceived : Bool := false
  hsReturned : Bool := false        -- the handshake goroutine has returned
  hsChan : Nat := 0                 -- items sitting in handshakeChannel
  -- atomic flags
  hsComplete : Bool := false        -- handshakeIsComplete
  ready : Bool := false
  verified : Bool := false
  stopped : Bool := false           -- Stop was called (connection closed locally)
  -- configuration
  verifyOnly : Bool := false
  hasTx : Bool := false             -- SetTxManager was called
  hasHH : Bool := false             -- SetHeaderHandler was called
  -- handler-visible data
  protoconfCount : Nat := 0
  blockReq : Option Bytes := none   -- n.blockRequest (hash); n.requestTime != nil exactly when this is set
  blockHandler : Bool := false      -- n.blockHandler != nil
  blockReader : Bool := false       -- n.blockReader != nil: handleBlock is streaming the requested block
  blockStarted : Bool := false      -- n.blockStarted: the block handler has been started for this request
  onStopArmed : Bool := false       -- n.blockOnStop != nil
  onStopCalls : Nat := 0            -- how often run() invoked the request's onStop
  bh : BlockRec := {}               -- what the handler of the latest request saw
  pingNonce : Nat := 0
  txs : List TxEntry := []          -- TxManager contents
  txTimeout : Nat := 3600000        -- TxManager request timeout (ms)
  now : Nat := 0                    -- clock reading (ms) for the message being handled: an input
deriving Repr

/-- `sendVerifyInitiation`. -/
def verifyInitiation (s : State) : State × List Effect :=
  ({ s with hsComplete := true, hsReturned := true },
   [.send "protoconf" 0, .send "getheaders" 0])

/-- one iteration of the `handshake` goroutine on a received message (`true` = version). -/
def hsConsume (s : State) (isVersion : Bool) : State × List Effect :=
  if isVersion then
    let s1 := { s with versionReceived := true }
    let (s2, fx1) : State × List Effect :=
      if !s1.verAckSent then ({ s1 with verAckSent := true }, [.send "verack" 0]) else (s1, [])
    if s2.verAckReceived then
      let (s3, fx2) := verifyInitiation s2
      (s3, fx1 ++ fx2)
    else (s2, fx1)
  else
    let s1 := { s with verAckReceived := true }
    if s1.versionReceived then verifyInitiation s1 else (s1, [])

/-- `select { case n.handshakeChannel <- msg: default: }` in handleVersion / handleVerack: after the
    only receiver has returned the message is queued while there is room and dropped otherwise. -/
def hsPush (s : State) (isVersion : Bool) : State × List Effect :=
  if s.hsReturned then
    if s.hsChan < Facts.handshakeCap then ({ s with hsChan := s.hsChan + 1 }, []) else (s, [])
  else hsConsume s isVersion

/-- `accept`. The `Bool` is "Stop was called" (verify-only). -/
def accept (s : State) : State × List Effect × Bool :=
  let s1 := { s with table := install Facts.acceptHandlers s.hasTx s.table, ready := true, verified := true }
  if s1.verifyOnly then ({ s1 with stopped := true }, [.accepted, .stop], true)
  else (s1, [.accepted, .send "sendheaders" 0, .send "getaddr" 0, .send "getheaders" 0, .peersGet, .send "addr" 0], false)

/-- `TxManager.AddTxID` for an announced txid: new → request; received → no; requested less than
    the timeout ago → remember this node, no; request timed out → request again. -/
def txAnnounce (s : State) (h : Bytes) : State × Bool :=
  match s.txs.find? (fun t => t.id == h) with
  | none => ({ s with txs := { id := h, requested := s.now, received := false, queued := false } :: s.txs }, true)
  | some t =>
    if t.received then (s, false)
    else if s.now - t.requested < s.txTimeout then
      ({ s with txs := s.txs.map fun x => if x.id == h then { x with queued := true } else x }, false)
    else
      ({ s with txs := s.txs.map fun x => if x.id == h then { x with requested := s.now, queued := false } else x }, true)

/-- `TxManager.AddTx`. -/
def txDeliver (s : State) (h : Bytes) : State :=
  match s.txs.find? (fun t => t.id == h) with
  | none => { s with txs := { id := h, requested := s.now, received := true, queued := false } :: s.txs }
  | some _ => { s with txs := s.txs.map fun x => if x.id == h then { x with received := true } else x }

/-- `TxManager.GetTxRequests` for this node followed by `BitcoinNode.RequestTxs` (what
    `NodeManager.RequestTxs` does every 5 s): every tx not received, announced by this node while
    another request was outstanding, whose request timed out, is requested again. -/
def txPoll (s : State) : State × Nat :=
  let due := fun (x : TxEntry) => !x.received && x.queued && decide (s.txTimeout ≤ s.now - x.requested)
  ({ s with txs := s.txs.map fun x => if due x then { x with requested := s.now, queued := false } else x },
   (s.txs.filter due).length)

/-- `IsBusy`: `requestTime` is set by `RequestBlock` and cleared by `completeBlock` only. -/
def State.busy (s : State) : Bool := s.blockReq.isSome

/-- `RequestBlock` on an idle node (called by the block manager on a node that `nextNode`
    returned): handler table, request, handler, `onStop` armed after the getdata was queued. -/
def requestBlock (s : State) (hash : Bytes) : State × List Effect :=
  ({ s with blockReq := some hash, blockHandler := true, blockReader := false, blockStarted := false, onStopArmed := true,
            bh := {}, table := s.table.set "block" .block },
   [.send "getdata" 1])

/-- `RequestBlock` as the API behaves: `ErrBusy` (nothing changes) while a request is outstanding. -/
def requestBlock? (s : State) (hash : Bytes) : Option (State × List Effect) :=
  if s.busy then none else some (requestBlock s hash)

/-- `completeBlock`. -/
def completeBlock (s : State) (hash : Bytes) : State :=
  if s.blockReq = some hash then
    { s with blockReq := none, blockHandler := false, blockReader := false, blockStarted := false,
             onStopArmed := false, table := s.table.del "block" }
  else s

/-- the end of `run()`: `blockOnStop` is called if it is still set. -/
def runEnd (s : State) : State × Bool :=
  if s.onStopArmed then ({ s with onStopArmed := false, onStopCalls := s.onStopCalls + 1, ready := false }, true)
  else ({ s with ready := false }, false)

/-- the handler of a stream that is cut short returns an error. -/
def failedRec (r : BlockRec) : BlockRec :=
  if r.called && r.done.isNone then { r with done := some false } else r

/-- the state a streaming `handleBlock` leaves when its read fails. Once the handler was started the
    transaction channel is closed (the handler returns an error) and the request is completed;
    before that (header matched, count not read: fix 6b52a4a) the request is left outstanding so
    that `run()` reports it through `onStop`. -/
def streamFailed (s : State) : State :=
  if s.blockReader && s.blockStarted then
    match s.blockReq with
    | some h => { completeBlock s h with bh := failedRec s.bh }
    | none => { s with bh := failedRec s.bh }
  else s

/-- the connection ends (peer dropped it, or the node stopped). A `handleBlock` that is streaming
    fails at its read: it closes the transaction channel (the handler, if it was started, returns
    an error), `completeBlock` clears the request — so `onStop` is NOT invoked for a block whose
    message had begun — and then `run()` ends. -/
def connectionEnd (s : State) : State × Bool := runEnd (streamFailed s)

/-- `CancelBlockRequest`.
    * no request / another hash: nothing, `false`;
    * the block message has not begun (`blockReader` nil): `onStop` and the handler are dropped,
      `false`; the request itself (`blockRequest`, `requestTime`, the table entry) stays until the
      block message is handled: a cancelled node remains busy;
    * the block message has begun: the CONNECTION is closed first (`closeConnection`, fix 7843a17:
      the reader's mutex is held by the pending read of a stalled peer), the reader is closed,
      `onStop` and the handler are dropped and the answer is `blockStarted` (fix 3cf55e1: `true`
      only when the handler thread was started). The streaming `handleBlock` fails at its read;
      if the handler was started it gets the end of its stream and the request is completed, if
      not the request is left as it is (fix 6b52a4a) with `onStop` already dropped; `run()` ends. -/
def cancelBlock (s : State) (hash : Bytes) : State × Bool :=
  match s.blockReq with
  | none => (s, false)
  | some want =>
    if want ≠ hash then (s, false)
    else if s.blockReader then
      if s.blockStarted then
        ((connectionEnd { s with onStopArmed := false, blockHandler := false, stopped := true }).1, true)
      else
        ((runEnd { s with onStopArmed := false, blockHandler := false, blockReader := false, stopped := true }).1, false)
    else ({ s with onStopArmed := false, blockHandler := false }, false)

/-! `NodeManager.nextNode` and the request loops are modelled in Model/Mgr.lean (namespace `BRV.Mgr`). -/

end BRV.Node
