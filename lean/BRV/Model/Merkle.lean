/-
Executable model of the dependency package `merkle_proof` (github.com/tokenized/pkg), the parts
`BlockDownloader.handleBlock` uses: the STREAMING `MerkleTree` (merkle_tree.go) and
`MerkleProof.CalculateRoot` / `Verify` (merkle_proof.go), statement by statement.

Representation choices (no behaviour hidden):
* a hash is a term of the ideal hash algebra `H` (Spec/Merkle.lean); double-SHA-256 of `l ‖ r` is
  `H.node l r`; the all-zero `bitcoin.Hash32{}` is `none` of `Option H`;
* `merkleNodeLayer.hashes` is kept NEWEST FIRST (`lastHash` = head, `nextLastHash` = second);
  an out-of-range slice index is the explicit outcome `none` (= the Go panic) of `Option`;
* `MerkleProof.Index` is `Option Nat`, `none` standing for the initial `-1` (Go's truncated `%`
  and `/` on −1 give "not left" and then index 0, which `calcLoop` reproduces);
* `t.merkleProofs` is a slice of pointers mutated in place; here the list of proofs is threaded.
-/
import BRV.Spec.Merkle

namespace BRV.Merkle

/-! ### MerkleProof -/

structure Proof where
  index : Option Nat        -- `Index int`, none = -1
  txid : H                  -- `TxID` (never nil for proofs made by NewMerkleProof)
  path : List H             -- `Path`
  dups : List Nat           -- `DuplicatedIndexes`
  root : H                  -- `root` (calculation state)
  depth : Nat               -- `depth` (calculation state)
deriving DecidableEq, Repr, Inhabited

/-- `NewMerkleProof`. -/
def newProof (txid : H) : Proof :=
  { index := none, txid := txid, path := [], dups := [], root := txid, depth := 1 }

/-- `MerkleProof.AddHash`. -/
def Proof.addHash (p : Proof) (hash newRoot : H) : Proof :=
  { p with path := p.path ++ [hash], depth := p.depth + 1, root := newRoot }

/-- `MerkleProof.AddDuplicate`. -/
def Proof.addDuplicate (p : Proof) (newRoot : H) : Proof :=
  { p with dups := p.dups ++ [p.depth], depth := p.depth + 1, root := newRoot }

/-- the loop of `CalculateRoot`. `none` = `ErrBadIndex` ("Right hash can't be duplicate").
    Every iteration consumes one element of `path` or of `dups`; `fuel` (structural recursion, so
    that the model can be evaluated inside proofs) is one more than their total length, so the
    `0` case is never reached (`calcGo_fuel` in Proofs/MerkleProofs.lean). -/
def calcGo : Nat → Option Nat → Nat → H → List H → List Nat → Option H
  | 0, _, _, hash, _, _ => some hash
  | fuel + 1, index, layer, hash, path, dups =>
    let isLeft : Bool := match index with | some i => i % 2 == 0 | none => false
    let next : Option Nat := match index with | some i => some (i / 2) | none => some 0
    match dups with
    | d :: drest =>
      if layer = d then
        -- otherHash = hash
        if isLeft = false then none else calcGo fuel next (layer + 1) (H.node hash hash) path drest
      else
        match path with
        | [] => some hash
        | o :: prest =>
          if isLeft = false ∧ o = hash then none
          else calcGo fuel next (layer + 1) (if isLeft then H.node hash o else H.node o hash) prest (d :: drest)
    | [] =>
      match path with
      | [] => some hash
      | o :: prest =>
        if isLeft = false ∧ o = hash then none
        else calcGo fuel next (layer + 1) (if isLeft then H.node hash o else H.node o hash) prest []

def calcLoop (index : Option Nat) (layer : Nat) (hash : H) (path : List H) (dups : List Nat) : Option H :=
  calcGo (path.length + dups.length + 1) index layer hash path dups

/-- `CalculateRoot` (`TxID` is never nil here). -/
def Proof.calculateRoot (p : Proof) : Option H := calcLoop p.index 1 p.txid p.path p.dups

/-- the sequence of `otherHash` decisions `CalculateRoot` makes for (`Path`, `DuplicatedIndexes`):
    `some o` = next path element, `none` = "paired with itself" (same control flow as `calcGo`). -/
def stepsGo : Nat → Nat → List H → List Nat → List (Option H)
  | 0, _, _, _ => []
  | fuel + 1, layer, path, dups =>
    match dups with
    | d :: drest =>
      if layer = d then none :: stepsGo fuel (layer + 1) path drest
      else
        match path with
        | [] => []
        | o :: prest => some o :: stepsGo fuel (layer + 1) prest (d :: drest)
    | [] =>
      match path with
      | [] => []
      | o :: prest => some o :: stepsGo fuel (layer + 1) prest []

/-- the sibling hashes a proof denotes, bottom-up (a duplicate marker stands for the running hash). -/
def expandSteps : Nat → H → List (Option H) → List H
  | _, _, [] => []
  | i, h, none :: rest => h :: expandSteps (i / 2) (H.node h h) rest
  | i, h, some o :: rest => o :: expandSteps (i / 2) (if i % 2 = 0 then H.node h o else H.node o h) rest

def Proof.siblings (p : Proof) : List H :=
  match p.index with
  | none => []
  | some i => expandSteps i p.txid (stepsGo (p.path.length + p.dups.length + 1) 1 p.path p.dups)

inductive VerifyResult
  | ok
  | badIndex        -- "calculate root: Bad Merkle Proof Index"
  | wrongRoot       -- "block header: Wrong merkle root"
deriving DecidableEq, Repr

/-- `Verify` of a proof whose `BlockHeader` is set and `MerkleRoot` is nil (what handleBlock emits);
    `headerRoot` is the header's merkle root field (`none` = all-zero). -/
def Proof.verify (p : Proof) (headerRoot : Option H) : VerifyResult :=
  match p.calculateRoot with
  | none => .badIndex
  | some r => if headerRoot = some r then .ok else .wrongRoot

/-! ### merkleNodeLayer -/

structure Layer where
  hashes : List H     -- newest first
  count : Nat
deriving DecidableEq, Repr, Inhabited

def newLayer (h : H) : Layer := { hashes := [h], count := 1 }
def Layer.addHash (l : Layer) (h : H) : Layer := { hashes := h :: l.hashes, count := l.count + 1 }
def Layer.clear (l : Layer) : Layer := { l with hashes := [] }
/-- `hashes[len-1]`; `none` = index out of range. -/
def Layer.lastHash (l : Layer) : Option H := l.hashes.head?
/-- `hashes[len-2]`; `none` = index out of range. -/
def Layer.nextLastHash (l : Layer) : Option H := l.hashes.tail.head?

/-! ### MerkleTree -/

structure Tree where
  layers : List Layer := []    -- index 0 = leaf level
  prune : Bool := true
  count : Nat := 0
  proofs : List Proof := []    -- `merkleProofs`
deriving Repr, Inhabited

/-- `NewMerkleTree`. -/
def newTree (prune : Bool) : Tree := { prune := prune }

/-- `AddMerkleProof`. -/
def Tree.addMerkleProof (t : Tree) (txid : H) : Tree := { t with proofs := t.proofs ++ [newProof txid] }

/-- the body of `processProofsLayer` for one proof. -/
def stepProof (l r newHash : H) (isDup : Bool) (mp : Proof) : Proof :=
  if mp.index = none then mp                       -- txid not found yet
  else if isDup then (if mp.root = l then mp.addDuplicate newHash else mp)
  else if mp.root = l then mp.addHash r newHash
  else if mp.root = r then mp.addHash l newHash
  else mp

/-- `processProofsLayer`: the new hash and the updated proofs. -/
def processProofsLayer (l r : H) (isDup : Bool) (ps : List Proof) : H × List Proof :=
  (H.node l r, ps.map (stepProof l r (H.node l r) isDup))

/-- first loop of `AddHash`: the first proof without index whose txid is `hash` gets index `count`. -/
def assignIndex : List Proof → H → Nat → List Proof
  | [], _, _ => []
  | mp :: rest, hash, count =>
    if mp.index = none ∧ mp.txid = hash then { mp with index := some count } :: rest
    else mp :: assignIndex rest hash count

/-- second loop of `AddHash` (`for _, layer := range t.layers`), `next` being carried upward;
    falling off the end appends a new layer. `none` = panic in `nextLastHash`. -/
def addLoop (prune : Bool) : List Layer → H → List Proof → Option (List Layer × List Proof)
  | [], next, ps => some ([newLayer next], ps)
  | L :: rest, next, ps =>
    let L1 := L.addHash next
    if L1.count % 2 ≠ 0 then some (L1 :: rest, ps)     -- above layers do not need to be updated
    else
      match L1.nextLastHash with
      | none => none
      | some nl =>
        let (nh, ps1) := processProofsLayer nl next false ps
        let L2 := if prune then L1.clear else L1
        match addLoop prune rest nh ps1 with
        | none => none
        | some (rest', ps2) => some (L2 :: rest', ps2)

/-- `AddHash`. -/
def Tree.addHash (t : Tree) (hash : H) : Option Tree :=
  let ps := assignIndex t.proofs hash t.count
  match t.layers with
  | [] => some { t with layers := [newLayer hash], count := 1, proofs := ps }
  | _ :: _ =>
    match addLoop t.prune t.layers hash ps with
    | none => none
    | some (ls, ps') => some { t with layers := ls, count := t.count + 1, proofs := ps' }

/-- the loop of `FinalizeMerkleProofs` (`for d, layer := range t.layers`) with the running `next`.
    Result: (root, proofs); root `none` = zero hash; outer `none` = panic in `lastHash`. -/
def finLoop : List Layer → Option H → List Proof → Option (Option H × List Proof)
  | [], next, ps =>
    match next with
    | none => some (none, [])          -- zero hash, nil
    | some v => some (some v, ps)
  | L :: rest, next, ps =>
    let l := L.count
    match next with
    | some v =>
      if l % 2 = 0 then
        let (nh, ps1) := processProofsLayer v v true ps
        finLoop rest (some nh) ps1
      else
        match L.lastHash with
        | none => none
        | some lh =>
          let (nh, ps1) := processProofsLayer lh v false ps
          finLoop rest (some nh) ps1
    | none =>
      if l % 2 ≠ 0 then
        match L.lastHash with
        | none => none
        | some lh =>
          if l = 1 ∧ rest = [] then some (some lh, ps)     -- last layer: this is the root
          else
            let (nh, ps1) := processProofsLayer lh lh true ps
            finLoop rest (some nh) ps1
      else finLoop rest none ps

/-- `FinalizeMerkleProofs`. -/
def Tree.finalize (t : Tree) : Option (Option H × List Proof) :=
  if t.count = 0 then some (none, [])
  else if t.count = 1 then
    match t.layers with
    | [] => none
    | L :: _ => match L.lastHash with | none => none | some h => some (some h, t.proofs)
  else finLoop t.layers none t.proofs

end BRV.Merkle
