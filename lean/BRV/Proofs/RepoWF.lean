/-
Well-formedness of the branch forest (links only): parents have smaller arena indices, every
branch is internally linked, its first header links to the parent's header at the parent height.
Consequence: the headers `AtHeight` returns along any branch's ancestry form a linked chain.
Preserved by `ProcessHeader` (both paths); consolidation/pruning are not covered here.
-/
import BRV.Proofs.RepoBasics

namespace BRV.Repo

/-- parents have strictly smaller arena indices (branches are only ever appended). -/
def ParentsDecrease (ar : Arena) : Prop :=
  ∀ (bi : Nat) (b : Branch), ar[bi]? = some b → ∀ p, b.parent = some p → p < bi

/-- canonical fuel for branch `bi`. -/
def atH (ar : Arena) (bi : Nat) (h : Int) : Option HData := atHeight ar (bi + 1) bi h

theorem atHeight_fuel (ar : Arena) (hp : ParentsDecrease ar) (bi : Nat) (f : Nat) (hf : bi + 1 ≤ f) (h : Int) :
    atHeight ar f bi h = atH ar bi h := by
  induction bi using Nat.strongRecOn generalizing f h with
  | _ bi ih =>
    unfold atH
    obtain ⟨f', rfl⟩ : ∃ f', f = f' + 1 := ⟨f - 1, by omega⟩
    simp only [atHeight]
    cases hb : ar[bi]? with
    | none => rfl
    | some b =>
      simp only
      split
      · rfl
      · cases hpar : b.parent with
        | none => rfl
        | some p =>
          simp only
          have hlt := hp bi b hb p hpar
          rw [ih p hlt f' (by omega) h, ih p hlt bi (by omega) h]

theorem Repo.at_eq_atH (r : Repo) (hp : ParentsDecrease r.arena) (bi : Nat) (hbi : bi < r.arena.length) (h : Int) :
    r.at bi h = atH r.arena bi h := by
  unfold Repo.at Repo.fuel
  exact atHeight_fuel _ hp bi _ (by omega) h

/-- one unfolding of the canonical lookup. -/
theorem atH_unfold (ar : Arena) (hp : ParentsDecrease ar) (bi : Nat) (b : Branch) (hb : ar[bi]? = some b) (h : Int) :
    atH ar bi h =
      if h > b.parentHeight then getI b.headers (h - b.parentHeight - b.offset)
      else match b.parent with
        | none => none
        | some p => atH ar p h := by
  unfold atH
  simp only [atHeight, hb]
  split
  · rfl
  · cases hpar : b.parent with
    | none => rfl
    | some p =>
      simp only
      exact atHeight_fuel ar hp p bi (by have := hp bi b hb p hpar; omega) h

/-- appending a branch does not change lookups through the old branches. -/
theorem atH_append (ar : Arena) (hp : ParentsDecrease ar) (nb : Branch) (bi : Nat) (hbi : bi < ar.length) (h : Int) :
    atH (ar ++ [nb]) bi h = atH ar bi h := by
  induction bi using Nat.strongRecOn generalizing h with
  | _ bi ih =>
    unfold atH
    simp only [atHeight]
    rw [List.getElem?_append_left hbi]
    cases hb : ar[bi]? with
    | none => rfl
    | some b =>
      simp only
      split
      · rfl
      · cases hpar : b.parent with
        | none => rfl
        | some p =>
          simp only
          have hlt := hp bi b hb p hpar
          have h1 := ih p hlt (by omega) h
          unfold atH at h1
          -- both sides use fuel `bi` for the parent: bring them to canonical fuel
          have hp' : ParentsDecrease (ar ++ [nb]) → True := fun _ => trivial
          have e1 : atHeight ar bi p h = atH ar p h := atHeight_fuel ar hp p bi (by omega) h
          have e2 : atHeight (ar ++ [nb]) bi p h = atHeight (ar ++ [nb]) (p + 1) p h := by
            -- fuel independence in the extended arena, proved directly by the same argument
            exact atHeight_fuel_append ar hp nb p bi (by omega) (by omega) h
          rw [e2, h1, e1]; rfl
where
  atHeight_fuel_append (ar : Arena) (hp : ParentsDecrease ar) (nb : Branch) (bi f : Nat) (hf : bi + 1 ≤ f)
      (hbi : bi < ar.length) (h : Int) : atHeight (ar ++ [nb]) f bi h = atHeight (ar ++ [nb]) (bi + 1) bi h := by
    induction bi using Nat.strongRecOn generalizing f h with
    | _ bi ih =>
      obtain ⟨f', rfl⟩ : ∃ f', f = f' + 1 := ⟨f - 1, by omega⟩
      simp only [atHeight]
      rw [List.getElem?_append_left hbi]
      cases hb : ar[bi]? with
      | none => rfl
      | some b =>
        simp only
        split
        · rfl
        · cases hpar : b.parent with
          | none => rfl
          | some p =>
            simp only
            have hlt := hp bi b hb p hpar
            rw [ih p hlt f' (by omega) (by omega) h, ih p hlt bi (by omega) (by omega) h]

/-! ### the link invariant -/

/-- consecutive headers of a branch are linked by their previous-block ids. -/
def InternallyLinked : List HData → Prop
  | [] => True
  | [_] => True
  | a :: b :: rest => b.hdr.prev = a.hdr.id ∧ InternallyLinked (b :: rest)

structure BranchLinks (ar : Arena) (bi : Nat) (b : Branch) : Prop where
  off : b.offset = 1
  nonempty : b.headers ≠ []
  firstIs : ∀ d, b.headers.head? = some d → d.hdr = b.first
  linked : InternallyLinked b.headers
  parentLink : ∀ p, b.parent = some p → ∃ d, atH ar p b.parentHeight = some d ∧ d.hdr.id = b.first.prev

/-- the forest is well linked. -/
structure LinkWF (ar : Arena) : Prop where
  dec : ParentsDecrease ar
  each : ∀ (bi : Nat) (b : Branch), ar[bi]? = some b → BranchLinks ar bi b

theorem internallyLinked_getI (l : List HData) (hl : InternallyLinked l) (i : Int) (a b : HData)
    (ha : getI l i = some a) (hb : getI l (i - 1) = some b) : a.hdr.prev = b.hdr.id := by
  unfold getI at ha hb
  split at ha
  · cases ha
  · split at hb
    · cases hb
    · rename_i h1 h2
      obtain ⟨k, hk⟩ : ∃ k : Nat, i = (k : Int) + 1 := ⟨(i - 1).toNat, by omega⟩
      subst hk
      have e1 : ((k : Int) + 1).toNat = k + 1 := by omega
      have e2 : ((k : Int) + 1 - 1).toNat = k := by omega
      rw [e1] at ha; rw [e2] at hb
      clear h1 h2 e1 e2
      induction l generalizing k with
      | nil => simp at ha
      | cons x xs ih =>
        cases xs with
        | nil => simp at ha
        | cons y ys =>
          cases k with
          | zero =>
            simp only [List.getElem?_cons_succ, List.getElem?_cons_zero, Option.some.injEq] at ha hb
            subst ha; subst hb
            exact hl.1
          | succ k =>
            simp only [List.getElem?_cons_succ] at ha hb
            exact ih hl.2 k (by simpa using ha) (by simpa using hb)

/-- **the headers along a branch's ancestry form a linked chain**: whenever the lookups at `h` and
    `h − 1` both succeed, the header at `h` names the header at `h − 1` as its previous block. -/
theorem atH_linked (ar : Arena) (hw : LinkWF ar) (bi : Nat) (h : Int) (a b : HData)
    (ha : atH ar bi h = some a) (hb : atH ar bi (h - 1) = some b) : a.hdr.prev = b.hdr.id := by
  induction bi using Nat.strongRecOn generalizing h a b with
  | _ bi ih =>
    cases hbr : ar[bi]? with
    | none => unfold atH at ha; simp [atHeight, hbr] at ha
    | some br =>
      have hl := hw.each bi br hbr
      rw [atH_unfold ar hw.dec bi br hbr] at ha hb
      by_cases h1 : h > br.parentHeight
      · simp only [h1, ↓reduceIte] at ha
        by_cases h2 : h - 1 > br.parentHeight
        · simp only [h2, ↓reduceIte] at hb
          have : h - 1 - br.parentHeight - br.offset = (h - br.parentHeight - br.offset) - 1 := by omega
          rw [this] at hb
          exact internallyLinked_getI _ hl.linked _ a b ha hb
        · -- `h` is the first height of this branch: link to the parent
          simp only [h2, ↓reduceIte] at hb
          have hh : h = br.parentHeight + 1 := by omega
          cases hpar : br.parent with
          | none => rw [hpar] at hb; cases hb
          | some p =>
            rw [hpar] at hb
            simp only at hb
            obtain ⟨d, hd1, hd2⟩ := hl.parentLink p hpar
            have : h - 1 = br.parentHeight := by omega
            rw [this, hd1] at hb
            simp only [Option.some.injEq] at hb
            subst hb
            -- a is the first header
            rw [hh, hl.off] at ha
            have e0 : br.parentHeight + 1 - br.parentHeight - 1 = 0 := by omega
            rw [e0] at ha
            unfold getI at ha
            simp only [Int.lt_irrefl, ↓reduceIte, Int.toNat_zero] at ha
            have hf := hl.firstIs a (by rw [List.head?_eq_getElem?]; exact ha)
            rw [hf]; exact hd2.symm
      · simp only [h1, ↓reduceIte] at ha
        have h2 : ¬ (h - 1 > br.parentHeight) := by omega
        simp only [h2, ↓reduceIte] at hb
        cases hpar : br.parent with
        | none => rw [hpar] at ha; cases ha
        | some p =>
          rw [hpar] at ha hb
          simp only at ha hb
          exact ih p (hw.dec bi br hbr p hpar) h a b ha hb

/-! ### preservation by `ProcessHeader` -/

theorem atHeight_some_lt (ar : Arena) (f bi : Nat) (h : Int) (d : HData) (hs : atHeight ar f bi h = some d) :
    bi < ar.length := by
  cases f with
  | zero => simp [atHeight] at hs
  | succ f =>
    simp only [atHeight] at hs
    by_cases hb : bi < ar.length
    · exact hb
    · rw [List.getElem?_eq_none (by omega)] at hs; cases hs

theorem internallyLinked_append (l : List HData) (x lst : HData) (hl : InternallyLinked l)
    (hlast : l.getLast? = some lst) (hx : x.hdr.prev = lst.hdr.id) : InternallyLinked (l ++ [x]) := by
  induction l with
  | nil => simp at hlast
  | cons a rest ih =>
    cases rest with
    | nil =>
      simp only [List.getLast?_singleton, Option.some.injEq] at hlast
      subst hlast
      exact ⟨hx, trivial⟩
    | cons b rest' =>
      simp only [List.cons_append]
      refine ⟨hl.1, ?_⟩
      have : (b :: rest').getLast? = some lst := by simpa [List.getLast?_cons_cons] using hlast
      exact ih hl.2 this

/-- the genesis-only forest is well linked. -/
theorem linkWF_single (b : Branch) (hoff : b.offset = 1) (hpar : b.parent = none) (d : HData)
    (hh : b.headers = [d]) (hf : d.hdr = b.first) : LinkWF [b] := by
  refine ⟨?_, ?_⟩
  · intro bi br hbr p hp
    cases bi with
    | zero => simp only [List.getElem?_cons_zero, Option.some.injEq] at hbr; subst hbr; rw [hpar] at hp; cases hp
    | succ n => simp at hbr
  · intro bi br hbr
    cases bi with
    | zero =>
      simp only [List.getElem?_cons_zero, Option.some.injEq] at hbr
      subst hbr
      refine ⟨hoff, by rw [hh]; simp, ?_, by rw [hh]; trivial, ?_⟩
      · intro d' hd'; rw [hh] at hd'; simp only [List.head?_cons, Option.some.injEq] at hd'; subst hd'; exact hf
      · intro p hp; rw [hpar] at hp; cases hp
    | succ n => simp at hbr

/-- new-branch path: appending the branch `NewBranch` built keeps the forest well linked. -/
theorem linkWF_append (ar : Arena) (hw : LinkWF ar) (pb : Nat) (ph : Int) (h : Hdr) (lst : HData) (w : Nat)
    (hat : atH ar pb ph = some lst) (hprev : lst.hdr.id = h.prev) :
    LinkWF (ar ++ [{ parent := some pb, parentHeight := ph, first := h, offset := 1,
                      headers := [{ hdr := h, work := w }], hmap := [(h.id, ph + 1)] }]) := by
  have hpb : pb < ar.length := atHeight_some_lt ar _ pb ph lst hat
  refine ⟨?_, ?_⟩
  · intro bi br hbr p hp
    by_cases hlt : bi < ar.length
    · rw [List.getElem?_append_left hlt] at hbr
      exact hw.dec bi br hbr p hp
    · have : bi = ar.length := by
        have := List.getElem?_eq_some_iff.mp hbr
        obtain ⟨hl, _⟩ := this
        simp only [List.length_append, List.length_cons, List.length_nil] at hl
        omega
      subst this
      simp only [List.getElem?_concat_length, Option.some.injEq] at hbr
      subst hbr
      simp only [Option.some.injEq] at hp
      omega
  · intro bi br hbr
    by_cases hlt : bi < ar.length
    · rw [List.getElem?_append_left hlt] at hbr
      have hb := hw.each bi br hbr
      refine ⟨hb.off, hb.nonempty, hb.firstIs, hb.linked, ?_⟩
      intro p hp
      obtain ⟨d, hd1, hd2⟩ := hb.parentLink p hp
      have hpl : p < ar.length := by have := hw.dec bi br hbr p hp; omega
      exact ⟨d, by rw [atH_append ar hw.dec _ p hpl]; exact hd1, hd2⟩
    · have : bi = ar.length := by
        have := List.getElem?_eq_some_iff.mp hbr
        obtain ⟨hl, _⟩ := this
        simp only [List.length_append, List.length_cons, List.length_nil] at hl
        omega
      subst this
      simp only [List.getElem?_concat_length, Option.some.injEq] at hbr
      subst hbr
      refine ⟨rfl, by simp, ?_, trivial, ?_⟩
      · intro d hd; simp only [List.head?_cons, Option.some.injEq] at hd; subst hd; rfl
      · intro p hp
        simp only [Option.some.injEq] at hp
        subst hp
        exact ⟨lst, by rw [atH_append ar hw.dec _ pb hpb]; exact hat, hprev⟩

/-- extending a branch keeps every successful lookup. -/
theorem atH_set_extend (ar : Arena) (hp : ParentsDecrease ar) (pb : Nat) (b b2 : Branch) (x : HData)
    (hb : ar[pb]? = some b) (hpar : b2.parent = b.parent) (hph : b2.parentHeight = b.parentHeight)
    (hoff : b2.offset = b.offset) (hh : b2.headers = b.headers ++ [x])
    (bi : Nat) (h : Int) (d : HData) (hs : atH ar bi h = some d) : atH (ar.set pb b2) bi h = some d := by
  have hp' : ParentsDecrease (ar.set pb b2) := by
    intro i br hbr p hpp
    by_cases hi : i = pb
    · subst hi
      have hlen : i < ar.length := (List.getElem?_eq_some_iff.mp hb).1
      rw [List.getElem?_set_self hlen] at hbr
      simp only [Option.some.injEq] at hbr
      subst hbr
      rw [hpar] at hpp
      exact hp i b hb p hpp
    · rw [List.getElem?_set_ne (fun hc => hi hc.symm)] at hbr
      exact hp i br hbr p hpp
  induction bi using Nat.strongRecOn generalizing h d with
  | _ bi ih =>
    cases hbr : ar[bi]? with
    | none => unfold atH at hs; simp [atHeight, hbr] at hs
    | some br =>
      rw [atH_unfold ar hp bi br hbr] at hs
      by_cases hi : bi = pb
      · subst hi
        rw [hb] at hbr
        simp only [Option.some.injEq] at hbr
        subst hbr
        have hlen : bi < ar.length := (List.getElem?_eq_some_iff.mp hb).1
        rw [atH_unfold (ar.set bi b2) hp' bi b2 (List.getElem?_set_self hlen)]
        rw [hph, hoff, hh, hpar]
        by_cases h1 : h > b.parentHeight
        · simp only [h1, ↓reduceIte] at hs ⊢
          -- index into the extended list
          unfold getI at hs ⊢
          split at hs
          · cases hs
          · rename_i hneg
            simp only [hneg, ↓reduceIte]
            have := List.getElem?_eq_some_iff.mp hs
            obtain ⟨hlt, _⟩ := this
            rw [List.getElem?_append_left hlt]; exact hs
        · simp only [h1, ↓reduceIte] at hs ⊢
          cases hpp : b.parent with
          | none => rw [hpp] at hs; cases hs
          | some p =>
            rw [hpp] at hs
            simp only at hs ⊢
            exact ih p (hp bi b hb p hpp) h d hs
      · have hbr' : (ar.set pb b2)[bi]? = some br := by
          rw [List.getElem?_set_ne (fun hc => hi hc.symm)]; exact hbr
        rw [atH_unfold (ar.set pb b2) hp' bi br hbr']
        by_cases h1 : h > br.parentHeight
        · simp only [h1, ↓reduceIte] at hs ⊢; exact hs
        · simp only [h1, ↓reduceIte] at hs ⊢
          cases hpp : br.parent with
          | none => rw [hpp] at hs; cases hs
          | some p =>
            rw [hpp] at hs
            simp only at hs ⊢
            exact ih p (hp bi br hbr p hpp) h d hs

/-- extension path: appending a header that names the branch's last header keeps the forest well linked. -/
theorem linkWF_extend (ar : Arena) (hw : LinkWF ar) (pb : Nat) (b b2 : Branch) (x lst : HData)
    (hb : ar[pb]? = some b) (hpar : b2.parent = b.parent) (hph : b2.parentHeight = b.parentHeight)
    (hoff : b2.offset = b.offset) (hfirst : b2.first = b.first) (hh : b2.headers = b.headers ++ [x])
    (hlast : b.headers.getLast? = some lst) (hx : x.hdr.prev = lst.hdr.id) : LinkWF (ar.set pb b2) := by
  have hlen : pb < ar.length := (List.getElem?_eq_some_iff.mp hb).1
  refine ⟨?_, ?_⟩
  · intro i br hbr p hpp
    by_cases hi : i = pb
    · subst hi
      rw [List.getElem?_set_self hlen] at hbr
      simp only [Option.some.injEq] at hbr
      subst hbr
      rw [hpar] at hpp
      exact hw.dec i b hb p hpp
    · rw [List.getElem?_set_ne (fun hc => hi hc.symm)] at hbr
      exact hw.dec i br hbr p hpp
  · intro bi br hbr
    by_cases hi : bi = pb
    · subst hi
      rw [List.getElem?_set_self hlen] at hbr
      simp only [Option.some.injEq] at hbr
      subst hbr
      have hbl := hw.each bi b hb
      refine ⟨by rw [hoff]; exact hbl.off, by rw [hh]; simp, ?_, by rw [hh]; exact internallyLinked_append _ _ _ hbl.linked hlast hx, ?_⟩
      · intro d hd
        rw [hh] at hd
        rw [hfirst]
        apply hbl.firstIs d
        cases hl : b.headers with
        | nil => exact absurd hl hbl.nonempty
        | cons a rest => rw [hl] at hd; simpa using hd
      · intro p hpp
        rw [hpar] at hpp
        obtain ⟨d, hd1, hd2⟩ := hbl.parentLink p hpp
        rw [hph, hfirst]
        exact ⟨d, atH_set_extend ar hw.dec bi b _ x hb hpar hph hoff hh p _ d hd1, hd2⟩
    · rw [List.getElem?_set_ne (fun hc => hi hc.symm)] at hbr
      have hbl := hw.each bi br hbr
      refine ⟨hbl.off, hbl.nonempty, hbl.firstIs, hbl.linked, ?_⟩
      intro p hpp
      obtain ⟨d, hd1, hd2⟩ := hbl.parentLink p hpp
      exact ⟨d, atH_set_extend ar hw.dec pb b b2 x hb hpar hph hoff hh p _ d hd1, hd2⟩

/-! ### `ProcessHeader` as a whole -/

theorem newBranch_ok_shape (r : Repo) (pb : Nat) (ph : Int) (h : Hdr) (nb : Branch)
    (hn : newBranch r (some pb) ph h = .ok nb) :
    ∃ lst w, r.at pb ph = some lst ∧ lst.hdr.id = h.prev ∧
      nb = { parent := some pb, parentHeight := ph, first := h, offset := 1,
             headers := [{ hdr := h, work := lst.work + w }], hmap := [(h.id, ph + 1)] } := by
  unfold newBranch at hn
  simp only at hn
  cases hat : r.at pb ph with
  | none => rw [hat] at hn; cases hn
  | some l =>
    rw [hat] at hn
    simp only at hn
    by_cases hne : l.hdr.id = h.prev
    · simp only [hne, ne_eq, not_true_eq_false, ↓reduceIte] at hn
      cases hw : Work.blockWork h.bits with
      | none => rw [hw] at hn; cases hn
      | some w =>
        rw [hw] at hn
        simp only [Except.ok.injEq] at hn
        exact ⟨l, w, rfl, hne, hn.symm⟩
    · simp only [ne_eq, hne, not_false_eq_true, ↓reduceIte] at hn; cases hn

theorem reselect_ok_arena (r1 r2 : Repo) (sent : Bool) (evs : List Hdr) (h : reselect r1 = .ok (r2, sent, evs)) :
    r2.arena = r1.arena := by
  unfold reselect at h
  split at h
  · cases h
  · split at h
    · split at h
      · cases h
      · simp only [Except.ok.injEq, Prod.mk.injEq] at h; rw [← h.1]
    · simp only [Except.ok.injEq, Prod.mk.injEq] at h; rw [← h.1]

theorem reselect_error_arena (r1 r2 : Repo) (o : StepOut) (h : reselect r1 = .error (r2, o)) :
    r2.arena = r1.arena := by
  unfold reselect at h
  split at h
  · simp only [Except.error.injEq, Prod.mk.injEq] at h; rw [← h.1]
  · split at h
    · split at h
      · simp only [Except.error.injEq, Prod.mk.injEq] at h; rw [← h.1]
      · cases h
    · cases h

/-- the forest stays well linked through the new-branch path. -/
theorem linkWF_forkHeader (r : Repo) (h : Hdr) (pb : Nat) (ph : Int) (hw : LinkWF r.arena) :
    LinkWF (forkHeader r h pb ph).1.arena := by
  unfold forkHeader
  cases hn : newBranch r (some pb) ph h with
  | error v => exact hw
  | ok nb =>
    simp only
    obtain ⟨lst, w, hat, hprev, rfl⟩ := newBranch_ok_shape r pb ph h nb hn
    have hpb : pb < r.arena.length := atHeight_some_lt _ _ _ _ _ hat
    rw [Repo.at_eq_atH r hw.dec pb hpb] at hat
    have hnew := linkWF_append r.arena hw pb ph h lst (lst.work + w) hat hprev
    generalize hr : reselect _ = res
    cases res with
    | error x => obtain ⟨r2, o⟩ := x; simp only; rw [reselect_error_arena _ _ _ hr]; exact hnew
    | ok y => obtain ⟨r2, s, evs⟩ := y; simp only; rw [reselect_ok_arena _ _ _ _ hr]; exact hnew

/-- the forest stays well linked through the extension path (when the automatic clean is not due). -/
theorem linkWF_extendHeader (r : Repo) (h : Hdr) (pb : Nat) (ph : Int) (lst : HData) (hw : LinkWF r.arena)
    (hlast : r.lastOf pb = some lst) (hprev : lst.hdr.id = h.prev)
    (hnc : Int.tmod ((r.br pb).height + 1) (Facts.autoCleanModulus : Int) ≠ 0) :
    LinkWF (extendHeader r h pb ph lst).1.arena := by
  unfold extendHeader
  cases hbw : Work.blockWork h.bits with
  | none => exact hw
  | some w =>
    simp only
    -- the branch exists
    have hlen : pb < r.arena.length := by
      unfold Repo.lastOf Repo.br Branch.last? at hlast
      by_cases hc : pb < r.arena.length
      · exact hc
      · rw [List.getElem?_eq_none (by omega)] at hlast
        simp only [Option.getD_none] at hlast
        cases hlast
    have hb : r.arena[pb]? = some (r.br pb) := by
      unfold Repo.br; rw [List.getElem?_eq_getElem hlen]; rfl
    have hlast' : (r.br pb).headers.getLast? = some lst := hlast
    have hadd : LinkWF (addToBranch r h pb ph lst w).arena := by
      unfold addToBranch Repo.setBranch
      simp only
      exact linkWF_extend r.arena hw pb (r.br pb) _ { hdr := h, work := lst.work + w } lst hb rfl rfl rfl rfl rfl hlast' hprev.symm
    have hheight : ((addToBranch r h pb ph lst w).br pb).height = (r.br pb).height + 1 := by
      unfold addToBranch Repo.br Repo.setBranch Branch.height
      simp only [List.getElem?_set_self hlen, Option.getD_some, List.length_append, List.length_cons, List.length_nil]
      rw [List.getElem?_eq_getElem hlen]
      simp only [Option.getD_some]
      omega
    have hl : (addToBranch r h pb ph lst w).longest = r.longest := rfl
    by_cases hpl : pb = r.longest
    · subst hpl
      have e : (addToBranch r h r.longest ph lst w).longest = r.longest := rfl
      simp only [e, ne_eq, not_true_eq_false, ↓reduceIte, hheight, hnc]
      exact hadd
    · simp only [hl, hpl, ne_eq, not_false_eq_true, ↓reduceIte]
      generalize hr : reselect _ = res
      cases res with
      | error x => obtain ⟨r2, o⟩ := x; simp only; rw [reselect_error_arena _ _ _ hr]; exact hadd
      | ok y =>
        obtain ⟨r2, s, evs⟩ := y
        have hk := reselect_ok_arena _ _ _ _ hr
        simp only
        have hbr : r2.br pb = (addToBranch r h pb ph lst w).br pb := by unfold Repo.br; rw [hk]
        split
        · rw [hbr, hheight]
          simp only [hnc, ↓reduceIte]
          rw [hk]; exact hadd
        · rw [hk]; exact hadd

/-- **`ProcessHeader` keeps the forest well linked** (every verdict; automatic clean not due). -/
theorem linkWF_processHeader (r : Repo) (h : Hdr) (ok : Bool) (hw : LinkWF r.arena)
    (hnc : ∀ pb ph lst, precheck r h ok = .inr (pb, ph, lst) →
      Int.tmod ((r.br pb).height + 1) (Facts.autoCleanModulus : Int) ≠ 0) :
    LinkWF (processHeader r h ok).1.arena := by
  cases hpc : precheck r h ok with
  | inl v => rw [processHeader_of_inl r h ok v hpc]; exact hw
  | inr x =>
    obtain ⟨pb, ph, lst⟩ := x
    rw [processHeader_of_inr r h ok pb ph lst hpc]
    have hpass := precheck_inr r h ok pb ph lst hpc
    unfold applyHeader
    by_cases hf : lst.hdr.id ≠ h.prev
    · simp only [hf, ne_eq, not_false_eq_true, ↓reduceIte]
      exact linkWF_forkHeader r h pb ph hw
    · simp only [hf, ↓reduceIte]
      exact linkWF_extendHeader r h pb ph lst hw hpass.lastIs (by simpa using hf) (hnc pb ph lst hpc)

theorem addToBranch_height (r : Repo) (h : Hdr) (pb : Nat) (ph : Int) (lst : HData) (w : Nat)
    (hl : r.lastOf pb = some lst) :
    ((addToBranch r h pb ph lst w).br pb).height = (r.br pb).height + 1 := by
  have hlen : pb < r.arena.length := by
    unfold Repo.lastOf Repo.br Branch.last? at hl
    by_cases hc : pb < r.arena.length
    · exact hc
    · rw [List.getElem?_eq_none (by omega)] at hl
      simp only [Option.getD_none] at hl
      cases hl
  unfold addToBranch Repo.br Repo.setBranch Branch.height
  simp only [List.getElem?_set_self hlen, Option.getD_some, List.length_append, List.length_cons, List.length_nil]
  rw [List.getElem?_eq_getElem hlen]
  simp only [Option.getD_some]
  omega

/-! ### submission histories -/

/-- a history of submissions: each header with the outcome of its hash-vs-target comparison. -/
def submitAll (r : Repo) (hs : List (Hdr × Bool)) : Repo := hs.foldl (fun s x => (processHeader s x.1 x.2).1) r

/-- no submission of the history triggers the automatic clean (checked at the state it is submitted to). -/
def NoAutoClean : Repo → List (Hdr × Bool) → Prop
  | _, [] => True
  | r, x :: xs =>
    (∀ pb ph lst, precheck r x.1 x.2 = .inr (pb, ph, lst) →
      Int.tmod ((r.br pb).height + 1) (Facts.autoCleanModulus : Int) ≠ 0) ∧
    NoAutoClean (processHeader r x.1 x.2).1 xs

/-- the same as a computation (to discharge `NoAutoClean` for concrete histories by `decide`). -/
def noAutoCleanB : Repo → List (Hdr × Bool) → Bool
  | _, [] => true
  | r, x :: xs =>
    (match precheck r x.1 x.2 with
     | .inr (pb, _, _) => decide (Int.tmod ((r.br pb).height + 1) (Facts.autoCleanModulus : Int) ≠ 0)
     | .inl _ => true) && noAutoCleanB (processHeader r x.1 x.2).1 xs

theorem noAutoClean_of_B (r : Repo) (hs : List (Hdr × Bool)) (h : noAutoCleanB r hs = true) : NoAutoClean r hs := by
  induction hs generalizing r with
  | nil => trivial
  | cons x xs ih =>
    simp only [noAutoCleanB, Bool.and_eq_true] at h
    refine ⟨?_, ih _ h.2⟩
    intro pb ph lst hp
    have h1 := h.1
    rw [hp] at h1
    simpa using h1

theorem linkWF_submitAll (r : Repo) (hs : List (Hdr × Bool)) (hw : LinkWF r.arena) (hq : NoAutoClean r hs) :
    LinkWF (submitAll r hs).arena := by
  induction hs generalizing r with
  | nil => exact hw
  | cons x xs ih =>
    obtain ⟨h1, h2⟩ := hq
    simp only [submitAll, List.foldl_cons]
    exact ih _ (linkWF_processHeader r x.1 x.2 hw h1) h2

end BRV.Repo
