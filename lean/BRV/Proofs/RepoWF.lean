/-
Well-formedness of the branch forest (links only): parents have smaller arena indices, every
branch is internally linked, its first header links to the parent's header at the parent height.
Consequence: the headers `AtHeight` returns along any branch's ancestry form a linked chain.
Preserved by `ProcessHeader` (both paths); consolidation/pruning are not covered here.
-/
import BRV.Proofs.RepoBasics

namespace BRV.Repo

/-- parents have strictly smaller arena indices (branches are only ever appended). -/
def ParentsDecrease (ar : Arena) : Prop :=
  ∀ (bi : Nat) (b : Branch), ar[bi]? = some b → ∀ p, b.parent = some p → p < bi

/-- canonical fuel for branch `bi`. -/
def atH (ar : Arena) (bi : Nat) (h : Int) : Option HData := atHeight ar (bi + 1) bi h

theorem atHeight_fuel (ar : Arena) (hp : ParentsDecrease ar) (bi : Nat) (f : Nat) (hf : bi + 1 ≤ f) (h : Int) :
    atHeight ar f bi h = atH ar bi h := by
  induction bi using Nat.strongRecOn generalizing f h with
  | _ bi ih =>
    unfold atH
    obtain ⟨f', rfl⟩ : ∃ f', f = f' + 1 := ⟨f - 1, by omega⟩
    simp only [atHeight]
    cases hb : ar[bi]? with
    | none => rfl
    | some b =>
      simp only
      split
      · rfl
      · cases hpar : b.parent with
        | none => rfl
        | some p =>
          simp only
          have hlt := hp bi b hb p hpar
          rw [ih p hlt f' (by omega) h, ih p hlt bi (by omega) h]

theorem Repo.at_eq_atH (r : Repo) (hp : ParentsDecrease r.arena) (bi : Nat) (hbi : bi < r.arena.length) (h : Int) :
    r.at bi h = atH r.arena bi h := by
  unfold Repo.at Repo.fuel
  exact atHeight_fuel _ hp bi _ (by omega) h

/-- one unfolding of the canonical lookup. -/
theorem atH_unfold (ar : Arena) (hp : ParentsDecrease ar) (bi : Nat) (b : Branch) (hb : ar[bi]? = some b) (h : Int) :
    atH ar bi h =
      if h > b.parentHeight then getI b.headers (h - b.parentHeight - b.offset)
      else match b.parent with
        | none => none
        | some p => atH ar p h := by
  unfold atH
  simp only [atHeight, hb]
  split
  · rfl
  · cases hpar : b.parent with
    | none => rfl
    | some p =>
      simp only
      exact atHeight_fuel ar hp p bi (by have := hp bi b hb p hpar; omega) h

/-- appending a branch does not change lookups through the old branches. -/
theorem atH_append (ar : Arena) (hp : ParentsDecrease ar) (nb : Branch) (bi : Nat) (hbi : bi < ar.length) (h : Int) :
    atH (ar ++ [nb]) bi h = atH ar bi h := by
  induction bi using Nat.strongRecOn generalizing h with
  | _ bi ih =>
    unfold atH
    simp only [atHeight]
    rw [List.getElem?_append_left hbi]
    cases hb : ar[bi]? with
    | none => rfl
    | some b =>
      simp only
      split
      · rfl
      · cases hpar : b.parent with
        | none => rfl
        | some p =>
          simp only
          have hlt := hp bi b hb p hpar
          have h1 := ih p hlt (by omega) h
          unfold atH at h1
          -- both sides use fuel `bi` for the parent: bring them to canonical fuel
          have hp' : ParentsDecrease (ar ++ [nb]) → True := fun _ => trivial
          have e1 : atHeight ar bi p h = atH ar p h := atHeight_fuel ar hp p bi (by omega) h
          have e2 : atHeight (ar ++ [nb]) bi p h = atHeight (ar ++ [nb]) (p + 1) p h := by
            -- fuel independence in the extended arena, proved directly by the same argument
            exact atHeight_fuel_append ar hp nb p bi (by omega) (by omega) h
          rw [e2, h1, e1]; rfl
where
  atHeight_fuel_append (ar : Arena) (hp : ParentsDecrease ar) (nb : Branch) (bi f : Nat) (hf : bi + 1 ≤ f)
      (hbi : bi < ar.length) (h : Int) : atHeight (ar ++ [nb]) f bi h = atHeight (ar ++ [nb]) (bi + 1) bi h := by
    induction bi using Nat.strongRecOn generalizing f h with
    | _ bi ih =>
      obtain ⟨f', rfl⟩ : ∃ f', f = f' + 1 := ⟨f - 1, by omega⟩
      simp only [atHeight]
      rw [List.getElem?_append_left hbi]
      cases hb : ar[bi]? with
      | none => rfl
      | some b =>
        simp only
        split
        · rfl
        · cases hpar : b.parent with
          | none => rfl
          | some p =>
            simp only
            have hlt := hp bi b hb p hpar
            rw [ih p hlt f' (by omega) (by omega) h, ih p hlt bi (by omega) (by omega) h]

end BRV.Repo
