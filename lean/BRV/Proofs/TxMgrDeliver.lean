/-
C06 helper lemmas, part 6 (sequential histories): which txids are received, the channel is empty
between calls when nothing fails, and request stamps equal request times.
-/
import BRV.Proofs.TxMgrHist
import BRV.Proofs.TxMgrPoll

namespace BRV.TxMgr

/-! ### received ⇔ delivered -/

theorem runAll_recvd (env : Env) (n : Nat) (st : Store) (k : TxId) : recvdB (runAll env n st) k = recvdB st k :=
  recvdB_congr (runAll_frame n st).1 k

theorem sendOrDrop_recvd (st : Store) (tx k : TxId) : recvdB (sendOrDrop st tx) k = recvdB st k :=
  recvdB_congr (sendOrDrop_frame st tx).1 k

theorem addTxID_recvd (env : Env) (st : Store) (node : NodeId) (tx : TxId) (now : Nat) (k : TxId) :
    recvdB (addTxID env st node tx now).1 k = recvdB st k := by
  unfold addTxID
  simp only
  split
  · rw [annBucketSec_recvd]; rfl
  · rw [annEntrySec_recvd, annBucketSec_recvd]; rfl

theorem pollKeys_recvd (env : Env) (node : NodeId) (ks : List TxId) (st : Store) (acc : List TxId)
    (k : TxId) : recvdB (pollKeys env node st ks acc).1 k = recvdB st k := by
  induction ks generalizing st acc with
  | nil => rfl
  | cons x ks ih => simp only [pollKeys]; rw [ih, pollEntrySec_recvd]

theorem pollBuckets_recvd (env : Env) (node : NodeId) (max : Int) (order : List Nat) (st : Store)
    (acc : List TxId) (k : TxId) : recvdB (pollBuckets env node max st order acc).1 k = recvdB st k := by
  induction order generalizing st acc with
  | nil => rfl
  | cons b bs ih =>
    simp only [pollBuckets]
    split
    · exact pollKeys_recvd ..
    · rw [ih, pollKeys_recvd]

theorem getTxRequests_recvd (env : Env) (st : Store) (node : NodeId) (max : Int) (now : Nat) (order : List Nat)
    (k : TxId) : recvdB (getTxRequests env st node max now order).1 k = recvdB st k := by
  unfold getTxRequests; rw [pollBuckets_recvd]; rfl

theorem dlvBucketSec_recvd_other (st : Store) (tx : TxId) (now : Nat) (k : TxId) (hk : k ≠ tx) :
    recvdB (dlvBucketSec st tx now).1 k = recvdB st k :=
  (dlvBucketSec_trans { timeout := 0 } st tx now).recvd_other k hk

theorem dlvEntrySec_recvd_other (st : Store) (tx : TxId) (now : Nat) (k : TxId) (hk : k ≠ tx) :
    recvdB (dlvEntrySec st tx now).1 k = recvdB st k :=
  (dlvEntrySec_trans { timeout := 0 } st tx now).recvd_other k hk

theorem addTx_recvd_other (env : Env) (st : Store) (node : NodeId) (tx : TxId) (now : Nat) (k : TxId)
    (hk : k ≠ tx) : recvdB (addTx env st node tx now) k = recvdB st k := by
  unfold addTx
  simp only
  split
  · split
    · rw [drain, runAll_recvd, sendOrDrop_recvd, dlvBucketSec_recvd_other _ _ _ _ hk]; rfl
    · rw [dlvBucketSec_recvd_other _ _ _ _ hk]; rfl
  · split
    · rw [drain, runAll_recvd, sendOrDrop_recvd, dlvEntrySec_recvd_other _ _ _ _ hk,
        dlvBucketSec_recvd_other _ _ _ _ hk]; rfl
    · rw [dlvEntrySec_recvd_other _ _ _ _ hk, dlvBucketSec_recvd_other _ _ _ _ hk]; rfl

/-- after the two lock sections of AddTx the entry exists and is received. -/
theorem dlv_sections_recvd (st : Store) (tx : TxId) (now : Nat) :
    recvdB (if (dlvBucketSec st tx now).2 = true then ((dlvBucketSec st tx now).1, true)
            else dlvEntrySec (dlvBucketSec st tx now).1 tx now).1 tx = true := by
  unfold dlvBucketSec
  split
  · rename_i e he
    simp only [Bool.false_eq_true, if_false]
    unfold dlvEntrySec
    simp only [he]
    split
    · rename_i t ht; simp [recvdB, he, ht]
    · simp [recvdB]
  · simp [recvdB]

theorem addTx_recvd_self (env : Env) (st : Store) (node : NodeId) (tx : TxId) (now : Nat) :
    recvdB (addTx env st node tx now) tx = true := by
  have h := dlv_sections_recvd { st with clock := now } tx now
  unfold addTx
  simp only
  split
  · rename_i hc
    rw [if_pos hc] at h
    split
    · rw [drain, runAll_recvd, sendOrDrop_recvd]; exact h
    · exact h
  · rename_i hc
    rw [if_neg hc] at h
    split
    · rw [drain, runAll_recvd, sendOrDrop_recvd]; exact h
    · exact h

/-- the txid is delivered somewhere in the history. -/
def deliveredIn (ops : List Op) (tx : TxId) : Prop := ∃ node now, Op.dlv node tx now ∈ ops

theorem seqStep_recvd (env : Env) (st : Store) (op : Op) (hop : op.isClean = false) (k : TxId) :
    recvdB (seqStep env st op) k = true ↔ recvdB st k = true ∨ ∃ node now, op = .dlv node k now := by
  cases op with
  | ann node tx now => simp [seqStep, addTxID_recvd]
  | poll node max now order => simp [seqStep, getTxRequests_recvd]
  | clean o => simp [Op.isClean] at hop
  | dlv node tx now =>
    simp only [seqStep]
    by_cases hk : k = tx
    · subst hk
      simp [addTx_recvd_self]
    · rw [addTx_recvd_other env st node tx now k hk]
      constructor
      · exact Or.inl
      · rintro (h | ⟨n, t, h⟩)
        · exact h
        · simp only [Op.dlv.injEq] at h; exact absurd h.2.1.symm hk

theorem seqRun_recvd (env : Env) (ops : List Op) (st : Store) (hops : noClean ops) (k : TxId) :
    recvdB (seqRun env st ops) k = true ↔ recvdB st k = true ∨ deliveredIn ops k := by
  induction ops generalizing st with
  | nil => simp [seqRun, deliveredIn]
  | cons op ops ih =>
    simp only [seqRun, List.foldl_cons]
    have := ih (seqStep env st op) (fun o ho => hops o (List.mem_cons_of_mem _ ho))
    simp only [seqRun] at this
    rw [this, seqStep_recvd env st op (hops op (List.mem_cons_self ..))]
    unfold deliveredIn
    constructor
    · rintro ((h | ⟨n, t, h⟩) | ⟨n, t, h⟩)
      · exact Or.inl h
      · exact Or.inr ⟨n, t, by rw [h]; exact List.mem_cons_self ..⟩
      · exact Or.inr ⟨n, t, List.mem_cons_of_mem _ h⟩
    · rintro (h | ⟨n, t, h⟩)
      · exact Or.inl (Or.inl h)
      · simp only [List.mem_cons] at h
        rcases h with h | h
        · exact Or.inl (Or.inr ⟨n, t, h.symm⟩)
        · exact Or.inr ⟨n, t, h⟩

/-! ### when ProcessTx/SaveTx never fail, nothing stays queued and nothing is dropped -/

def NoFail (env : Env) : Prop := (∀ t, env.proc t ≠ .err) ∧ (∀ t, env.saveErr t = false)

/-- between sequential calls: Run alive, channel empty, nothing dropped. -/
def Calm (st : Store) : Prop := st.runAlive = true ∧ st.chan = [] ∧ st.dropped = []

theorem cap_pos : 0 < Facts.txChannelCap := by decide

theorem deliver_calm {env : Env} (hnf : NoFail env) {st : Store} (tx : TxId) (h : Calm st) :
    Calm (drain env (sendOrDrop st tx)) := by
  obtain ⟨ha, hc, hd⟩ := h
  have hs : sendOrDrop st tx = { st with chan := [tx] } := by
    unfold sendOrDrop sendSec
    simp [hc, cap_pos]
  rw [hs]
  unfold drain
  simp only [List.length_cons, List.length_nil, Nat.zero_add, runAll, runSec, ha]
  have hp := hnf.1 tx
  cases hpt : env.proc tx with
  | err => exact absurd hpt hp
  | ok r =>
    cases r
    · simp [Calm, hd]
    · simp [Calm, hd, hnf.2 tx]

theorem Trans.calm {env : Env} {st st' : Store} {tx : TxId} (h : Trans env st tx st') (hc : Calm st) : Calm st' := by
  cases h <;> exact hc

theorem pollKeys_calm (env : Env) (node : NodeId) (ks : List TxId) (st : Store) (acc : List TxId) (hc : Calm st) : Calm (pollKeys env node st ks acc).1 := by
  induction ks generalizing st acc with
  | nil => exact hc
  | cons k ks ih =>
    simp only [pollKeys]
    exact ih _ _ ((pollEntrySec_trans env st node k).calm hc)

theorem pollBuckets_calm (env : Env) (node : NodeId) (max : Int) (order : List Nat) (st : Store)
    (acc : List TxId) (hc : Calm st) : Calm (pollBuckets env node max st order acc).1 := by
  induction order generalizing st acc with
  | nil => exact hc
  | cons b bs ih =>
    simp only [pollBuckets]
    split
    · exact pollKeys_calm env node _ st acc hc
    · exact ih _ _ (pollKeys_calm env node _ st acc hc)

theorem seqStep_calm {env : Env} (hnf : NoFail env) (st : Store) (op : Op) (hop : op.isClean = false)
    (hc : Calm st) : Calm (seqStep env st op) := by
  cases op with
  | ann node tx now =>
    simp only [seqStep, addTxID]
    have h0 : Calm { st with clock := now } := hc
    have h1 := (annBucketSec_trans env _ node tx).calm h0
    split
    · exact h1
    · exact (annEntrySec_trans env _ node tx).calm h1
  | dlv node tx now =>
    simp only [seqStep, addTx]
    have h0 : Calm { st with clock := now } := hc
    have h1 := (dlvBucketSec_trans env _ tx now).calm h0
    split
    · split
      · exact deliver_calm hnf tx h1
      · exact h1
    · have h2 := (dlvEntrySec_trans env _ tx now).calm h1
      split
      · exact deliver_calm hnf tx h2
      · exact h2
  | poll node max now order =>
    simp only [seqStep, getTxRequests]
    exact pollBuckets_calm env node max order _ [] hc
  | clean o => simp [Op.isClean] at hop

theorem seqRun_calm {env : Env} (hnf : NoFail env) (ops : List Op) (st : Store) (hops : noClean ops)
    (hc : Calm st) : Calm (seqRun env st ops) := by
  induction ops generalizing st with
  | nil => exact hc
  | cons op ops ih =>
    simp only [seqRun, List.foldl_cons]
    exact ih _ (fun o ho => hops o (List.mem_cons_of_mem _ ho))
      (seqStep_calm hnf st op (hops op (List.mem_cons_self ..)) hc)

/-! ### in sequential histories a grant's stamp is its time -/

def StampEq (st : Store) : Prop := ∀ g ∈ st.grants, g.stamp = g.time

/-- the step adds no grant, or one whose stamp is the current clock. -/
def GrantNow (st st' : Store) : Prop :=
  st'.clock = st.clock ∧
  (st'.grants = st.grants ∨ ∃ tx node, st'.grants = ⟨tx, node, st.clock, st.clock⟩ :: st.grants)

theorem GrantNow.stampEq {st st' : Store} (h : GrantNow st st') (hs : StampEq st) : StampEq st' := by
  rcases h.2 with hg | ⟨tx, n, hg⟩
  · intro g; rw [hg]; exact hs g
  · intro g; rw [hg]
    simp only [List.mem_cons]
    rintro (rfl | h')
    · rfl
    · exact hs g h'

theorem annBucketSec_grantNow (st : Store) (node : NodeId) (tx : TxId) : GrantNow st (annBucketSec st node tx).1 := by
  unfold annBucketSec
  split
  · exact ⟨rfl, Or.inl rfl⟩
  · exact ⟨rfl, Or.inr ⟨tx, node, rfl⟩⟩

theorem annEntrySec_grantNow (env : Env) (st : Store) (node : NodeId) (tx : TxId) :
    GrantNow st (annEntrySec env st node tx).1 := by
  unfold annEntrySec
  split
  · exact ⟨rfl, Or.inl rfl⟩
  · split
    · exact ⟨rfl, Or.inl rfl⟩
    · split
      · exact ⟨rfl, Or.inl rfl⟩
      · exact ⟨rfl, Or.inr ⟨tx, node, rfl⟩⟩

theorem pollEntrySec_cases' (env : Env) (st : Store) (node : NodeId) (k : TxId) :
    pollEntrySec env st node k = (st, false) ∨
    ∃ e : Entry, pollEntrySec env st node k =
      ((st.setEnt k { e with lastRequested := st.clock, nodeIDs := removeID e.nodeIDs node }).grant k node st.clock, true) := by
  rcases pollEntrySec_cases env st node k with ⟨_, heq⟩ | ⟨e, _, _, _, _, heq⟩
  · exact Or.inl heq
  · exact Or.inr ⟨e, heq⟩

theorem pollEntrySec_grantNow (env : Env) (st : Store) (node : NodeId) (k : TxId) :
    GrantNow st (pollEntrySec env st node k).1 := by
  rcases pollEntrySec_cases' env st node k with heq | ⟨e, heq⟩
  · rw [heq]; exact ⟨rfl, Or.inl rfl⟩
  · rw [heq]; exact ⟨rfl, Or.inr ⟨k, node, rfl⟩⟩

theorem pollKeys_stampEq (env : Env) (node : NodeId) (ks : List TxId) (st : Store) (acc : List TxId)
    (hs : StampEq st) : StampEq (pollKeys env node st ks acc).1 := by
  induction ks generalizing st acc with
  | nil => exact hs
  | cons k ks ih =>
    simp only [pollKeys]
    exact ih _ _ ((pollEntrySec_grantNow env st node k).stampEq hs)

theorem pollBuckets_stampEq (env : Env) (node : NodeId) (max : Int) (order : List Nat) (st : Store)
    (acc : List TxId) (hs : StampEq st) :
    StampEq (pollBuckets env node max st order acc).1 := by
  induction order generalizing st acc with
  | nil => exact hs
  | cons b bs ih =>
    simp only [pollBuckets]
    split
    · exact pollKeys_stampEq env node _ st acc hs
    · exact ih _ _ (pollKeys_stampEq env node _ st acc hs)

theorem seqStep_stampEq (env : Env) (st : Store) (op : Op) (hop : op.isClean = false) (hs : StampEq st) :
    StampEq (seqStep env st op) := by
  cases op with
  | ann node tx now =>
    simp only [seqStep, addTxID]
    have h0 : StampEq { st with clock := now } := hs
    have h1 := (annBucketSec_grantNow { st with clock := now } node tx).stampEq h0
    split
    · exact h1
    · exact (annEntrySec_grantNow env _ node tx).stampEq h1
  | dlv node tx now =>
    have hg : (seqStep env st (.dlv node tx now)).grants = st.grants := by
      simp only [seqStep, addTx]
      have hb : (dlvBucketSec { st with clock := now } tx now).1.grants = st.grants := by
        unfold dlvBucketSec; split <;> rfl
      have he : ∀ s : Store, (dlvEntrySec s tx now).1.grants = s.grants := by
        intro s; unfold dlvEntrySec; split
        · rfl
        · split <;> rfl
      split
      · split
        · rw [drain, (runAll_frame _ _).2.1, (sendOrDrop_frame _ _).2.1, hb]
        · exact hb
      · split
        · rw [drain, (runAll_frame _ _).2.1, (sendOrDrop_frame _ _).2.1, he, hb]
        · rw [he, hb]
    intro g; rw [hg]; exact hs g
  | poll node max now order =>
    simp only [seqStep, getTxRequests]
    exact pollBuckets_stampEq env node max order _ [] hs
  | clean o => simp [Op.isClean] at hop

theorem seqRun_stampEq (env : Env) (ops : List Op) (st : Store) (hops : noClean ops) (hs : StampEq st) :
    StampEq (seqRun env st ops) := by
  induction ops generalizing st with
  | nil => exact hs
  | cons op ops ih =>
    simp only [seqRun, List.foldl_cons]
    exact ih _ (fun o ho => hops o (List.mem_cons_of_mem _ ho))
      (seqStep_stampEq env st op (hops op (List.mem_cons_self ..)) hs)

end BRV.TxMgr
